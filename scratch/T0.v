From Coq Require Import String List NArith ZArith QArith Bool Lia Sorting.Permutation Sorting.Sorted.
From Pcfg Require Import ProbAlg QProb Str Detect Segment TextFile TextFileProofs Counters CountersProofs LtallyProofs IoFacts
     Loader Next NextSpec NextProofs QSum Expand Pipeline PipelineStr PipelineTrain PipelineLoad PipelineProofs.
Import ListNotations.
Check parsed_ok. Check trained_of. Check structure_of. Check r_supported. Check base_file_keys. Check base_file_has.
Check toks_structure. Check toks_M. Check loaded_bases_names. Check loaded_var_groups. Check load_saved.
Check reproduced_core. Check reproduced_emitted. Check train_facts. Check base_file. Check base_counter.
Check Loader.is_M. Check @Loader.scan_M. Check M_key. Check @skip_total. Check is_M_iff. Check has_M_labels.
Check @C02_exactly_once_okb. Check @QSum_emitted. Check supported_pw. Check @pipeline_Q.
Print Detect.counters_ok.
