(* PipelineQ.v - the pipeline of Pipeline.v over exact rational arithmetic
   (RQ, ideal disk): the two arithmetic hypotheses of PipelineProofs.v
   (no_zero_div, wf of the loaded ruleset) are discharged, and the
   probabilities of all guesses of a complete session sum to 1. *)
From Coq Require Import String List NArith ZArith QArith Bool Lia Sorting.Permutation Sorting.Sorted.
From Pcfg Require Import ProbAlg QProb Str Detect Segment TextFile TextFileProofs Counters CountersProofs LtallyProofs IoFacts
     Loader Next NextSpec NextProofs QSum Expand Pipeline PipelineStr PipelineTrain PipelineLoad PipelineProofs.
Import ListNotations.
Local Open Scope nat_scope.

(* ------------------------------------------------------------------ *)
(* generic: grouping keeps order and membership of the probabilities   *)
(* ------------------------------------------------------------------ *)

Section GGroup.
Context {A : palg}.
Variable R : parith A.
Notation geq := (fun a b : P A => ple b a = true).

Lemma ggroups_nonempty : forall l p vs, ggroups R p vs l <> [].
Proof.
  induction l as [|[v q] r IH]; intros p vs; cbn [ggroups]; [discriminate|].
  destruct (a_eqb R q p); [apply IH|discriminate].
Qed.

Lemma ggroup_nonempty (l : list (TextFile.str * P A)) : l <> [] -> ggroup R l <> [].
Proof. destruct l as [|[v p] r]; [congruence|]. intros _. apply ggroups_nonempty. Qed.

Lemma ggroups_probs_in : forall l p vs g, In g (ggroups R p vs l) -> snd g = p \/ In (snd g) (map snd l).
Proof.
  induction l as [|[v q] r IH]; intros p vs g; cbn [ggroups].
  - intros [<-|[]]. now left.
  - destruct (a_eqb R q p).
    + intros H. destruct (IH _ _ _ H) as [H'|H']; [now left|right; now right].
    + intros [<-|H]; [now left|]. right. destruct (IH _ _ _ H) as [H'|H']; [left; now symmetry|now right].
Qed.

Lemma ggroup_probs_in (l : list (TextFile.str * P A)) g : In g (ggroup R l) -> In (snd g) (map snd l).
Proof.
  destruct l as [|[v p] r]; [intros []|]. cbn [ggroup]. intros H.
  destruct (ggroups_probs_in _ _ _ _ H) as [H'|H']; [left; now symmetry|now right].
Qed.

Lemma ggroups_sorted : forall l p vs,
  StronglySorted geq (p :: map snd l) -> StronglySorted geq (map snd (ggroups R p vs l)).
Proof.
  induction l as [|[v q] r IH]; intros p vs Hs; cbn [ggroups].
  - cbn. constructor; constructor.
  - inversion Hs as [|? ? Hs' Hf]; subst. cbn [map snd] in *.
    inversion Hs' as [|? ? Hs'' Hf']; subst. inversion Hf as [|? ? Hqp Hf'']; subst.
    destruct (a_eqb R q p).
    + apply IH. constructor; assumption.
    + cbn [map snd]. constructor; [apply IH; assumption|].
      apply Forall_forall. intros x Hx. apply in_map_iff in Hx. destruct Hx as (g & <- & Hg).
      destruct (ggroups_probs_in _ _ _ _ Hg) as [->|Hin]; [assumption|].
      rewrite Forall_forall in Hf''. now apply Hf''.
Qed.

Lemma ggroup_sorted (l : list (TextFile.str * P A)) :
  StronglySorted geq (map snd l) -> StronglySorted geq (map snd (ggroup R l)).
Proof. destruct l as [|[v p] r]; [intros _; constructor|]. apply ggroups_sorted. Qed.

Lemma sorted_desc (l : list (P A)) : StronglySorted geq l -> desc l.
Proof.
  induction 1 as [|a l Hs IH Hf]; [exact I|]. cbn [desc]. split; [|assumption].
  destruct l as [|b l]; [exact I|]. now inversion Hf.
Qed.

Lemma wf_groups_of_lines (l : list (TextFile.str * P A)) :
  l <> [] -> StronglySorted geq (map snd l) -> Forall (fun p => unitb p = true) (map snd l) ->
  wf_groups (map snd (ggroup R l)).
Proof.
  intros Hne Hs Hu. split; [|split].
  - intros H. apply map_eq_nil in H. now apply (ggroup_nonempty l Hne).
  - apply Forall_forall. intros x Hx. apply in_map_iff in Hx. destruct Hx as (g & <- & Hg).
    rewrite Forall_forall in Hu. apply Hu. now apply ggroup_probs_in.
  - apply sorted_desc. now apply ggroup_sorted.
Qed.
End GGroup.

(* ------------------------------------------------------------------ *)
(* exact rationals: the groups of one terminal file                    *)
(* ------------------------------------------------------------------ *)

Lemma count_str_le k l : count_str k l <= length l.
Proof.
  unfold count_str. induction l as [|a l IH]; cbn [filter length]; [lia|].
  destruct (TextFile.str_eqb k a); cbn [length]; lia.
Qed.

Lemma Qn_S n : (Qn (S n) == Qn n + 1)%Q.
Proof. unfold Qn. rewrite Nat2Z.inj_succ, <- Z.add_1_r, inject_Z_plus. reflexivity. Qed.

Lemma Qn_pos n : 0 < n -> (0 < Qn n)%Q.
Proof. intros H. unfold Qn. change 0%Q with (inject_Z 0). rewrite <- Zlt_Qlt. lia. Qed.

(* every line of a terminal file is a probability *)
Lemma tally_file_unit (items : list TextFile.str) : items <> [] ->
  forall v p, In (v, p) (calc_probs (@of_counts QNum (Counters.tally items))) -> (0 <= p /\ p <= 1)%Q.
Proof.
  intros Hne v p Hin. pose proof (tally_probability_Q items v p Hne Hin) as Hp.
  assert (Hlen : (0 < inject_Z (Z.of_nat (length items)))%Q).
  { destruct items as [|x r]; [congruence|]. change 0%Q with (inject_Z 0). rewrite <- Zlt_Qlt. cbn [length]. lia. }
  rewrite Hp. split.
  - apply Qle_shift_div_l; [assumption|]. rewrite Qmult_0_l. change 0%Q with (inject_Z 0). rewrite <- Zle_Qle. lia.
  - apply Qle_shift_div_r; [assumption|]. rewrite Qmult_1_l. rewrite <- Zle_Qle. pose proof (count_str_le v items). lia.
Qed.

Lemma groups_of_wf_Q : forall items, items <> [] ->
  @wf_groups QProb (map snd (groups_of RQ (Counters.tally items))).
Proof.
  intros items Hne. unfold groups_of.
  pose proof (each_once_sorted items Hne) as H. cbv zeta in H.
  destruct H as (_ & _ & _ & Hkeys & _ & Hsort & _).
  apply (wf_groups_of_lines RQ (calc_probs (@of_counts QNum (Counters.tally items)))).
  - destruct items as [|x r]; [congruence|]. intros Hnil.
    assert (Hx : In x (map fst (calc_probs (@of_counts QNum (Counters.tally (x :: r)))))) by (apply Hkeys; now left).
    rewrite Hnil in Hx. exact Hx.
  - eapply StronglySorted_map; [|exact Hsort]. intros a b Hab. cbn beta. now apply QProb_ple_iff.
  - apply Forall_forall. intros p Hp. apply in_map_iff in Hp. destruct Hp as ([v q] & <- & Hin). cbn [snd].
    apply QProb_unitb_iff. exact (tally_file_unit items Hne v q Hin).
Qed.

(* group probability times group size, summed = sum of the line probabilities *)
Lemma ggroups_mass : forall (l : list (TextFile.str * Q)) (p : Q) vs,
  (Qsum (map (fun g : list TextFile.str * Q => snd g * Qn (length (fst g))) (ggroups RQ p vs l))
   == p * Qn (length vs) + Qsum (map snd l))%Q.
Proof.
  induction l as [|[v q] r IH]; intros p vs; cbn [ggroups].
  - cbn [map Qsum fold_right fst snd]. rewrite rev_length. ring.
  - change (a_eqb RQ q p) with (Qeq_bool q p). destruct (Qeq_bool q p) eqn:Eq.
    + apply Qeq_bool_iff in Eq. rewrite IH. cbn [length map snd Qsum fold_right]. rewrite Qn_S, Eq. Show. Set Printing All. Show.
