#!/bin/sh
# Translator + equality proofs only (no oracle run): for every diff of this directory, applied to a scratch
# worktree of /repo, say whether the translator accepts the source and which lemma stops checking.
#   sh docs/tie_tests/T14/quick_probe.sh [name-prefix ...]
# Writes coq/gen/Writer*_gen.v of this worktree; restores them from /repo at the end.
V=${V:-$(cd "$(dirname "$0")/../../.." && pwd)}
SC=/tmp/sc_R14_probe
D=$V/docs/tie_tests/T14
FILES="gen/WriterStruct_gen.v theories/WriterGenProofsStruct.v gen/Writer_gen.v theories/WriterGenProofs.v gen/WriterConfig_gen.v theories/WriterGenProofsConfig.v"
git -C /repo worktree remove --force $SC >/dev/null 2>&1
git -C /repo worktree add --detach $SC HEAD >/dev/null 2>&1 || exit 1
probe() {
  cd $V
  res=""
  PCFG_REPO=$SC /venv/bin/python harness/translate_writer.py --write >/tmp/sc_R14_probe.log 2>&1 || \
    res="REFUSED: $(grep -o 'TranslateError.*' /tmp/sc_R14_probe.log | tail -1 | cut -c1-260); "
  cd $V/coq
  for f in $FILES; do
    [ -f $f ] || continue
    if grep -q "translation of the current sources FAILED" $f; then continue; fi
    if ! timeout 600 coqc -Q theories Pcfg -Q gen PcfgGen $f >/tmp/sc_R14_probe.log 2>&1; then
      line=$(grep -o 'line [0-9]*' /tmp/sc_R14_probe.log | head -1 | cut -d' ' -f2)
      lemma=$(head -n "${line:-1}" $f | grep -E '^(Lemma|Theorem|Definition|Example)' | tail -1 | cut -d' ' -f1-2)
      res="${res}PROOF FAILS: $f:$line ($lemma); "
    fi
  done
  [ -n "$res" ] && echo "$res" || echo "proofs check"
}
for diff in $D/*.diff; do
  name=$(basename $diff .diff)
  if [ $# -gt 0 ]; then ok=0; for p in "$@"; do case $name in $p*) ok=1;; esac; done; [ $ok = 1 ] || continue; fi
  git -C $SC checkout -q -- . && (cd $SC && patch -p1 --binary -s < $diff) || { echo "$name: patch failed"; continue; }
  echo "$name: $(probe)"
done
git -C /repo worktree remove --force $SC
cd $V && /venv/bin/python harness/translate_writer.py --write >/dev/null && cd coq && \
  for f in $FILES; do [ -f $f ] && timeout 600 coqc -Q theories Pcfg -Q gen PcfgGen $f >/dev/null 2>&1; done
