#!/bin/sh
# The tie tests through the real driver: every diff of this directory is applied to a scratch worktree of
# /repo and the quick check of the properties it concerns is run against it (PCFG_REPO); the last line of
# each run goes to RESULTS.txt.  m* must end in VIOLATION, h* in OK.  About 30 s per run.
#   sh docs/tie_tests/T14/run_all.sh [name-prefix ...]
V=${V:-$(cd "$(dirname "$0")/../../.." && pwd)}
SC=/tmp/sc_R14_all
OUT=/tmp/sc_R14_out
D=$V/docs/tie_tests/T14
props_of() {
  case $1 in
    m01*|m05*|m09*|m10*|m12*|m15*|m21*|m23*|h7*) echo "C06 C07";;
    m06*|m17*|m18*|m19*|m20*|h2*|h5*) echo "C07";;
    *) echo "C06";;
  esac
}
git -C /repo worktree remove --force $SC >/dev/null 2>&1
git -C /repo worktree add --detach $SC HEAD >/dev/null 2>&1 || exit 1
RES=$D/RESULTS.txt
[ $# -eq 0 ] && : > $RES
for diff in $D/*.diff; do
  name=$(basename $diff .diff)
  if [ $# -gt 0 ]; then ok=0; for p in "$@"; do case $name in $p*) ok=1;; esac; done; [ $ok = 1 ] || continue; fi
  git -C $SC checkout -q -- . && (cd $SC && patch -p1 --binary -s < $diff) || { echo "$name: patch failed" | tee -a $RES; continue; }
  for prop in $(props_of $name); do
    cd $V && rm -rf $OUT && PCFG_REPO=$SC PCFG_OUT=$OUT ./check $prop --tier quick > /tmp/sc_R14_run.log 2>&1
    last=$(tail -1 /tmp/sc_R14_run.log)
    why=$(grep -m1 -E "^VIOLATION|KNOWN" /tmp/sc_R14_run.log | cut -c1-160)
    det=$(grep -m1 -E "no longer checks|what:" /tmp/sc_R14_run.log | cut -c1-300)
    echo "$name [$prop]: $last | $why | $det" | tee -a $RES
  done
done
git -C /repo worktree remove --force $SC
rm -rf $OUT
cd $V && ./check C06 --tier quick | tail -1 && ./check C07 --tier quick | tail -1
