#!/venv/bin/python
"""Writes the mutation / harmless-edit diffs of this directory from (file, old text, new text) triples
against the current /repo HEAD (so that they keep applying when /repo moves by unrelated commits).
   /venv/bin/python docs/tie_tests/T14/make_diffs.py
m* = semantic mutations (the check must report VIOLATION), h* = harmless edits (must stay quiet);
h1 / h2 are copies of /verif/seeded/harmless/H2-2 and H4-1, h7 of the second-round refactoring H5/harmless_2."""
import difflib
import os
import subprocess

HERE = os.path.dirname(os.path.abspath(__file__))
SAVE, BASE, PRINCE, PARSER, RUN, CONF = ("lib_trainer/save_pcfg_data.py", "lib_trainer/base_structure.py",
                                         "lib_trainer/prince_metrics.py", "lib_trainer/pcfg_password_parser.py",
                                         "lib_trainer/run_trainer.py", "lib_trainer/config_file.py")
EDITS = {
    # ---------------- semantic mutations
    "m01_early_return_before_cleanup": [(SAVE, """    try:
        for root, dirs, files in os.walk(folder):""", """    if not counter_list:
        return True

    try:
        for root, dirs, files in os.walk(folder):""")],
    "m02_W_supported_when_not_last": [(BASE, """    for section in section_list:
""", """    for index, section in enumerate(section_list):
"""), (BASE, """        if section[1][0] in ['W','E']:
            is_supported = False
""", """        first = section[1][0]
        if first == 'E' or (first == 'W' and index + 1 == len(section_list)):
            is_supported = False
""")],
    "m03_pseudo_count_from_supported_count": [(RUN, """            markov_instances = (num_valid_passwords / program_info['coverage']) - num_valid_passwords
""", """            num_supported = len(pcfg_parser.count_base_structures)
            markov_instances = (num_supported / program_info['coverage']) - num_supported
""")],
    "m04_isclose_on_coverage": [(RUN, """    if program_info['coverage'] != 1:
""", """    if abs(program_info['coverage'] - 1) > 1e-9:
""")],
    "m05_file_name_from_wrong_index": [(SAVE, """        filename = os.path.join(folder, str(index) + ".txt")
""", """        filename = os.path.join(folder, str(len(item)) + ".txt")
""")],
    "m07_coverage_zero_test_flipped": [(RUN, """        if program_info['coverage'] == 0:
""", """        if program_info['coverage'] != 0:
""")],
    "m08_dropped_clear": [(RUN, """            pcfg_parser.count_base_structures.clear()
""", "")],
    "m09_separator_space": [(SAVE, """str(item[0]) + '\\t' + str(item[1])+'\\n'""", """str(item[0]) + ' ' + str(item[1])+'\\n'""")],
    "m10_grammar_in_training_encoding": [(SAVE, """    if not save_indexed_counters(folder, grammar_grouping, 'ASCII'):
""", """    if not save_indexed_counters(folder, grammar_grouping, encoding):
""")],
    "m11_raw_counted_only_if_supported": [(PARSER, """        if is_supported:
            self.count_base_structures[base_structure] += 1

        self.count_raw_base_structures[base_structure] += 1
""", """        if is_supported:
            self.count_base_structures[base_structure] += 1
            self.count_raw_base_structures[base_structure] += 1
""")],
    "m12_unlink_in_folder_not_root": [(SAVE, """                os.unlink(os.path.join(root, filename))
""", """                os.unlink(os.path.join(folder, filename))
""")],
    "m13_pseudo_count_off_by_one": [(RUN, """            markov_instances = (num_valid_passwords / program_info['coverage']) - num_valid_passwords
""", """            markov_instances = (num_valid_passwords / program_info['coverage']) - num_valid_passwords + 1
""")],
    "m14_prince_counts_text_not_label": [(PRINCE, """        count_prince[item[1]] += 1
""", """        count_prince[item[0]] += 1
""")],
    "m15_cleanup_dropped": [(SAVE, """            for filename in files:
                os.unlink(os.path.join(root, filename))
""", """            for filename in files:
                pass
""")],
    "m16_sensitive_emails_always_saved": [(SAVE, """    if save_sensitive:
        email_grouping['full_emails'] = pcfg_parser.count_emails
""", """    email_grouping['full_emails'] = pcfg_parser.count_emails
""")],
    "m06_config_list_of_wrong_counter": [(CONF, """    add_digits(config,create_filename_list(pcfg_parser.count_digits))
""", """    add_digits(config,create_filename_list(pcfg_parser.count_alpha))
""")],
    "m17_years_list_names_other_file": [(CONF, """        "Years to replace with"
        )
    config.set(section, "file_type", "Flat")
    config.set(section, "inject_type", "Copy")
    config.set(section, "is_terminal", str(True))
    config.set(section, "filenames", json.dumps(["1.txt"]))
""", """        "Years to replace with"
        )
    config.set(section, "file_type", "Flat")
    config.set(section, "inject_type", "Copy")
    config.set(section, "is_terminal", str(True))
    config.set(section, "filenames", json.dumps(["years.txt"]))
""")],
    "m18_filename_list_without_extension": [(CONF, """        filenames[i] = str(name) + ".txt"
""", """        filenames[i] = str(name)
""")],
    "m19_digits_directory_wrong": [(CONF, """    config.set(section, "directory", "Digits")
""", """    config.set(section, "directory", "Digit")
""")],
    "m20_config_list_skips_first_file": [(CONF, """    for i, name in enumerate(filenames):
        filenames[i] = str(name) + ".txt"

    return filenames
""", """    for i, name in enumerate(filenames):
        filenames[i] = str(name) + ".txt"

    return filenames[1:]
""")],
    "m21_table_loop_pairs_folder_with_wrong_counter": [(SAVE, """    folder = os.path.join(base_directory, "Alpha")

    if not save_indexed_counters(folder, pcfg_parser.count_alpha, encoding):
        return False

    ## Save Capitalization Masks
    #
    folder = os.path.join(base_directory, "Capitalization")

    if not save_indexed_counters(folder, pcfg_parser.count_alpha_masks, encoding):
        return False

    ## Save Digits
    #
    folder = os.path.join(base_directory, "Digits")

    if not save_indexed_counters(folder, pcfg_parser.count_digits, encoding):
        return False

    ## Save Other
    #
    folder = os.path.join(base_directory, "Other")

    if not save_indexed_counters(folder, pcfg_parser.count_other, encoding):
        return False
""", """    length_indexed = [
        ("Alpha", pcfg_parser.count_alpha),
        ("Capitalization", pcfg_parser.count_alpha_masks),
        ("Digits", pcfg_parser.count_other),
        ("Other", pcfg_parser.count_digits),
    ]
    for folder_name, counter_list in length_indexed:
        folder = os.path.join(base_directory, folder_name)

        if not save_indexed_counters(folder, counter_list, encoding):
            return False
""")],
    "m22_counter_store_adds_two": [(PRINCE, """        count_prince[item[1]] += 1
""", """        count_prince[item[1]] = count_prince[item[1]] + 2
""")],
    "m23_table_loop_returns_after_first_folder": [(SAVE, """    folder = os.path.join(base_directory, "Alpha")

    if not save_indexed_counters(folder, pcfg_parser.count_alpha, encoding):
        return False

    ## Save Capitalization Masks
    #
    folder = os.path.join(base_directory, "Capitalization")

    if not save_indexed_counters(folder, pcfg_parser.count_alpha_masks, encoding):
        return False
""", """    for folder_name, counter_list in [("Alpha", pcfg_parser.count_alpha), ("Capitalization", pcfg_parser.count_alpha_masks)]:
        folder = os.path.join(base_directory, folder_name)

        if save_indexed_counters(folder, counter_list, encoding):
            return True
""")],
    # ---------------- harmless edits
    "h6_write_via_local_line": [(SAVE, """            for item in prob_list:
                datafile.write(str(item[0]) + '\\t' + str(item[1])+'\\n')
""", """            for item in prob_list:
                line = str(item[0]) + '\\t' + str(item[1])
                line += '\\n'
                datafile.write(line)
""")],
    "h5_config_comprehension_reordered": [(CONF, """    # Get the counter keys as a list
    filenames = list(input_dictionary)

    # Add the .txt at the end
    for i, name in enumerate(filenames):
        filenames[i] = str(name) + ".txt"

    return filenames
""", """    # The counter keys with .txt at the end
    return [f"{key}.txt" for key in input_dictionary]
"""), (CONF, """    add_digits(config,create_filename_list(pcfg_parser.count_digits))

    add_other(config,create_filename_list(pcfg_parser.count_other))
""", """    other_files = create_filename_list(pcfg_parser.count_other)
    add_other(config, other_files)

    add_digits(config, create_filename_list(pcfg_parser.count_digits))
"""), (CONF, """    section = "BASE_Y"
    config.add_section(section)

    config.set(section, "name", "Y")
    config.set(section, "function", "Copy")
    config.set(section, "directory", "Years")
    config.set(
        section,
        "comments",
        "Years to replace with"
        )
""", """    sec = "BASE_Y"
    config.add_section(sec)

    config.set(sec, "name", "Y")
    config.set(sec, "function", "Copy")
    config.set(sec, "directory", "Years")
    config.set(sec, "comments", "Years to replace with (reworded)")
    section = sec
""")],
    "h3_comments_docstrings_locals": [(BASE, """    # Saving this as a list and will join it at the end
    base_structure = []
""", """    # collected here, joined at the end (comment changed)
    base_structure = []
"""), (BASE, """    for section in section_list:
""", """    for sec in section_list:
"""), (BASE, """        if section[1] is None:""", """        if sec[1] is None:"""),
          (BASE, """        if section[1][0] in ['W','E']:""", """        if sec[1][0] in ['E', 'W']:"""),
          (BASE, """        base_structure.append(section[1])""", """        base_structure.append(sec[1])"""),
          (PRINCE, """    for item in section_list:
        count_prince[item[1]] += 1
""", """    for _text, label in section_list:
        count_prince[label] += 1
"""),
          (SAVE, """    Saves data for an individual Python Counter of pcfg data
""", """    Saves the data of one Python Counter of pcfg data (docstring changed)
""")],
    "h4_parse_tail_and_markov_reformatted": [(PARSER, """        if is_supported:
            self.count_base_structures[base_structure] += 1

        self.count_raw_base_structures[base_structure] += 1
""", """        self.count_raw_base_structures[base_structure] += 1
        if not is_supported:
            pass
        else:
            self.count_base_structures[base_structure] += 1
"""), (RUN, """            markov_instances = (num_valid_passwords / program_info['coverage']) - num_valid_passwords
            pcfg_parser.count_base_structures['M'] = markov_instances
""", """            total = num_valid_passwords
            pcfg_parser.count_base_structures['M'] = total / program_info['coverage'] - total
""")],
}


def git_show(rel):
    return subprocess.run(["git", "-C", "/repo", "show", "HEAD:" + rel], capture_output=True, check=True).stdout.decode("utf-8")


def main():
    for name, edits in EDITS.items():
        texts = {}
        for rel, old, new in edits:
            cur = texts.get(rel) or git_show(rel)
            if "\r\n" in cur:       # the sources have CRLF line ends
                old, new = old.replace("\n", "\r\n"), new.replace("\n", "\r\n")
            if cur.count(old) != 1:
                raise SystemExit("%s: %r occurs %d times in %s" % (name, old[:50], cur.count(old), rel))
            texts[rel] = cur.replace(old, new)
        out = ""
        for rel, new in texts.items():
            a = git_show(rel).splitlines(keepends=True)
            b = new.splitlines(keepends=True)
            out += "".join(difflib.unified_diff(a, b, "a/" + rel, "b/" + rel))
        with open(os.path.join(HERE, name + ".diff"), "w", newline="") as f:
            f.write(out)
        print(name)


if __name__ == "__main__":
    main()
