#!/bin/sh
# Fast probe of the translator tie alone (no property check): patch a scratch copy of /repo, translate
# the kernel from it and compile gen/Kernel_gen.v + theories/KernelGenProofs.v in a private copy of the
# Coq tree.  Prints whether the translator accepts the source and which equality no longer checks.
#   docs/tie_tests/T12/quick_probe.sh <name> <patch>[,<patch applied on top>] | -
HERE="$(cd "$(dirname "$0")" && pwd)"
ROOT="$(cd "$HERE/../../.." && pwd)"
n="$1"; ds="$2"
W=/tmp/sc_T12_pw_$n
Q=/tmp/sc_T12_pq_$n
cd "$ROOT"
rm -rf "$Q"; git -C /repo worktree remove --force "$W" >/dev/null 2>&1
git -C /repo worktree add --detach "$W" HEAD >/dev/null 2>&1 || { echo "== $n: cannot create the scratch copy"; exit 1; }
if [ "$ds" != "-" ]; then
  for d in $(echo "$ds" | tr ',' ' '); do
    case "$d" in /*) ;; *) d="$HERE/$d";; esac
    (cd "$W" && git apply --whitespace=nowarn "$d") || { echo "== $n: patch $d failed"; git -C /repo worktree remove --force "$W"; exit 1; }
  done
fi
mkdir -p "$Q" && cp -a coq/theories coq/gen "$Q"/
F="-Q theories Pcfg -Q gen PcfgGen"
if PCFG_REPO="$W" /venv/bin/python harness/translate_kernel.py > "$Q/gen/Kernel_gen.v" 2> "$Q/err.txt"; then
  if (cd "$Q" && timeout 300 coqc $F gen/Kernel_gen.v > log.txt 2>&1 && timeout 600 coqc $F theories/KernelGenProofs.v >> log.txt 2>&1); then
    echo "== $n: translated, all equalities of KernelGenProofs.v check"
  else
    ln=$(grep -o 'line [0-9]*' "$Q/log.txt" | head -1 | cut -d' ' -f2)
    f=$(grep -o 'File "[^"]*"' "$Q/log.txt" | head -1)
    th=$(head -n "${ln:-1}" "$Q/theories/KernelGenProofs.v" | grep -E '^(Theorem|Lemma|Example)' | tail -1 | cut -d' ' -f2)
    echo "== $n: translated, but $f line $ln does not check (in $th)"
  fi
else
  echo "== $n: translator refused: $(tail -1 "$Q/err.txt" | cut -c1-300)"
fi
git -C /repo worktree remove --force "$W"
rm -rf "$Q"
