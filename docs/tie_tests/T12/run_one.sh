#!/bin/sh
# Tie test of one change: patch a scratch copy of /repo, run the quick checks of the given
# properties against it (PCFG_REPO) in a private copy of the Coq tree (PCFG_COQ, so that several
# tests can run side by side and the worktree's coq/gen is not overwritten), print the verdicts.
#   docs/tie_tests/T12/run_one.sh <name> <patch>[,<patch applied on top>] <property> [<property> ...]
# (a patch name without a directory is taken from this directory; "-" = the unchanged tree)
HERE="$(cd "$(dirname "$0")" && pwd)"
ROOT="$(cd "$HERE/../../.." && pwd)"
n="$1"; d="$2"; shift 2
W=/tmp/sc_T12_w_$n
O=/tmp/sc_T12_o_$n
Q=/tmp/sc_T12_q_$n
cd "$ROOT"
rm -rf "$O" "$Q"
git -C /repo worktree remove --force "$W" >/dev/null 2>&1
git -C /repo worktree add --detach "$W" HEAD >/dev/null 2>&1 || { echo "== $n: cannot create the scratch copy"; exit 1; }
if [ "$d" != "-" ]; then
  for x in $(echo "$d" | tr ',' ' '); do
    case "$x" in /*) ;; *) x="$HERE/$x";; esac
    (cd "$W" && git apply --whitespace=nowarn "$x") || { echo "== $n: patch $x failed"; git -C /repo worktree remove --force "$W"; exit 1; }
  done
fi
cp -a coq "$Q"
for c in "$@"; do
  out=$(PCFG_REPO="$W" PCFG_OUT="$O" PCFG_COQ="$Q" ./check $c --tier quick 2>&1 | grep -v conda)
  echo "== $n $c: $(echo "$out" | tail -1)"
  echo "$out" | grep -A2 "^VIOLATION" | head -6 | sed 's/^/     /' | cut -c1-400
done
git -C /repo worktree remove --force "$W"
rm -rf "$O" "$Q"
