#!/bin/sh
# All tie tests of T12 (each in its own scratch copy of /repo and its own private copy of the Coq
# tree, 4 at a time); verdict lines go to RESULTS.raw.txt in this directory.
#   docs/tie_tests/T12/run_all.sh [harmless|mutations|seeded|all]
HERE="$(cd "$(dirname "$0")" && pwd)"
S=/verif/seeded
what="${1:-all}"
jobs=""
add() { jobs="$jobs$1|$2|$3
"; }
if [ "$what" = harmless ] || [ "$what" = all ]; then
  add H0-1 H0-1_seeded_harmless.diff "C01 C02 C08 C17"
  add H0-2 H0-2_seeded_harmless.diff "C01 C02 C08 C17"
  add H0-3 H0-3_seeded_harmless.diff "C01 C02 C08 C17"
  add H4 H4_handmade_unpacking_copies_negations_range_len.diff "C01 C02 C08 C17"
  add H5 H5_handmade_comments_docstrings_renamed_locals_layout.diff "C01 C02 C08 C17"
  add H6 H6_handmade_helper_in_expressions_merged_tests_row_local.diff "C01 C02 C08 C17"
fi
if [ "$what" = mutations ] || [ "$what" = all ]; then
  add M1 M1_child_index_off_by_one.diff "C02"
  add M2 M2_restore_range_off_by_one.diff "C08"
  add M3 M3_my_child_flipped_comparison.diff "C01 C02 C17"
  add M4 H0-2_seeded_harmless.diff,M4_on_H0-2_helper_called_with_wrong_step.diff "C02"
  add M5 H0-2_seeded_harmless.diff,M5_on_H0-2_merged_guard_or_to_and.diff "C02"
  add M6 H0-3_seeded_harmless.diff,M6_on_H0-3_positive_guard_gt_1.diff "C08"
  add M7 H0-1_seeded_harmless.diff,M7_on_H0-1_prob_without_product.diff "C01 C02"
  add M8 H0-2_seeded_harmless.diff,M8_on_H0-2_helper_without_copy.diff "C02"
  add M9 H0-3_seeded_harmless.diff,M9_on_H0-3_parent_test_ge_to_gt.diff "C08"
  add M10 H0-1_seeded_harmless.diff,M10_on_H0-1_find_prob_skips_first.diff "C01"
fi
if [ "$what" = seeded ] || [ "$what" = all ]; then
  for s in C01-1 C02-1 C02-2 C02-4 C02-6 C08-1 C08-4 C17-2 C17-4 C17-6 C03-6; do
    add "S$s" $S/$s/patch.diff "$(echo $s | cut -d- -f1)"
  done
fi
printf "%s" "$jobs" | xargs -P 4 -I{} sh -c 'IFS="|"; set -- $1; n=$1; d=$2; p=$3; IFS=" "; "$0"/run_one.sh "$n" "$d" $p > /tmp/sc_T12_r_$n.txt 2>&1' "$HERE" {}
printf "%s" "$jobs" | while IFS="|" read n d p; do cat /tmp/sc_T12_r_$n.txt; rm -f /tmp/sc_T12_r_$n.txt; done | grep -v conda > "$HERE/RESULTS.raw.txt"
cat "$HERE/RESULTS.raw.txt"
