#!/bin/sh
# The tie tests through the real driver: every diff of this directory is applied to a scratch worktree of
# /repo and the quick check of the properties it concerns is run against it (PCFG_REPO); the last line of
# each run goes to RESULTS.txt.  m* must end in VIOLATION, h* in OK.  About 45 s per run.
#   sh docs/tie_tests/T18/run_all.sh [name-prefix ...]
V=${V:-/tmp/vb_R18}
SC=/tmp/sc_R18_all
OUT=/tmp/sc_R18_out
D=$V/docs/tie_tests/T18
props_of() {
  case $1 in
    m01*|m06*|m09*|m10*|m13*) echo "C19";;
    m02*|m03*|m05*|m08*) echo "C06";;
    m04*) echo "C05 C19";;
    m07*|m11*|m12*) echo "C05";;
    h*) echo "C19 C06 C05 C03";;
    *) echo "C06";;
  esac
}
git -C /repo worktree remove --force $SC >/dev/null 2>&1
git -C /repo worktree add --detach $SC HEAD >/dev/null 2>&1 || exit 1
RES=$D/RESULTS.txt
[ $# -eq 0 ] && : > $RES
for diff in $D/*.diff; do
  name=$(basename $diff .diff)
  if [ $# -gt 0 ]; then ok=0; for p in "$@"; do case $name in $p*) ok=1;; esac; done; [ $ok = 1 ] || continue; fi
  git -C $SC checkout -q -- . && (cd $SC && patch -p1 --binary -s < $diff) || { echo "$name: patch failed" | tee -a $RES; continue; }
  for prop in $(props_of $name); do
    cd $V && rm -rf $OUT && PCFG_REPO=$SC PCFG_OUT=$OUT ./check $prop --tier quick > /tmp/sc_R18_run.log 2>&1
    last=$(tail -1 /tmp/sc_R18_run.log)
    why=$(grep -m1 -E "^VIOLATION" /tmp/sc_R18_run.log | cut -c1-200)
    det=$(grep -o -m1 -E "no longer equals the model: [^:]*|refuses the current source[^\[]*|what: .*" /tmp/sc_R18_run.log | head -1 | cut -c1-260)
    echo "$name [$prop]: $last | $why | $det" | tee -a $RES
  done
done
git -C /repo worktree remove --force $SC
rm -rf $OUT
cd $V && for p in C19 C06 C05 C03; do ./check $p --tier quick | tail -1; done
