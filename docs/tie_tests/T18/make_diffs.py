#!/venv/bin/python
"""Writes the mutation / harmless-edit diffs of this directory from (file, old text, new text) triples
against the current /repo HEAD (so that they keep applying when /repo moves by unrelated commits).
   /venv/bin/python docs/tie_tests/T18/make_diffs.py
m* = semantic mutations of the trainer's orchestration (the check must report VIOLATION), h* = harmless edits
(must stay quiet); m03 is /tmp/mut_out/C06/mutation_7.diff (seeded round 3), m10 is /tmp/mut_out/C19/mutation_4.diff."""
import difflib
import os
import subprocess

HERE = os.path.dirname(os.path.abspath(__file__))
RUN, STATS, MAIN = "lib_trainer/run_trainer.py", "lib_trainer/print_statistics.py", "trainer.py"

PASS3_OPEN = """    # Perform third loop through training data
    # Re-Initialize the file input to read passwords from
    file_input = TrainerFileInput(
                    program_info['training_file'], 
                    program_info['encoding'],
                    program_info['prefixcount'])
"""
PASS2_OPEN = """    # Perform second loop through training data

    # Re-Initialize the file input to read passwords from
    file_input = TrainerFileInput(
                    program_info['training_file'], 
                    program_info['encoding'],
                    program_info['prefixcount'])
"""
PASS2_LOOP = """        for password in file_input.read_password():
        
            # Print status indicator if needed
            num_parsed_so_far += 1
            if num_parsed_so_far % 1000000 == 0:
                print(str(num_parsed_so_far//1000000) +' Million')
                
            # Parse OMEN info
            omen_trainer.parse(password)
            
            # Parse the pcfg info
            pcfg_parser.parse(password)
"""

FIRST_OPEN = """    # Initialize the file input to read passwords from
    file_input = TrainerFileInput(
                    program_info['training_file'],
                    program_info['encoding'],
                    program_info['prefixcount'])
"""
HELPER_H = """    # Every pass has to read the training file in exactly the same way, so
    # how it gets opened is spelled out once
    def open_training():
        return TrainerFileInput(
                    program_info['training_file'],
                    program_info['encoding'],
                    program_info['prefixcount'])

    # Initialize the file input to read passwords from
    file_input = open_training()
"""
HELPER_M = """    # Every pass has to read its input in exactly the same way, so how the
    # input files get opened is spelled out once
    def open_input(filename):
        return TrainerFileInput(
                    filename,
                    program_info['encoding'],
                    program_info['prefixcount'])

    # Initialize the file input to read passwords from
    file_input = open_input(program_info['training_file'])
"""
MW_OLD = """        multiword_input = TrainerFileInput(
            program_info['multiword'],
            program_info['encoding']
        )
"""

EDITS = {
    # ---------------- semantic mutations
    "m01_pass3_reopened_with_default_encoding": [(RUN, PASS3_OPEN, """    # Perform third loop through training data
    # Re-Initialize the file input to read passwords from
    file_input = TrainerFileInput(
                    program_info['training_file'],
                    prefixcount = program_info['prefixcount'])
""")],
    "m02_raw_structures_dropped_between_passes": [(RUN, """    omen_keyspace = calc_omen_keyspace(omen_trainer)
""", """    omen_keyspace = calc_omen_keyspace(omen_trainer)

    # The raw base structures are only kept for debugging, free the memory
    # before the third pass over the training data
    pcfg_parser.count_raw_base_structures.clear()
""")],
    "m03_print_statistics_aliases_and_updates_a_counter": [(STATS, """    print()
    print("-------------------------------------------------")
    print("Top 10 Years found")
""", """    # E-mail providers and website hosts are both just domains. When trying to
    # work out where a dataset came from it is the combined ranking that is the
    # most useful, (the site a list was taken from tends to show up as both)
    print()
    print("-------------------------------------------------")
    print("Top 5 domains overall (e-mail providers + URLs)")
    print("-------------------------------------------------")
    print()
    domains = pcfg_parser.count_email_providers
    domains.update(pcfg_parser.count_website_hosts)
    top5 = domains.most_common(5)
    for item in top5:
        print(item[0] + " : " + str(item[1]))

    print()
    print("-------------------------------------------------")
    print("Top 10 Years found")
""")],
    "m04_duplicates_skipped_in_pass2_only": [(RUN, """    # Loop until we hit the end of the file
    try:
""" + PASS2_LOOP, """    # Passwords that were already parsed, (no need to parse them twice)
    already_parsed = set()

    # Loop until we hit the end of the file
    try:
        for password in file_input.read_password():
        
            # Print status indicator if needed
            num_parsed_so_far += 1
            if num_parsed_so_far % 1000000 == 0:
                print(str(num_parsed_so_far//1000000) +' Million')

            if password in already_parsed:
                continue
            already_parsed.add(password)
                
            # Parse OMEN info
            omen_trainer.parse(password)
            
            # Parse the pcfg info
            pcfg_parser.parse(password)
""")],
    "m05_coverage_zero_refused": [(MAIN, """    if program_info['coverage'] < 0 or program_info['coverage'] > 1.0:
""", """    if program_info['coverage'] <= 0 or program_info['coverage'] > 1.0:
""")],
    "m06_pass2_without_prefixcount": [(RUN, PASS2_OPEN, """    # Perform second loop through training data

    # Re-Initialize the file input to read passwords from
    file_input = TrainerFileInput(
                    program_info['training_file'], 
                    program_info['encoding'])
""")],
    "m07_pass1_sets_the_detector_threshold": [(RUN, """            # Train multiword detector
            multiword_detector.train(password)
""", """            # Train multiword detector
            multiword_detector.train(password, set_threshold=True)
""")],
    "m08_ngram_choices_off_by_one": [(MAIN, """        choices = range(2,6)
""", """        choices = range(2,5)
""")],
    "m09_exception_in_pass2_saved_anyway": [(RUN, """    except Exception as msg:
        traceback.print_exc(file=sys.stdout)
        print("Exception: " + str(msg))
        print("Exiting...")
        return
        
    print()    
    print("-------------------------------------------------")  
    print("Calculating Markov (OMEN) probabilities and keyspace")
""", """    except Exception as msg:
        traceback.print_exc(file=sys.stdout)
        print("Exception: " + str(msg))
        print("Continuing with what was parsed so far")
        
    print()    
    print("-------------------------------------------------")  
    print("Calculating Markov (OMEN) probabilities and keyspace")
""")],
    "m10_helper_opens_the_multiword_list_with_prefixcount": [(RUN, FIRST_OPEN, HELPER_M),
        (RUN, PASS2_OPEN, PASS2_OPEN.split("    file_input")[0] + "    file_input = open_input(program_info['training_file'])\n"),
        (RUN, PASS3_OPEN, PASS3_OPEN.split("    file_input")[0] + "    file_input = open_input(program_info['training_file'])\n"),
        (RUN, MW_OLD, "        multiword_input = open_input(program_info['multiword'])\n")],
    # ---------------- mutations in the idioms accepted since the second round of harmless refactorings (R18)
    "m11_enumerate_index_stops_pass2_early": [(RUN, PASS2_LOOP, """        for num_parsed_so_far, password in enumerate(file_input.read_password(), start=1):

            # Only the first million passwords are worth parsing
            if num_parsed_so_far > 1000000:
                continue

            # Parse OMEN info
            omen_trainer.parse(password)
            
            # Parse the pcfg info
            pcfg_parser.parse(password)
""")],
    "m12_status_helper_also_trains": [(RUN, """def run_trainer(program_info, base_directory):
""", """def _print_status(num_parsed_so_far, detector, password):
    if num_parsed_so_far % 1000000 == 0:
        print(f"{num_parsed_so_far // 1000000} Million")
    detector.train(password)


def run_trainer(program_info, base_directory):
"""), (RUN, PASS2_LOOP, PASS2_LOOP.replace("""            num_parsed_so_far += 1
            if num_parsed_so_far % 1000000 == 0:
                print(str(num_parsed_so_far//1000000) +' Million')
""", """            num_parsed_so_far += 1
            _print_status(num_parsed_so_far, multiword_detector, password)
"""))],
    "m13_open_helper_drops_prefixcount": [(RUN, """def run_trainer(program_info, base_directory):
""", """def _open_training_file(program_info):
    return TrainerFileInput(
        program_info['training_file'],
        program_info['encoding'])


def run_trainer(program_info, base_directory):
"""), (RUN, PASS2_OPEN, PASS2_OPEN.split("    file_input")[0] + "    file_input = _open_training_file(program_info)\n")],
    "m14_range_check_on_args_lower_bound_strict": [(MAIN, """    if program_info['coverage'] < 0 or program_info['coverage'] > 1.0:
""", """    if args.coverage <= 0 or args.coverage > 1.0:
""")],
    # ---------------- harmless edits
    "h1_comments_docstrings_print_texts": [(RUN, """    # Perform the first pass of the training list
""", """    # First pass over the training list (comment reworded)
"""), (RUN, """    print("Performing the first pass on the training passwords")
""", """    print("Performing pass 1 of 3 on the training passwords")
"""), (RUN, """        True: If the operations completed sucessfully
""", """        True: If the operations completed successfully (docstring fixed)
"""), (STATS, """    print("Top 5 e-mail providers")
""", """    print("Top five e-mail providers")
"""), (MAIN, """        help = 'Name of generated ruleset. Default is ' +
""", """        help = 'Name of the ruleset to generate. Default is ' +
""")],
    "h2_locals_renamed": [(RUN, PASS2_LOOP, PASS2_LOOP.replace("for password in", "for pw in").replace("(password)", "(pw)")),
                          (RUN, """    ag = AlphabetGenerator(program_info['alphabet_size'], program_info['ngram'])
""", """    alphabet_gen = AlphabetGenerator(program_info['alphabet_size'], program_info['ngram'])
"""), (RUN, """            ag.process_password(password)
""", """            alphabet_gen.process_password(password)
"""), (RUN, """    program_info['alphabet'] = ag.get_alphabet()
""", """    program_info['alphabet'] = alphabet_gen.get_alphabet()
"""), (RUN, """    except Exception as msg:
        print(f"Exception: {msg}")
        return False
""", """    except Exception as err:
        print(f"Exception: {err}")
        return False
"""), (STATS, """    top10 = pcfg_parser.count_years.most_common(10)
    for item in top10:
        print(item[0] + " : " + str(item[1]))""", """    top_years = pcfg_parser.count_years.most_common(10)
    for year, count in top_years:
        print(year + " : " + str(count))""")],
    "h3_reformatted_calls_and_tests": [(RUN, """    multiword_detector = MultiWordDetector(
                            threshold = 5,
                            min_len = 4,
                            max_len = 21)
""", """    multiword_detector = MultiWordDetector(5, min_len=4, max_len=21)
"""), (RUN, PASS3_OPEN, """    # Perform third loop through training data
    # Re-Initialize the file input to read passwords from
    file_input = TrainerFileInput(filename = program_info['training_file'],
                                  prefixcount = program_info['prefixcount'],
                                  encoding = program_info['encoding'])
"""), (RUN, """    if num_valid_passwords == 0:
""", """    if 0 == num_valid_passwords:
"""), (RUN, """    omen_keyspace = calc_omen_keyspace(omen_trainer)
""", """    omen_keyspace = calc_omen_keyspace(omen_trainer, max_level = 18)
"""), (MAIN, """    if program_info['coverage'] < 0 or program_info['coverage'] > 1.0:
""", """    if 0.0 > program_info['coverage'] or 1 < program_info['coverage']:
""")],
    "h4_progress_counter_of_pass3_removed": [(RUN, """    try:
        for password in file_input.read_password():
        
            # Print status indicator if needed
            num_parsed_so_far += 1
            if num_parsed_so_far % 1000000 == 0:
                print(str(num_parsed_so_far//1000000) +' Million')
                
            # Find OMEN level of password
""", """    try:
        for password in file_input.read_password():

            # Find OMEN level of password
""")],
    "h5_training_file_opened_by_a_helper": [(RUN, FIRST_OPEN, HELPER_H),
        (RUN, PASS2_OPEN, PASS2_OPEN.split("    file_input")[0] + "    file_input = open_training()\n"),
        (RUN, PASS3_OPEN, PASS3_OPEN.split("    file_input")[0] + "    file_input = open_training()\n")],
    "h6_H5-4_refactoring": "/tmp/mut_out/H5/harmless_4.diff",
}


def git_show(rel):
    return subprocess.run(["git", "-C", "/repo", "show", "HEAD:" + rel], capture_output=True, check=True).stdout.decode("utf-8")


def main():
    for name, edits in EDITS.items():
        if isinstance(edits, str):       # a diff kept as it was written
            with open(edits, newline="") as f, open(os.path.join(HERE, name + ".diff"), "w", newline="") as g:
                g.write(f.read())
            print(name)
            continue
        texts = {}
        for rel, old, new in edits:
            cur = texts.get(rel) or git_show(rel)
            if "\r\n" in cur:       # the sources have CRLF line ends
                old, new = old.replace("\n", "\r\n"), new.replace("\n", "\r\n")
            if cur.count(old) != 1:
                raise SystemExit("%s: %r occurs %d times in %s" % (name, old[:60], cur.count(old), rel))
            texts[rel] = cur.replace(old, new)
        out = ""
        for rel, new in texts.items():
            a = git_show(rel).splitlines(keepends=True)
            b = new.splitlines(keepends=True)
            out += "".join(difflib.unified_diff(a, b, "a/" + rel, "b/" + rel))
        with open(os.path.join(HERE, name + ".diff"), "w", newline="") as f:
            f.write(out)
        print(name)


if __name__ == "__main__":
    main()
