#!/venv/bin/python
"""Quick probe of the R15 follow-up: the two refactorings of /tmp/mut_out/H6 (copied here) must leave every
equality proof checking; each mutation below (one per newly accepted idiom, applied ON TOP of the refactored
source) and every mutation of docs/tie_tests/T15 (on the plain source) must be refused or break a lemma.
   /venv/bin/python docs/tie_tests/R15/probe.py        (writes RESULTS_raw.txt; restores coq/gen at the end)"""
import glob, os, subprocess, sys
HERE = os.path.dirname(os.path.abspath(__file__))
V = os.path.abspath(os.path.join(HERE, "..", "..", ".."))
SC = "/tmp/sc_R15_probe"
FILES = ["gen/OmenTrainer_gen.v", "gen/OmenTrainerOut_gen.v", "gen/OmenTrainerAlpha_gen.v", "gen/OmenLevel_gen.v", "gen/OmenKeyspace_gen.v",
         "theories/OmenTrainerGenProofs.v", "theories/OmenTrainerGenProofsOut.v", "theories/OmenTrainerGenProofsAlpha.v",
         "theories/OmenLevelGenProofs.v", "theories/OmenKeyspaceGenProofs.v", "theories/OmenTrainerGenInstOut.v", "theories/OmenTrainerGenInst.v"]
AL, SM, EV = "lib_trainer/omen/alphabet_lookup.py", "lib_trainer/omen/smoothing.py", "lib_trainer/omen/evaluate_password.py"
NEW = {  # name: (base refactoring, [(file, old, new)])
    "N1_chained_comparison_strict": ("H6_harmless_1", [(AL, "if not self.min_length <= pw_len <= self.max_length:", "if not self.min_length < pw_len <= self.max_length:")]),
    "N2_try_else_stores_count_0": ("H6_harmless_1", [(SM, "ln_lookup[index] = (level, seen)", "ln_lookup[index] = (level, 0)")]),
    "N3_hoisted_prefix_range_short": ("H6_harmless_1", [(AL, "for i in range(pw_len - prefix_len + 1):", "for i in range(pw_len - prefix_len):")]),
    "N4_values_loop_skips_ep_level": ("H6_harmless_1", [(SM, "entry['ep_level'] = _calc_level(entry['ep_count'], ep_total,", "entry['ep_level'] = _calc_level(entry['ip_count'], ep_total,")]),
    "N5_cost_test_strict": ("H6_harmless_2", [(EV, "if level >= cost:", "if level > cost:")]),
    "N6_merged_skip_strict": ("H6_harmless_2", [(EV, "if length >= ngram and length_info[0] <= level_minus_ip:", "if length > ngram and length_info[0] <= level_minus_ip:")]),
    "N7_enumerate_from_0": ("H6_harmless_2", [(EV, "enumerate(omen_trainer.ln_lookup, 1)", "enumerate(omen_trainer.ln_lookup, 0)")]),
    "N8_values_loop_le": ("H6_harmless_2", [(EV, "            if letter_level[0] == level:\n                length_cache[level] += 1", "            if letter_level[0] <= level:\n                length_cache[level] += 1")]),
    "N9_setdefault_other_key": ("H6_harmless_2", [(EV, "entry['keyspace_cache'].setdefault(length, {})", "entry['keyspace_cache'].setdefault(level, {})")]),
}


def sh(cmd, **kw):
    return subprocess.run(cmd, shell=True, capture_output=True, text=True, **kw)


def edit(rel, old, new):
    p = os.path.join(SC, rel)
    s = open(p, encoding="utf-8", newline="").read()
    crlf = "\r\n" in s
    s = s.replace("\r\n", "\n")
    if old not in s:
        raise SystemExit("%r not found in %s" % (old, rel))
    s = s.replace(old, new)
    open(p, "w", encoding="utf-8", newline="").write(s.replace("\n", "\r\n") if crlf else s)


def probe(name):
    env = dict(os.environ, PCFG_REPO=SC)
    res = []
    for tr in ("translate_omen_trainer.py", "translate_omen_level.py"):
        r = subprocess.run(["/venv/bin/python", os.path.join(V, "harness", tr), "--write"], capture_output=True, text=True, env=env)
        if r.returncode:
            res.append("translator refuses: " + [l for l in r.stderr.split("\n") if "TranslateError" in l][-1][:260])
    if not res:
        r = subprocess.run(["/venv/bin/python", "-c", "import sys; sys.path.insert(0,'harness'); import consts.omen_level as m; C=m.extract(); "
                            "assert C['keyspace_len_skip_le'] is False and C['keyspace_ip_guard_strict'] is False, C"],
                           capture_output=True, text=True, env=env, cwd=V)
        if r.returncode:
            res.append("plugin / side condition C18_source_len_skip_is_lt: " + r.stderr.strip().split("\n")[-1][:200])
    if not res:
        for f in FILES:
            r = sh("timeout 600 coqc -Q theories Pcfg -Q gen PcfgGen %s" % f, cwd=os.path.join(V, "coq"))
            if r.returncode:
                err = " ".join(r.stderr.split())
                res.append("%s does not check: %s" % (f, err[:240]))
                break
    return "; ".join(res) or "all equalities check"


def main():
    out = open(os.path.join(HERE, "RESULTS_raw.txt"), "w")
    sh("git -C /repo worktree remove --force %s" % SC)
    assert sh("git -C /repo worktree add --detach %s HEAD" % SC).returncode == 0
    jobs = [(n, n, []) for n in ("H6_harmless_1", "H6_harmless_2")] + [(n, b, e) for n, (b, e) in NEW.items()]
    jobs += [(os.path.basename(d)[:-5], d, None) for d in sorted(glob.glob(os.path.join(V, "docs/tie_tests/T15/M*.diff")))]
    only = sys.argv[1:]
    for name, base, edits in jobs:
        if only and not any(name.startswith(p) for p in only):
            continue
        sh("git -C %s checkout -q -- ." % SC)
        diff = base if edits is None else os.path.join(HERE, base + ".diff")
        if sh("git -C %s apply %s" % (SC, diff)).returncode:
            line = "%s: patch failed" % name
        else:
            for rel, old, new in (edits or []):
                edit(rel, old, new)
            line = "%s: %s" % (name, probe(name))
        print(line, flush=True)
        out.write(line + "\n")
        out.flush()
    sh("git -C /repo worktree remove --force %s" % SC)
    for tr in ("translate_omen_trainer.py", "translate_omen_level.py"):
        subprocess.run(["/venv/bin/python", os.path.join(V, "harness", tr), "--write"], capture_output=True)
    for f in FILES:
        sh("timeout 600 coqc -Q theories Pcfg -Q gen PcfgGen %s" % f, cwd=os.path.join(V, "coq"))


if __name__ == "__main__":
    main()
