#!/bin/sh
# runs every tie test of T5 (about 10 minutes), then restores the generated files
HERE=$(cd "$(dirname "$0")" && pwd)
ROOT=$(cd "$HERE/../../.." && pwd)
for e in "$HERE"/edits/a_*.py; do "$HERE/run_tie.sh" C16 "$(basename "$e" .py)" "$e"; done
for e in "$HERE"/edits/c_*.py; do "$HERE/run_tie.sh" C20 "$(basename "$e" .py)" "$e"; done
for e in "$HERE"/edits/b_*.py; do "$HERE/run_tie.sh" C06 "$(basename "$e" .py)" "$e"; done
cd "$ROOT" && for p in C16 C20 C06; do ./check $p --tier quick | tail -1; done
