# refactoring H9/harmless_2 plus a mutation: the comprehension drops the replacements with id 0 (a filter clause)
import os, subprocess, sys
here = os.path.dirname(os.path.abspath(__file__)); sys.path.insert(0, here); import t5edit
subprocess.check_call(["git", "apply", os.path.join(here, "H9_harmless_2.patch")])
t5edit.sub("lib_guesser/pcfg_grammar.py", """        pt_item['pt'] = [(replacement, 0) for replacement in chosen_base['replacements']]""", """        pt_item['pt'] = [(replacement, 0) for replacement in chosen_base['replacements'] if replacement != 0]""")
