# harmless: behaviour-preserving refactoring H9/harmless_2 (chosen entry recorded in for/else, one comprehension, item unpacked in the for header, default index before the loop instead of for/else)
import os, subprocess
here = os.path.dirname(os.path.abspath(__file__))
subprocess.check_call(["git", "apply", os.path.join(here, "H9_harmless_2.patch")])
