# the fall-back to the last entry dropped (both for ... else blocks)
p='lib_guesser/pcfg_grammar.py'
import sys; import os; sys.path.insert(0, os.path.dirname(os.path.abspath(__file__))); import t5edit; s,nl=t5edit.load(p)
old1="""        # Rounding can leave the sum of all the probabilities a few ulps below
        # 1.0 and so below the target. That remainder belongs to the last item
        else:
            for replacement in self.base[-1]['replacements']:
                pt_item['pt'].append((replacement,0))
"""
old2="""            # Same rounding remainder as above: it belongs to the last group
            else:
                pt_item['pt'][pointer] = (item[0], max_index - 1)
"""
assert s.count(old1)==1 and s.count(old2)==1
s=s.replace(old1,"").replace(old2,"")
t5edit.save(p,s,nl)
