import sys; import os; sys.path.insert(0, os.path.dirname(os.path.abspath(__file__))); import t5edit
p='lib_trainer/calculate_probabilities.py'
# off by one: the total is one too large
t5edit.sub(p, "    total_count = sum(counter.values())\n", "    total_count = sum(counter.values()) + 1\n")
