import sys; import os; sys.path.insert(0, os.path.dirname(os.path.abspath(__file__))); import t5edit
p='edit_rules.py'
# the zero-length (Markov) structure is no longer kept unconditionally
t5edit.sub(p, "        if not total_length and total_length <= max_length:\n            return_grammar += ''.join(line) + '\\t' + prob + '\\n'\n        elif total_length >= min_length and not max_length:", "        if total_length >= min_length and not max_length:")
