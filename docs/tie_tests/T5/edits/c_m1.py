import sys; import os; sys.path.insert(0, os.path.dirname(os.path.abspath(__file__))); import t5edit
p='edit_rules.py'
# '<=' -> '<' at the maximum length
t5edit.sub(p, "        elif total_length >= min_length and total_length <= max_length:", "        elif total_length >= min_length and total_length < max_length:")
