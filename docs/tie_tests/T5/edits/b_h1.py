import sys; import os; sys.path.insert(0, os.path.dirname(os.path.abspath(__file__))); import t5edit
p='lib_trainer/calculate_probabilities.py'
# harmless: comments, docstring
t5edit.sub(p, "    # A sum of all the items in the counter\n", "    # total number of observations\n    # (the denominator of every probability)\n\n")
t5edit.sub(p, "    Calculated the probabiilty for items stored in a Python Counter\n", "    Calculates the probability of the items stored in a Python Counter\n")
