# harmless: the append loop written as extend + comprehension (same meaning; was outside the subset before T5r, now accepted)
import sys; import os; sys.path.insert(0, os.path.dirname(os.path.abspath(__file__))); import t5edit
p='lib_guesser/pcfg_grammar.py'
old = """                for replacement in item['replacements']:
                    pt_item['pt'].append((replacement,0))
"""
new = """                pt_item['pt'].extend([(replacement,0) for replacement in item['replacements']])
"""
t5edit.sub(p, old, new)
