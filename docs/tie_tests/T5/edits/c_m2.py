import sys; import os; sys.path.insert(0, os.path.dirname(os.path.abspath(__file__))); import t5edit
p='edit_rules.py'
# '>=' -> '>' at the minimum length (both tests)
t5edit.sub(p, "total_length >= min_length", "total_length > min_length", count=2)
