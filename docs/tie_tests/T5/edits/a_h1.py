# harmless: comments, docstring, blank lines
p='lib_guesser/pcfg_grammar.py'
import sys; import os; sys.path.insert(0, os.path.dirname(os.path.abspath(__file__))); import t5edit; s,nl=t5edit.load(p)
old="""        Performs a weighted random walk of the grammar and returns a pt_item
"""
assert s.count(old)==1
s=s.replace(old,"""        Performs a weighted random walk of the grammar and returns a pt_item.

        (reworded docstring)
""")
old="        # First find the base structure\n"
assert s.count(old)==1
s=s.replace(old,"        # Step 1: pick the base structure,\n        # weighted by its probability\n\n")
t5edit.save(p,s,nl)
