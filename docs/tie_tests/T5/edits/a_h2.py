# harmless: locals renamed, += written out, reformatting
import re
p='lib_guesser/pcfg_grammar.py'
import sys; import os; sys.path.insert(0, os.path.dirname(os.path.abspath(__file__))); import t5edit; s,nl=t5edit.load(p)
i=s.index("    def random_walk(self):")
j=s.index("        return pt_item", i)
body=s[i:j]
body=body.replace("prob_target","target").replace("max_index","n_groups").replace("pt_type","kind")
body=re.sub(r"\breplacement\b","repl",body)
body=body.replace("cur_prob += item['prob']","cur_prob = cur_prob + item['prob']")
body=body.replace("for index in range (0, n_groups):","for index in range(0,\n                               n_groups):")
s=s[:i]+body+s[j:]
t5edit.save(p,s,nl)
