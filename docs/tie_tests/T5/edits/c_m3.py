import sys; import os; sys.path.insert(0, os.path.dirname(os.path.abspath(__file__))); import t5edit
p='edit_rules.py'
# a year label counts its number (Y1 -> 1) instead of 4 characters
t5edit.sub(p, "            elif x[0] == 'Y':\n                total_length += 4", "            elif x[0] == 'Y':\n                total_length += int(x[1:])")
