import sys; import os; sys.path.insert(0, os.path.dirname(os.path.abspath(__file__))); import t5edit
p='edit_rules.py'
# harmless: locals renamed, += written out, conditions reformatted
import re
s, nl = t5edit.load(p)
i = s.index("def edit_length("); j = s.index("def edit_rules(")
body = s[i:j]
body = re.sub(r"\btotal_length\b", "n_chars", body)
body = re.sub(r"\bx\b", "label", body)
body = re.sub(r"\breturn_grammar\b", "kept", body)
body = body.replace("n_chars += 4", "n_chars = n_chars + 4")
body = body.replace("        elif n_chars >= min_length and n_chars <= max_length:", "        elif (n_chars >= min_length and\n              n_chars <= max_length):")
s = s[:i] + body + s[j:]
i = s.index("def edit_terminal_set("); j = s.index("def edit_length(")
body = s[i:j]
body = re.sub(r"\bskip\b", "drop", body)
s = s[:i] + body + s[j:]
t5edit.save(p, s, nl)
