# '>=' -> '>' in the cumulative scan of the base structures
p='lib_guesser/pcfg_grammar.py'
import sys; import os; sys.path.insert(0, os.path.dirname(os.path.abspath(__file__))); import t5edit; s,nl=t5edit.load(p)
old="""            if cur_prob >= prob_target:
                for replacement in item['replacements']:"""
assert s.count(old)==1
s=s.replace(old, old.replace(">=", ">"))
t5edit.save(p,s,nl)
