# off by one: the fall-back of a position takes the group before the last
p='lib_guesser/pcfg_grammar.py'
import sys; import os; sys.path.insert(0, os.path.dirname(os.path.abspath(__file__))); import t5edit; s,nl=t5edit.load(p)
old="pt_item['pt'][pointer] = (item[0], max_index - 1)"
assert s.count(old)==1
s=s.replace(old,"pt_item['pt'][pointer] = (item[0], 0)")
t5edit.save(p,s,nl)
