# refactoring H4-4 plus a mutation: any(...) instead of all(...) in check_regex
import os, subprocess, sys
here = os.path.dirname(os.path.abspath(__file__)); sys.path.insert(0, here); import t5edit
subprocess.check_call(["git", "apply", os.path.join(here, "..", "..", "..", "..", "seeded", "harmless", "H4-4", "patch.diff")])
t5edit.sub("edit_rules.py", """        if all(re.search(regex, structure) for regex in grammar_regex):""", """        if any(re.search(regex, structure) for regex in grammar_regex):""")
