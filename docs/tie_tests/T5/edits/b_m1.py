import sys; import os; sys.path.insert(0, os.path.dirname(os.path.abspath(__file__))); import t5edit
p='lib_trainer/calculate_probabilities.py'
# count * (1/total) instead of count/total (one more rounding)
t5edit.sub(p, "(value[0],value[1]/total_count)", "(value[0],value[1] * (1/total_count))")
