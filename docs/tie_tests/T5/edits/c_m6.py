import sys; import os; sys.path.insert(0, os.path.dirname(os.path.abspath(__file__))); import t5edit
p='edit_rules.py'
# regex: one matching regex is enough (any instead of all)
t5edit.sub(p, "        stop = False\n        for regex in grammar_regex:\n            if re.search(regex, structure):\n                continue\n            else:\n                stop = True\n                break", "        stop = True\n        for regex in grammar_regex:\n            if re.search(regex, structure):\n                stop = False\n                break")
