import sys; import os; sys.path.insert(0, os.path.dirname(os.path.abspath(__file__))); import t5edit
p='lib_trainer/calculate_probabilities.py'
# the placeholder starts smoothing: add-one on the raw counts
s, nl = t5edit.load(p)
i = s.index("def apply_probability_smoothing(counter):")
j = s.index("    return\n", i)
s = s[:j] + "    for key in counter:\n        counter[key] += 1\n    return\n" + s[j + len("    return\n"):]
t5edit.save(p, s, nl)
