# refactoring H2-2 plus a mutation: count * (1/total) in the comprehension
import os, subprocess, sys
here = os.path.dirname(os.path.abspath(__file__)); sys.path.insert(0, here); import t5edit
subprocess.check_call(["git", "apply", os.path.join(here, "..", "..", "..", "..", "seeded", "harmless", "H2-2", "patch.diff")])
t5edit.sub("lib_trainer/calculate_probabilities.py", """        (item, count / total_count)""", """        (item, count * (1 / total_count))""")
