# refactoring H4-3 plus a mutation: '<=' -> '<' in the scan of the base structures (sentinel spelling)
import os, subprocess, sys
here = os.path.dirname(os.path.abspath(__file__)); sys.path.insert(0, here); import t5edit
subprocess.check_call(["git", "apply", os.path.join(here, "..", "..", "..", "..", "seeded", "harmless", "H4-3", "patch.diff")])
t5edit.sub("lib_guesser/pcfg_grammar.py", """            if prob_target <= cur_prob:""", """            if prob_target < cur_prob:""")
