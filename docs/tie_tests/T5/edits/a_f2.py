# outside the accepted subset (fail closed): the group scan written as a while loop (same meaning)
import sys; import os; sys.path.insert(0, os.path.dirname(os.path.abspath(__file__))); import t5edit
p='lib_guesser/pcfg_grammar.py'
old = """            for index in range (0, max_index):
                cur_prob += self.grammar[pt_type][index]['prob'] * len(self.grammar[pt_type][index]['values'])
                if cur_prob >= prob_target:
                    pt_item['pt'][pointer] = (item[0], index)
                    break

            # Same rounding remainder as above: it belongs to the last group
            else:
                pt_item['pt'][pointer] = (item[0], max_index - 1)
"""
new = """            index = 0
            pt_item['pt'][pointer] = (item[0], max_index - 1)
            while index < max_index:
                cur_prob += self.grammar[pt_type][index]['prob'] * len(self.grammar[pt_type][index]['values'])
                if cur_prob >= prob_target:
                    pt_item['pt'][pointer] = (item[0], index)
                    break
                index += 1
"""
t5edit.sub(p, old, new)
