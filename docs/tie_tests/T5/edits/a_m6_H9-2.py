# refactoring H9/harmless_2 plus a mutation: the default group (no group reaches the draw) is the first instead of the last
import os, subprocess, sys
here = os.path.dirname(os.path.abspath(__file__)); sys.path.insert(0, here); import t5edit
subprocess.check_call(["git", "apply", os.path.join(here, "H9_harmless_2.patch")])
t5edit.sub("lib_guesser/pcfg_grammar.py", """            chosen_index = len(groups) - 1""", """            chosen_index = 0""")
