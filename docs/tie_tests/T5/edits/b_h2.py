import sys; import os; sys.path.insert(0, os.path.dirname(os.path.abspath(__file__))); import t5edit
p='lib_trainer/calculate_probabilities.py'
# harmless: locals renamed, expression reformatted
import re
s, nl = t5edit.load(p)
i = s.index("def calculate_probabilities(counter):")
body = s[i:]
body = re.sub(r"\btotal_count\b", "n_seen", body)
body = re.sub(r"\bvalue\b", "entry", body)
body = re.sub(r"\bindex\b", "pos", body)
body = body.replace("(entry[0],entry[1]/n_seen)", "(entry[0],\n                          entry[1] / n_seen)")
s = s[:i] + body
t5edit.save(p, s, nl)
