# refactoring H4-4 plus a mutation: the chained comparison min <= n <= max becomes min <= n < max
import os, subprocess, sys
here = os.path.dirname(os.path.abspath(__file__)); sys.path.insert(0, here); import t5edit
subprocess.check_call(["git", "apply", os.path.join(here, "..", "..", "..", "..", "seeded", "harmless", "H4-4", "patch.diff")])
t5edit.sub("edit_rules.py", """            or (min_length <= total_length <= max_length)""", """            or (min_length <= total_length < max_length)""")
