"""newline-preserving text edits for the tie tests"""
def load(p):
    with open(p, newline='') as f:
        s = f.read()
    nl = '\r\n' if '\r\n' in s else '\n'
    return s.replace('\r\n', '\n'), nl
def save(p, s, nl):
    with open(p, 'w', newline='') as f:
        f.write(s.replace('\n', nl))
def sub(p, old, new, count=1):
    s, nl = load(p)
    assert s.count(old) == count, (p, old, s.count(old))
    save(p, s.replace(old, new), nl)
