# harmless: behaviour-preserving refactoring H2-2 by an independent sub-agent (seeded/harmless/H2-2/patch.diff, verified equivalent by its equiv.py)
import os, subprocess
here = os.path.dirname(os.path.abspath(__file__))
subprocess.check_call(["git", "apply", os.path.join(here, "..", "..", "..", "..", "seeded", "harmless", "H2-2", "patch.diff")])
