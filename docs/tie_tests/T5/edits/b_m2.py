import sys; import os; sys.path.insert(0, os.path.dirname(os.path.abspath(__file__))); import t5edit
p='lib_trainer/calculate_probabilities.py'
# ascending order
t5edit.sub(p, "    prob_list = counter.most_common()\n", "    prob_list = counter.most_common()\n    prob_list.reverse()\n")
