import sys; import os; sys.path.insert(0, os.path.dirname(os.path.abspath(__file__))); import t5edit
p='edit_rules.py'
# the terminal-set pass is skipped (dropped statement in edit_rules)
t5edit.sub(p, "    if config.get('terminal_set'):\n        grammar = edit_terminal_set(grammar, config.get('terminal_set'))\n", "")
