# the per-value probability is added instead of the group probability times the number of values
p='lib_guesser/pcfg_grammar.py'
import sys; import os; sys.path.insert(0, os.path.dirname(os.path.abspath(__file__))); import t5edit; s,nl=t5edit.load(p)
old="cur_prob += self.grammar[pt_type][index]['prob'] * len(self.grammar[pt_type][index]['values'])"
assert s.count(old)==1
s=s.replace(old,"cur_prob += self.grammar[pt_type][index]['prob']")
t5edit.save(p,s,nl)
