import sys; import os; sys.path.insert(0, os.path.dirname(os.path.abspath(__file__))); import t5edit
p='edit_rules.py'
# harmless: comments, docstrings, blank lines
t5edit.sub(p, "def edit_length(grammar, min_length, max_length):\n", "def edit_length(grammar, min_length, max_length):\n    \"\"\"keep the structures whose label length is within the bounds\"\"\"\n\n    # zero-length structures (Markov) are always kept\n")
t5edit.sub(p, "        stop = False\n", "        # all regexes must match\n        stop = False\n\n")
