import sys; import os; sys.path.insert(0, os.path.dirname(os.path.abspath(__file__))); import t5edit
p='lib_trainer/calculate_probabilities.py'
# the total shrinks while the list is rewritten (added statement in the loop)
t5edit.sub(p, "        prob_list[index] = (value[0],value[1]/total_count)", "        prob_list[index] = (value[0],value[1]/total_count)\n        total_count = total_count - value[1]")
