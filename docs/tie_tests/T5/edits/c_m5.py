import sys; import os; sys.path.insert(0, os.path.dirname(os.path.abspath(__file__))); import t5edit
p='edit_rules.py'
# terminal set: the flag is overwritten per label (only the LAST label decides)
t5edit.sub(p, "            if x[0] not in terminal_set:\n                skip = True", "            skip = x[0] not in terminal_set")
