#!/bin/sh
# usage: run_tie.sh <Cxx> <name> <python-edit-script>
# Applies the edit to a scratch worktree of /repo (never /repo itself), runs the quick
# check of the property against it, stores the diff and the verdict line beside this
# script, removes the scratch copy and restores the generated files.
set -e
PROP=$1; NAME=$2; EDIT=$3
HERE=$(cd "$(dirname "$0")" && pwd)
ROOT=$(cd "$HERE/../../.." && pwd)
SC=/tmp/sc_T5_$NAME
OUT=/tmp/sc_T5_out_$NAME
rm -rf "$OUT"; git -C /repo worktree remove --force "$SC" 2>/dev/null || true
git -C /repo worktree add --detach "$SC" HEAD >/dev/null 2>&1
( cd "$SC" && /venv/bin/python "$EDIT" )
git -C "$SC" diff > "$HERE/${PROP}_$NAME.diff"
cd "$ROOT"
PCFG_REPO=$SC PCFG_OUT=$OUT ./check $PROP --tier quick 2>&1 | grep -v '^WARNING' | cut -c1-600 > "$OUT.log" || true
( grep -E '^(VIOLATION|KNOWN-FINDING)' "$OUT.log" | head -3
  grep -E 'no longer checks: (theorems|constant|grep|build)' "$OUT.log" | head -3
  /venv/bin/python - "$OUT" <<'PY'
import glob, json, sys
for f in sorted(glob.glob(sys.argv[1] + "/replays/*.json"))[:1]:
    d = json.load(open(f))
    for b in (d.get("broken") or []):
        if "theorems of Props" in b or "constants" in b or "build" in b:
            print("broken (from %s): %s" % (f.split("/")[-1], b[:400]))
PY
  grep -c 'no longer checks: correspondence' "$OUT.log" | sed 's/^/correspondence shards that no longer check: /'
  tail -1 "$OUT.log" ) > "$HERE/${PROP}_$NAME.result"
echo "$NAME: $(tail -1 "$OUT.log")"
rm -f "$OUT.log"
git -C /repo worktree remove --force "$SC"; rm -rf "$OUT"
