#!/bin/sh
# Fast probe of the tie (no harness run): for every *.diff here, patch a scratch copy of /repo,
# translate it, and compile gen/Expand_gen.v + theories/ExpandGenProofs.v in a private copy of coq/.
# Prints per diff: translated? / proofs hold?
HERE="$(cd "$(dirname "$0")" && pwd)"
ROOT="$(cd "$HERE/../../.." && pwd)"
W=/tmp/sc_T1_probe
C=/tmp/sc_T1_probe_coq
rm -rf "$C"; mkdir -p "$C"; cp -r "$ROOT/coq/theories" "$ROOT/coq/gen" "$C/"
for d in "$HERE"/*.diff; do
  n=$(basename "$d" .diff)
  git -C /repo worktree add --detach "$W" HEAD >/dev/null 2>&1
  # the sources have CRLF line ends, the diffs here are stored with LF: strip the CRs of the files the diff names, patch, put them back
  fs=$(sed -n 's|^+++ b/||p' "$d")
  (cd "$W" && sed -i 's/\r$//' $fs && patch -p1 -s < "$d" && sed -i 's/$/\r/' $fs) || { echo "$n: patch failed"; git -C /repo worktree remove --force "$W"; continue; }
  if PCFG_REPO="$W" /venv/bin/python "$ROOT/harness/translate_expand.py" > "$C/gen/Expand_gen.v" 2> "$C/err.txt"; then
    tr="translated"
    if (cd "$C" && timeout 300 coqc -Q theories Pcfg -Q gen PcfgGen gen/Expand_gen.v >/dev/null 2>"$C/err1.txt" \
        && timeout 300 coqc -Q theories Pcfg -Q gen PcfgGen theories/ExpandGenProofs.v >/dev/null 2>"$C/err2.txt"); then
      pr="proofs hold"
    else
      pr="PROOFS FAIL: $(cat "$C/err1.txt" "$C/err2.txt" | grep -m1 -A3 '^File' | tr '\n' ' ' | cut -c1-160)"
    fi
  else
    tr="TRANSLATION REFUSED: $(tail -1 "$C/err.txt" | cut -c1-200)"; pr=""
  fi
  echo "$n: $tr; $pr"
  git -C /repo worktree remove --force "$W"
done
rm -rf "$C"
