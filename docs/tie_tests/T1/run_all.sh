#!/bin/sh
# Full tie test: for every *.diff here, patch a scratch copy of /repo and run the quick checks of
# C04, C09 and C17 against it (PCFG_REPO); prints the verdict lines.  Afterwards the plain checks
# are re-run so that coq/gen is regenerated from /repo again.
#   docs/tie_tests/T1/run_all.sh [name-prefix ...]      (default: all diffs)
HERE="$(cd "$(dirname "$0")" && pwd)"
ROOT="$(cd "$HERE/../../.." && pwd)"
W=/tmp/sc_T1r_tie
O=/tmp/sc_T1r_out
cd "$ROOT"
sel="$*"
for d in "$HERE"/*.diff; do
  n=$(basename "$d" .diff)
  if [ -n "$sel" ]; then ok=0; for p in $sel; do case "$n" in "$p"*) ok=1;; esac; done; [ $ok = 1 ] || continue; fi
  git -C /repo worktree add --detach "$W" HEAD >/dev/null 2>&1
  # the sources have CRLF line ends, the diffs here are stored with LF: strip the CRs of the files the diff names, patch, put them back
  fs=$(sed -n 's|^+++ b/||p' "$d")
  (cd "$W" && sed -i 's/\r$//' $fs && patch -p1 -s < "$d" && sed -i 's/$/\r/' $fs) \
    || { echo "$n: patch failed"; git -C /repo worktree remove --force "$W"; continue; }
  for c in C04 C09 C17; do
    rm -rf "$O"
    out=$(PCFG_REPO="$W" PCFG_OUT="$O" ./check $c --tier quick 2>&1 | grep -v conda)
    echo "== $n $c: $(echo "$out" | tail -1)"
    echo "$out" | grep -A1 "^VIOLATION" | head -4 | sed 's/^/     /' | cut -c1-260
  done
  git -C /repo worktree remove --force "$W"
  rm -rf "$O"
done
for c in C04 C09 C17; do echo "== restore $c: $(./check $c --tier quick 2>&1 | tail -1)"; done
