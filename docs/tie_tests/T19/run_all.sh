#!/bin/sh
# Full tie tests of T19: every diff of this directory is applied to a scratch worktree of /repo and the whole
# checks of the properties it concerns are run against it (translator, equality proofs, Props, the real loaders
# with the direct oracles, the correspondence), on a PRIVATE copy of coq/ (PCFG_COQ) so that the worktree's
# generated files stay those of the unchanged /repo.  M* must end in VIOLATION for at least one property,
# H* in OK for all four.
#   sh docs/tie_tests/T19/run_all.sh [name-prefix ...]      (about 1 minute per diff and property)
# Results are appended to docs/tie_tests/T19/RESULTS_raw.txt.
V=/tmp/vb_T19
SC=/tmp/sc_T19_run
OUT=/tmp/sc_T19_out
CQ=/tmp/sc_T19_coq
D=$V/docs/tie_tests/T19
props_of() {
  case $1 in
    H*) echo "C07 C10 C11 C04";;
    M01*|M02*|M03*|M04*|M06*|M13*|M14*|M16*) echo "C07 C10";;
    M07*|M08*|M15*) echo "C11 C07";;
    M05*|M09*|M10*|M12*) echo "C04 C07";;
    M11*) echo "C07";;
    *) echo "C07 C10 C11 C04";;
  esac
}
git -C /repo worktree remove --force $SC >/dev/null 2>&1
git -C /repo worktree add --detach $SC HEAD >/dev/null 2>&1 || exit 1
rm -rf $CQ; mkdir -p $CQ; rsync -a --exclude cases $V/coq/ $CQ/
for diff in $D/*.diff; do
  name=$(basename $diff .diff)
  if [ $# -gt 0 ]; then ok=0; for p in "$@"; do case $name in $p*) ok=1;; esac; done; [ $ok = 1 ] || continue; fi
  git -C $SC checkout -q -- . && (cd $SC && git apply $diff) || { echo "$name: patch failed"; continue; }
  for prop in $(props_of $name); do
    rm -rf $OUT; mkdir -p $OUT
    cd $V && PCFG_REPO=$SC PCFG_OUT=$OUT PCFG_COQ=$CQ timeout 1500 ./check $prop --tier quick > /tmp/sc_T19_run.log 2>&1
    last=$(grep -E -- '-> (OK|VIOLATION)' /tmp/sc_T19_run.log | tail -1)
    echo "$name: $last" | tee -a $D/RESULTS_raw.txt
    grep -E 'VIOLATION|KNOWN-FINDING|broken|no longer|refuse' /tmp/sc_T19_run.log | grep -v -E -- '-> (OK|VIOLATION)' | cut -c1-420 | head -4 | sed 's/^/    /' | tee -a $D/RESULTS_raw.txt
  done
done
git -C /repo worktree remove --force $SC
rm -rf $OUT $CQ
