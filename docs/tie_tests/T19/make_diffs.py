#!/venv/bin/python
"""Writes the mutation (M*) and harmless-edit (H*) diffs of the T19 tie tests into this directory.
Each edit is made in a scratch worktree of /repo (never in /repo itself) and saved as `git diff`.
The sources have CRLF line ends: they are read and written with newline=''.

    /venv/bin/python docs/tie_tests/T19/make_diffs.py
"""
import os
import subprocess
import sys

HERE = os.path.dirname(os.path.abspath(__file__))
SC = "/tmp/sc_T19_mk"
OMEN_IN = "lib_guesser/omen/input_file_io.py"
OMEN_SC = "lib_scorer/omen_scorer.py"
SC_IO = "lib_scorer/grammar_io.py"
G_IO = "lib_guesser/grammar_io.py"


def sh(*a, **k):
    return subprocess.run(a, check=True, capture_output=True, text=True, **k).stdout


def edit(rel, reps, count=1):
    p = os.path.join(SC, rel)
    with open(p, newline="") as f:
        s = f.read()
    for a, b in reps:
        a, b = a.replace("\n", "\r\n"), b.replace("\n", "\r\n")
        if a not in s:
            raise SystemExit("%s: pattern not found: %r" % (rel, a[:60]))
        s = s.replace(a, b, count) if count else s.replace(a, b)
    with open(p, "w", newline="") as f:
        f.write(s)


EDITS = {
    # ---------------- mutations: each must make a check report VIOLATION
    "M01_level_parsed_with_int_float": [(OMEN_IN, [("                level = int(line[0])\n", "                level = int(float(line[0]))\n")])],
    "M02_ip_and_ep_files_swapped": [(OMEN_IN, [('_load_ngrams(base_directory, "IP.level", grammar, "ip")', '_load_ngrams(base_directory, "EP.level", grammar, "ip")'),
                                              ('_load_ngrams(base_directory, "EP.level", grammar, "ep")', '_load_ngrams(base_directory, "IP.level", grammar, "ep")')])],
    "M03_alphabet_line_stripped": [(OMEN_IN, [("grammar['alphabet'].append(line.rstrip('\\n\\r'))", "grammar['alphabet'].append(line.strip())")])],
    "M04_ln_index_off_by_one": [(OMEN_IN, [("                    grammar[name][level].append(cur_length - (min_size -1))", "                    grammar[name][level].append(cur_length - min_size)")])],
    "M05_skip_case_group_prob_not_one": [(G_IO, [("                        'prob': 1.0\n                    }\n            grammar[name] = [item]", "                        'prob': 0.0\n                    }\n            grammar[name] = [item]")])],
    "M06_sorted_added_to_a_level_list": [(OMEN_IN, [("                if name == \"ip\":\n                    grammar[name][level].append(line[1])\n", "                if name == \"ip\":\n                    grammar[name][level].append(line[1])\n                    grammar[name][level] = sorted(grammar[name][level])\n")])],
    "M07_scorer_level_zero_rejected": [(OMEN_SC, [("                    level = int(line[0])\n                    # Sanity check on the range the level falls in\n                    if level < 0 :\n                        print(f\"Invalid level found parsing {full_file_path}\", file=sys.stderr)\n                        print(f\"Level = {level}\", file=sys.stderr)\n                        print(\"This indicates there was a problem with the training program or the file was corrupted somehow\", file=sys.stderr)\n                        raise Exception\n\n                    # Save the level\n                    self.ip[line[1]] = level",
                                                    "                    level = int(line[0])\n                    # Sanity check on the range the level falls in\n                    if level <= 0 :\n                        print(f\"Invalid level found parsing {full_file_path}\", file=sys.stderr)\n                        print(f\"Level = {level}\", file=sys.stderr)\n                        print(\"This indicates there was a problem with the training program or the file was corrupted somehow\", file=sys.stderr)\n                        raise Exception\n\n                    # Save the level\n                    self.ip[line[1]] = level")])],
    "M08_scorer_ln_without_leading_entry": [(OMEN_SC, [("        self.ln = ['10']", "        self.ln = []")])],
    "M09_terminal_key_from_whole_file_name": [(G_IO, [("        name = config.get('name') + file.split('.')[0]\n        grammar[name] = []", "        name = config.get('name') + file\n        grammar[name] = []")])],
    "M10_markov_levels_not_split": [(G_IO, [("    grammar['M'] = [\n        {'values': [level], 'prob': group['prob']}\n        for group in grammar['M'] for level in group['values']\n    ]\n", "")])],
    "M11_scorer_grammar_txt_with_ruleset_encoding": [(SC_IO, [("if not _load_from_file(grammar.count_base_structures, filename, 'ascii'):", "if not _load_from_file(grammar.count_base_structures, filename, grammar.encoding):")])],
    "M12_version_test_flipped": [(G_IO, [("        if major_guesser > major_rule:", "        if major_guesser >= major_rule:")])],
    "M13_cp_prefix_drops_first_character": [(OMEN_IN, [("                    search_string = line[1][0:-1]", "                    search_string = line[1][1:]")])],
    "M14_ep_dict_keeps_first_level": [(OMEN_IN, [("                elif name == \"ep\":\n                    grammar[name][line[1]] = level", "                elif name == \"ep\":\n                    if line[1] not in grammar[name]:\n                        grammar[name][line[1]] = level")])],
    "M15_scorer_ngram_from_last_cp_line": [(OMEN_SC, [("                    if self.ngram == -1:\n                        self.ngram = len(line[1])", "                    self.ngram = len(line[1])")])],
    "M16_guesser_max_level_nine": [(OMEN_IN, [("        grammar['max_level'] = 10", "        grammar['max_level'] = 9")])],
    # ---------------- harmless edits: no check may raise an alarm
    "H1_comments_docstrings_blank_lines": [
        (OMEN_IN, [("        # Load the configuration\n", "        # (1) the configuration comes first: it names the encoding\n\n"),
                   ("    Reads the probability info for guess length\n", "    Reads LN.level: one level per line, line i is length i.\n"),
                   ("                # Will throw a ValueError if not an int\n                level = int(line.rstrip", "                # int() raises ValueError on anything else\n\n                level = int(line.rstrip")]),
        (OMEN_SC, [("        # Load the IP costs\n", "        # IP.level first\n\n"), ("    Responsible for all OMEN options in the scorer\n", "    Everything the scorer knows about OMEN.\n")]),
        (SC_IO, [("    # Read the top level config file for the grammar\n", "    # config.ini says where everything is\n")]),
        (G_IO, [("    # Quick way to reference variables\n", "    # shorthand\n\n"), ("    Loads most of the terminals for the grammar\n", "    Loads the terminals (everything but the base structures).\n")]),
    ],
    "H2_locals_and_parameters_renamed": [
        (OMEN_IN, [("def _load_length(base_directory, filename, grammar, name, min_size):", "def _load_length(rules_dir, fname, grammar, key, shortest):"),
                   ("    grammar[name] = {}\n    for level in range(0,grammar['max_level']+1):\n        grammar[name][level] = []\n\n    try:\n        full_file_path = os.path.join(base_directory, filename)\n\n        # Open the file for writing",
                    "    grammar[key] = {}\n    for lvl in range(0,grammar['max_level']+1):\n        grammar[key][lvl] = []\n\n    try:\n        full_file_path = os.path.join(rules_dir, fname)\n\n        # Open the file for writing"),
                   ("                if (cur_length >= min_size):", "                if (cur_length >= shortest):"),
                   ("                    grammar[name][level].append(cur_length - (min_size -1))", "                    grammar[key][level].append(cur_length - (shortest -1))")]),
        (OMEN_SC, [("    def _load_omen(self, base_directory):", "    def _load_omen(self, rules_dir):"),
                   ("        full_file_path = os.path.join(base_directory, \"Omen\", \"IP.level\")", "        full_file_path = os.path.join(rules_dir, \"Omen\", \"IP.level\")"),
                   ("        full_file_path = os.path.join(base_directory, \"Omen\", \"CP.level\")", "        full_file_path = os.path.join(rules_dir, \"Omen\", \"CP.level\")"),
                   ("        full_file_path = os.path.join(base_directory, \"Omen\", \"LN.level\")", "        full_file_path = os.path.join(rules_dir, \"Omen\", \"LN.level\")")]),
        (G_IO, [("    for file in filenames:\n        full_path = os.path.join(base_directory, directory, file)\n\n        # Initialize the structure to hold the data\n        name = config.get('name') + file.split('.')[0]\n        grammar[name] = []\n\n        if not _load_from_file(grammar[name], full_path, encoding):",
                 "    for fname in filenames:\n        where = os.path.join(base_directory, directory, fname)\n\n        # Initialize the structure to hold the data\n        key = config.get('name') + fname.split('.')[0]\n        grammar[key] = []\n\n        if not _load_from_file(grammar[key], where, encoding):")]),
    ],
    "H3_equivalent_reformatting": [
        (OMEN_IN, [("                cur_length += 1\n", "                cur_length = cur_length + 1\n"),
                   ("        with codecs.open(full_file_path, 'r', encoding= grammar['alphabet_encoding'], errors= 'strict') as file:\n            for line in file:\n                grammar['alphabet']",
                    "        with codecs.open(full_file_path, 'r',\n                         errors='strict',\n                         encoding=grammar['alphabet_encoding']) as file:\n            for line in file:\n                grammar['alphabet']"),
                   ("        _load_length(base_directory, \"LN.level\", grammar, \"ln\", grammar['ngram'])", "        _load_length(base_directory,\n                     'LN.level',\n                     grammar, 'ln',\n                     grammar['ngram'])"),
                   ("        print(\"Could not open the config file for the ruleset specified. The rule directory may not exist\", file=sys.stderr)\n        print(\"Filename: \" + full_file_path, file=sys.stderr)\n        raise\n    except configparser.Error as msg:",
                    "        print(\"Cannot open the OMEN config file\", file=sys.stderr)\n        raise\n    except configparser.Error as msg:")]),
        (OMEN_SC, [("        self.max_len = len(self.ln) - 1", "        self.max_len = (len(self.ln)) - 1")]),
        (G_IO, [("            item = {\n                        'values': ['L'*length],\n                        'prob': 1.0\n                    }", "            item = {'values': ['L' * length], 'prob': 1.0}")]),
    ],
    "H4_temporaries_introduced": [
        (OMEN_IN, [("                line = line.rstrip('\\n\\r').split('\\t')\n\n                # If there wasn't a line to read. This indicates an error in the trianing file somewhere",
                    "                text = line.rstrip('\\n\\r')\n                line = text.split('\\t')\n\n                # If there wasn't a line to read. This indicates an error in the trianing file somewhere"),
                   ("                level = int(line.rstrip('\\n\\r'))", "                digits = line.rstrip('\\n\\r')\n                level = int(digits)")]),
        (G_IO, [("            name = config['CAPITALIZATION'].get('name') + file.split('.')[0]\n            length = int(file.split('.')[0])",
                 "            stem = file.split('.')[0]\n            name = config['CAPITALIZATION'].get('name') + stem\n            length = int(stem)")]),
    ],
}


def main():
    subprocess.run(["git", "-C", "/repo", "worktree", "remove", "--force", SC], capture_output=True)
    sh("git", "-C", "/repo", "worktree", "add", "--detach", SC, "HEAD")
    try:
        for name, files in EDITS.items():
            sh("git", "-C", SC, "checkout", "-q", "--", ".")
            for rel, reps in files:
                edit(rel, reps)
            diff = subprocess.run(["git", "-C", SC, "diff"], check=True, capture_output=True).stdout   # bytes: CRLF kept
            if not diff.strip():
                raise SystemExit("%s: empty diff" % name)
            with open(os.path.join(HERE, name + ".diff"), "wb") as f:
                f.write(diff)
            print(name, len(diff.splitlines()), "lines")
    finally:
        subprocess.run(["git", "-C", "/repo", "worktree", "remove", "--force", SC], capture_output=True)


if __name__ == "__main__":
    main()
