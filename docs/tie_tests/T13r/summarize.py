#!/usr/bin/env python3
"""RESULTS_raw.txt (one or more, as written by run_all.sh) -> the per-case summary lines of RESULTS.txt"""
import re
import sys


def cases(path):
    cur = None
    for line in open(path, encoding="utf-8", errors="replace"):
        line = line.rstrip("\n")
        if line.startswith("== "):
            if cur:
                yield cur
            name, _, what = line[3:].partition(": ")
            cur = dict(name=name, what=what, verdict=None, details=[])
        elif cur is not None:
            m = re.search(r"-> (OK|VIOLATION)$", line)
            if line.startswith("C05 quick:") and m:
                if cur["verdict"] is None:          # (a later line is the run that restores the generated files)
                    cur["verdict"] = m.group(1)
                    cur["summary"] = line
            else:
                cur["details"].append(line.strip())
    if cur:
        yield cur


def main():
    for path in sys.argv[1:]:
        for c in cases(path):
            if c["verdict"] is None:
                print("%s: %s\n    -> NO VERDICT (the run was interrupted)" % (c["name"], c["what"]))
                continue
            note = ""
            if c["verdict"] == "VIOLATION":
                concrete = [d for d in c["details"] if d.startswith("VIOLATION") and "no-failing-input-found" not in d]
                tie = [d for d in c["details"] if "source-tie" in d]
                parts = []
                if concrete:
                    parts.append("concrete failing input (%d replay%s, first: %s)" % (
                        len(concrete), "" if len(concrete) == 1 else "s", concrete[0].split("replay=")[-1].strip()))
                else:
                    parts.append("no-failing-input-found")
                if tie:
                    t = tie[0].split("source-tie", 1)[1]
                    parts.append("tie: source-tie" + t[:330])
                note = "  [" + "; ".join(parts) + "]"
            print("%s: %s\n    -> %s%s" % (c["name"], c["what"], c["verdict"], note))


if __name__ == "__main__":
    main()
