#!/usr/bin/env python3
"""Writes the tie-test diffs of T13r (docs/tie_tests/T13r/*.diff) by editing a scratch copy of the tree with R24
repaired that is a git repository of its own (first argument; see run_all.sh) and taking `git diff`.  Each case is (name, one-line description, [(file, old, new), ...]);
`old` must occur exactly once in the file."""
import os
import subprocess
import sys

D = "lib_trainer/detection_rules/"
MW, EM, WEB, KB = D + "multiword_detector.py", D + "email_detection.py", D + "website_detection.py", D + "keyboard_walk.py"

CASES = [
    # ---------------- semantic mutations (the keyboard cases of T13, on the source with R24 repaired)
    ("m30_kbd_run_on_other_layout", "seeded C05-4 (patch applies unchanged): keyboard_run_list = dict(current_runs): a run may continue on a different layout",
     "SEEDED:C05-4"),
    ("m31_kbd_run_list_one_expression", "seeded C05-6 (patch applies unchanged): the keyboard_run_list bookkeeping 'tidied' into one expression",
     "SEEDED:C05-6"),
    ("m32_kbd_min_run_3", "detect_keyboard_walk: min_keyboard_run=3 (the default the parser uses)",
     [(KB, "def detect_keyboard_walk(password, min_keyboard_run=4):", "def detect_keyboard_walk(password, min_keyboard_run=3):")]),
    ("m33_kbd_class_mix_test_dropped", "interesting_keyboard: one character class is enough (`>= 2` -> `>= 1`)",
     [(KB, "    if (alpha + special + digit) >= 2:", "    if (alpha + special + digit) >= 1:")]),
    ("m34_kbd_right_neighbour_dropped", "is_next_on_keyboard: on the same row only the left neighbour counts",
     [(KB, "            if (cur_data['pos'] == past_data['pos'] - 1) or (cur_data['pos'] == past_data['pos'] + 1):",
       "            if (cur_data['pos'] == past_data['pos'] - 1):")]),
    ("m35_kbd_shift_row_number", "find_keyboard_row_column: the shifted second row is reported as row 3",
     [(KB, "                'row': 2,\n                'pos': board['s_row2'].index(char)", "                'row': 3,\n                'pos': board['s_row2'].index(char)")]),
    ("m36_kbd_prefix_slice_off_by_one", "_detect_first_keyboard_walk: the section before a walk is one character too long",
     [(KB, "                            (password[0:index-len(cur_combo)], None))", "                            (password[0:index-len(cur_combo)+1], None))")]),
    ("m37_kbd_combo_restart_empty", "_detect_first_keyboard_walk: after a run ends the new run starts empty (`cur_combo = [value]` -> `[]`)",
     [(KB, "            cur_combo = [value]\n", "            cur_combo = []\n")]),
    ("m38_kbd_interesting_filter_shifted", "interesting_keyboard: the 'er' filter looks at combo[0], combo[1] instead of combo[1], combo[2]",
     [(KB, "    if (combo[1] == 'e') and (combo[2] == 'r'):", "    if (combo[0] == 'e') and (combo[1] == 'r'):")]),
    # ---------------- mutations of the new loop
    ("m40_kbd_loop_found_not_collected", "detect_keyboard_walk: the walks found in a part are not collected (found_list.extend dropped)",
     [(KB, "        found_list.extend(part_found)\n", "")]),
    ("m41_kbd_remaining_skips_a_character", "_detect_first_keyboard_walk: what remains starts one character late (password[index+1:])",
     [(KB, "return section_list, found_list, detected_keyboards, password[index:]", "return section_list, found_list, detected_keyboards, password[index+1:]")]),
    ("m42_kbd_loop_stops_after_first_part", "detect_keyboard_walk: the loop `while remaining is not None` became an `if` (only the first walk is parsed, the rest of the password is lost)",
     [(KB, "    while remaining is not None:\n", "    if remaining is not None:\n")]),
    ("m43_kbd_later_parts_keep_run_size", "detect_keyboard_walk: `min_keyboard_run = 4` dropped: the parts after the first keep the caller's run size (the same result for the default; reported by the proof only)",
     [(KB, "        # What follows the first walk is parsed with the default run size\n        min_keyboard_run = 4\n", "")]),
    ("m44_kbd_walk_limit_100", "seeded C05-8 PORTED BY HAND to the repaired source (its patch.diff does not apply): MAX_KEYBOARD_WALKS = 100; after 100 walks the helper no longer hands back the rest but keeps scanning with the sections it already has",
     [(KB, "def detect_keyboard_walk(password, min_keyboard_run=4):", "# The most keyboard walks that get split out of a single password\nMAX_KEYBOARD_WALKS = 100\n\n\ndef detect_keyboard_walk(password, min_keyboard_run=4):"),
      (KB, "_detect_first_keyboard_walk(\n            remaining, min_keyboard_run)", "_detect_first_keyboard_walk(\n            remaining, min_keyboard_run, len(detected_per_part))"),
      (KB, "def _detect_first_keyboard_walk(password, min_keyboard_run):", "def _detect_first_keyboard_walk(password, min_keyboard_run, depth=0):"),
      (KB, "                    if index != (len(password)):\n                        return section_list", "                    if index != (len(password)) and depth < MAX_KEYBOARD_WALKS:\n                        return section_list")]),
    # ---------------- harmless edits
    ("h10_kbd_comments_and_renames", "keyboard_walk.py: comments / docstring changed, locals renamed (cur_combo->run_chars, pos_list->places in the helper; remaining->todo, part_found->pf in the loop; past_name->lname; value->ch in interesting_keyboard)",
     "RENAME_KB"),
    ("h11_kbd_equivalent_spellings", "keyboard_walk.py: swapped == operands in is_next_on_keyboard, the last two ifs of the helper merged with `and`, parenthesised conditions, `while not (remaining is None)`",
     [(KB, "        if cur_data['row'] == past_data['row']:\n            if (cur_data['pos']", "        if past_data['row'] == cur_data['row']:\n            if (cur_data['pos']"),
      (KB, "        elif cur_data['row'] == past_data['row'] + 1:", "        elif past_data['row'] + 1 == cur_data['row']:"),
      (KB, "    while remaining is not None:\n", "    while not (remaining is None):\n"),
      (KB, """    if len(cur_combo) >= min_keyboard_run:

        # Look at saving this keyboard combo
        #
        # See if the keyboard combo is interesting enough to save
        if interesting_keyboard(cur_combo):

            # Save the results
            found_list.append(''.join(cur_combo))

            # Update base structure mask
            #
            # Update any unprocessed sections before the current run
            if len(cur_combo) != len(password):
                section_list.append(
                    (password[0:len(password)-len(cur_combo)], None))

            # Update the mask for the current run
            section_list.append((''.join(cur_combo), "K"+str(len(cur_combo))))

        # Not treating it as a keyboard combo since it is not intersting
        else:
            section_list.append((password, None))

    # No keyboard run found
    else:
        section_list.append((password, None))
""", """    if (len(cur_combo) >= min_keyboard_run) and interesting_keyboard(cur_combo):
        # Save the results
        found_list.append(''.join(cur_combo))
        if len(cur_combo) != len(password):
            section_list.append(
                (password[0:len(password)-len(cur_combo)], None))
        section_list.append((''.join(cur_combo), "K"+str(len(cur_combo))))
    else:
        section_list.append((password, None))
""")]),
]

RENAMES = []
RENAMES_KB = [
    (KB, "_detect_first_keyboard_walk", {"cur_combo": "run_chars", "pos_list": "places"}),
    (KB, "detect_keyboard_walk", {"remaining": "todo", "part_found": "pf"}),
    (KB, "is_next_on_keyboard", {"past_name": "lname"}),
    (KB, "interesting_keyboard", {"value": "ch"}),
]


def rename_locals(scratch, renames=None):
    """rename locals inside one function by token (tokenize keeps comments and layout)"""
    import ast
    import io
    import tokenize
    for rel, fname, table in (renames or RENAMES):
        path = os.path.join(scratch, rel)
        src = open(path, encoding="utf-8", newline="").read()
        tree = ast.parse(src)
        fn = [n for n in ast.walk(tree) if isinstance(n, ast.FunctionDef) and n.name == fname][0]
        out = []
        for tok in tokenize.generate_tokens(io.StringIO(src).readline):
            if tok.type == tokenize.NAME and tok.string in table and fn.lineno <= tok.start[0] <= fn.end_lineno:
                tok = tok._replace(string=table[tok.string])
            out.append(tok)
        # untokenize with full 5-tuples keeps positions only if lengths are unchanged; rebuild by lines instead
        lines = src.split("\n")          # (a CRLF file keeps its "\r" at the end of every piece)
        edits = {}
        for tok in tokenize.generate_tokens(io.StringIO(src).readline):
            if tok.type == tokenize.NAME and tok.string in table and fn.lineno <= tok.start[0] <= fn.end_lineno:
                edits.setdefault(tok.start[0], []).append((tok.start[1], tok.end[1], table[tok.string]))
        for ln, es in edits.items():
            s = lines[ln - 1]
            for a, b, new in sorted(es, reverse=True):
                s = s[:a] + new + s[b:]
            lines[ln - 1] = s
        open(path, "w", encoding="utf-8", newline="").write("\n".join(lines))


def main():
    scratch = sys.argv[1]
    here = os.path.dirname(os.path.abspath(__file__))
    verif = os.path.abspath(os.path.join(here, "..", "..", ".."))
    only = set(sys.argv[2:])
    for name, what, edits in CASES:
        if only and name not in only:
            continue
        subprocess.run(["git", "-C", scratch, "checkout", "-q", "."], check=True)
        if edits == "RENAME":
            rename_locals(scratch)
        elif edits == "RENAME_KB":
            rename_locals(scratch, RENAMES_KB)
            path = os.path.join(scratch, KB)
            src = open(path, encoding="utf-8", newline="").read()
            src = src.replace("    # Find the keyboard position of the current character", "    # where is this key?", 1)
            src = src.replace("    Finds if a new key is next to the previous key", "    Is the new key a neighbour of the previous one?", 1)
            open(path, "w", encoding="utf-8", newline="").write(src)
        elif isinstance(edits, str) and edits.startswith("SEEDED:"):
            patch = os.path.join(verif, "seeded", edits.split(":")[1], "patch.diff")
            subprocess.run(["git", "-C", scratch, "apply", patch], check=True)
        else:
            for rel, old, new in edits:
                path = os.path.join(scratch, rel)
                src = open(path, encoding="utf-8", newline="").read()
                crlf = "\r\n" in src
                if crlf:
                    old, new = old.replace("\n", "\r\n"), new.replace("\n", "\r\n")
                if src.count(old) != 1:
                    raise SystemExit("%s: %r occurs %d times in %s" % (name, old[:60], src.count(old), rel))
                open(path, "w", encoding="utf-8", newline="").write(src.replace(old, new))
        diff = subprocess.run(["git", "-C", scratch, "diff"], check=True, capture_output=True).stdout    # bytes: CRLF files
        if not diff.strip():
            raise SystemExit("%s: empty diff" % name)
        with open(os.path.join(here, name + ".diff"), "wb") as f:
            f.write(("# %s\n" % what).encode("utf-8"))
            f.write(diff)
        # the edited files must still be valid Python
        for line in diff.decode("utf-8").splitlines():
            if line.startswith("+++ b/"):
                subprocess.run(["/venv/bin/python", "-m", "py_compile", os.path.join(scratch, line[6:])], check=True,
                               env=dict(os.environ, PYTHONDONTWRITEBYTECODE="1"))
        print("wrote", name)
    subprocess.run(["git", "-C", scratch, "checkout", "-q", "."], check=True)


if __name__ == "__main__":
    main()
