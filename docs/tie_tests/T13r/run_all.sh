#!/bin/sh
# Runs the tie tests of T13r: every NAME.diff of this directory (a diff against the tree with R24 repaired, FIXED,
# default /tmp/fix_kbd) is applied to a scratch copy of that tree (a git repository of its own, so that /repo is not
# touched) and `PCFG_REPO=<scratch> PCFG_OUT=<out> ./check C05 --tier quick` is run from the verification worktree
# given as first argument.  Results are appended to RESULTS_raw.txt.
#   sh run_all.sh [verif-worktree] [scratch-number] [names...]
HERE="$(cd "$(dirname "$0")" && pwd)"
VERIF="${1:-$(cd "$HERE/../../.." && pwd)}"
N="${2:-9}"
shift; shift
FIXED="${FIXED:-/tmp/fix_kbd}"
SC=/tmp/sc_T13r_$N
OUT=/tmp/sc_T13r_out_$N
RAW="${RAW:-$HERE/RESULTS_raw.txt}"
rm -rf "$SC"; mkdir "$SC"
( cd "$FIXED" && tar --exclude=.git --exclude=__pycache__ -cf - . ) | ( cd "$SC" && tar xf - )
( cd "$SC" && git init -q . && git -c core.autocrlf=false add -A && git -c user.name=t -c user.email=t@t -c core.autocrlf=false commit -qm base )
NAMES="$*"
[ -z "$NAMES" ] && NAMES="$(cd "$HERE" && ls *.diff | sed 's/\.diff$//')"
for name in $NAMES; do
    git -C "$SC" checkout -q . && git -C "$SC" clean -fdq
    grep -v '^# ' "$HERE/$name.diff" | git -C "$SC" apply --whitespace=nowarn - || { echo "$name: the diff does not apply" >> "$RAW"; continue; }
    rm -rf "$OUT"
    ( cd "$VERIF" && PCFG_REPO="$SC" PCFG_OUT="$OUT" timeout 1500 ./check C05 --tier quick ) > "$OUT.log" 2>&1
    {
        echo "== $name: $(head -1 "$HERE/$name.diff" | sed 's/^# //' | cut -c1-300)"
        grep -v "WARNING conda" "$OUT.log" | grep "^VIOLATION\|no longer checks\|-> OK\|-> VIOLATION\|KNOWN" | cut -c1-700
    } >> "$RAW"
done
rm -rf "$SC" "$OUT" "$OUT.log"
# restore the generated files of the verification worktree (against the repaired tree)
( cd "$VERIF" && PCFG_REPO="$FIXED" PCFG_OUT="$OUT" ./check C05 --tier quick ) | tail -1 >> "$RAW"
rm -rf "$OUT"
