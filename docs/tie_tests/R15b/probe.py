#!/venv/bin/python
"""Quick probe of the R15b follow-up (OmenScorer.parse with `not ngram <= pass_len <= self.max_len`, a hoisted ngram,
`for end_pos in range(ngram, pass_len + 1)`, `[:n]`): the refactoring H6-4 (copied here) and the harmless diffs of
docs/tie_tests/T2 must leave gen_find_omen_level_eq / gen_scorer_parse_eq checking; the T2 mutations that touch
find_omen_level / OmenScorer.parse and the new mutations below (on top of H6-4) must be refused or break a lemma.
   /venv/bin/python docs/tie_tests/R15b/probe.py     (writes RESULTS_raw.txt; restores coq/gen at the end)"""
import glob, os, subprocess, sys
HERE = os.path.dirname(os.path.abspath(__file__))
V = os.path.abspath(os.path.join(HERE, "..", "..", ".."))
SC = "/tmp/sc_R15b_probe"
FILES = ["gen/OmenLevel_gen.v", "theories/OmenLevelGenProofs.v"]
SCO = "lib_scorer/omen_scorer.py"
NEW = {
    "N1_chained_lower_bound_strict": [(SCO, "if not ngram <= pass_len <= self.max_len:", "if not ngram < pass_len <= self.max_len:")],
    "N2_chained_upper_bound_strict": [(SCO, "if not ngram <= pass_len <= self.max_len:", "if not ngram <= pass_len < self.max_len:")],
    "N3_range_bound_off_by_one": [(SCO, "for end_pos in range(ngram, pass_len + 1):", "for end_pos in range(ngram, pass_len):")],
    "N4_range_starts_one_late": [(SCO, "for end_pos in range(ngram, pass_len + 1):", "for end_pos in range(ngram + 1, pass_len + 1):")],
    "N5_ip_slice_too_long": [(SCO, "chain_level = self.ip[password[:ngram - 1]]", "chain_level = self.ip[password[:ngram]]")],
    "N6_test_not_negated": [(SCO, "if not ngram <= pass_len <= self.max_len:", "if ngram <= pass_len <= self.max_len:")],
}


def sh(cmd, **kw):
    return subprocess.run(cmd, shell=True, capture_output=True, text=True, **kw)


def edit(rel, old, new):
    p = os.path.join(SC, rel)
    s = open(p, encoding="utf-8", newline="").read()
    crlf = "\r\n" in s
    s = s.replace("\r\n", "\n")
    if old not in s:
        raise SystemExit("%r not found in %s" % (old, rel))
    s = s.replace(old, new)
    open(p, "w", encoding="utf-8", newline="").write(s.replace("\n", "\r\n") if crlf else s)


def probe():
    env = dict(os.environ, PCFG_REPO=SC)
    r = subprocess.run(["/venv/bin/python", os.path.join(V, "harness", "translate_omen_level.py"), "--write"], capture_output=True, text=True, env=env)
    if r.returncode:
        return "translator refuses: " + [l for l in r.stderr.split("\n") if "TranslateError" in l][-1][:260]
    for f in FILES:
        r = sh("timeout 600 coqc -Q theories Pcfg -Q gen PcfgGen %s" % f, cwd=os.path.join(V, "coq"))
        if r.returncode:
            err = " ".join(r.stderr.split())
            import re
            m = re.search(r'line (\d+)', err)
            lemma = "?"
            if m:
                txt = open(os.path.join(V, "coq", f)).read().split("\n")
                for i in range(int(m.group(1)) - 1, -1, -1):
                    mm = re.match(r"\s*(Lemma|Theorem|Example)\s+(\w+)", txt[i])
                    if mm:
                        lemma = mm.group(2)
                        break
            return "%s does not check (%s): %s" % (f, lemma, err[:160])
    return "all equalities check"


def main():
    out = open(os.path.join(HERE, "RESULTS_raw.txt"), "w")
    sh("git -C /repo worktree remove --force %s" % SC)
    assert sh("git -C /repo worktree add --detach %s HEAD" % SC).returncode == 0
    jobs = [("H6-4", os.path.join(HERE, "H6-4.diff"), [])] + [(n, os.path.join(HERE, "H6-4.diff"), e) for n, e in NEW.items()]
    for d in sorted(glob.glob(os.path.join(V, "docs/tie_tests/T2/[HM]*.diff"))):
        txt = open(d, errors="replace").read()
        if "omen_scorer" in txt or "def find_omen_level" in txt or os.path.basename(d).startswith("H"):
            jobs.append(("T2:" + os.path.basename(d)[:-5], d, []))
    only = sys.argv[1:]
    for name, diff, edits in jobs:
        if only and not any(name.startswith(p) for p in only):
            continue
        sh("git -C %s checkout -q -- ." % SC)
        if sh("git -C %s apply %s" % (SC, diff)).returncode and sh("cd %s && patch -p1 --binary -s < %s" % (SC, diff)).returncode:
            line = "%s: patch failed" % name
        else:
            for rel, old, new in edits:
                edit(rel, old, new)
            line = "%s: %s" % (name, probe())
        print(line, flush=True)
        out.write(line + "\n")
        out.flush()
    sh("git -C /repo worktree remove --force %s" % SC)
    subprocess.run(["/venv/bin/python", os.path.join(V, "harness", "translate_omen_level.py"), "--write"], capture_output=True)
    for f in FILES:
        sh("timeout 600 coqc -Q theories Pcfg -Q gen PcfgGen %s" % f, cwd=os.path.join(V, "coq"))


if __name__ == "__main__":
    main()
