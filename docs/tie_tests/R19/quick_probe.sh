#!/bin/sh
# Quick probe of the T19 tie: every diff of this directory is applied to a scratch worktree of /repo, the
# translator is run on it and the generated files + equality proofs + transported theorems are compiled in a
# PRIVATE copy of coq/ (the worktree's coq/gen is not touched; no check of the properties themselves: see
# run_all.sh).  M* must break the translation or a lemma, H* must not.
#   sh docs/tie_tests/T19/quick_probe.sh [name-prefix ...]
V=/tmp/vb_R19
SC=/tmp/sc_R19p_probe
CQ=/tmp/sc_R19p_probe_coq
D=$V/docs/tie_tests
FILES="gen/Loader2_gen.v gen/Loader2Grammar_gen.v theories/Loader2GenProofs.v theories/Loader2OmenFacts.v theories/Loader2RoundTrip.v theories/Loader2GrammarGenProofs.v theories/Loader2GrammarFacts.v"
git -C /repo worktree remove --force $SC >/dev/null 2>&1
git -C /repo worktree add --detach $SC HEAD >/dev/null 2>&1 || exit 1
rm -rf $CQ; mkdir -p $CQ; rsync -a --exclude cases $V/coq/ $CQ/
for diff in $D/T19/M*.diff $D/T19/H*.diff $D/R19/*.diff; do
  name=$(basename $diff .diff)
  if [ $# -gt 0 ]; then ok=0; for p in "$@"; do case $name in $p*) ok=1;; esac; done; [ $ok = 1 ] || continue; fi
  git -C $SC checkout -q -- . && (cd $SC && git apply $diff) || { echo "$name: patch failed"; continue; }
  res=""
  (cd $V && PCFG_REPO=$SC PCFG_COQ=$CQ /venv/bin/python harness/translate_loader2.py --write) > /tmp/sc_R19p_probe.log 2>&1 || res="translator refuses: $(grep TranslateError /tmp/sc_R19p_probe.log | tail -1 | cut -c1-300)"
  cd $CQ
  for f in $FILES; do
    [ -f $f ] || continue
    # a file that imports one that failed is not looked at (its failure would only repeat the first one)
    case "$f:$res" in theories/Loader2OmenFacts.v:*Loader2GenProofs.v*|theories/Loader2OmenFacts.v:*Loader2_gen.v*|theories/Loader2GenProofs.v:*Loader2_gen.v*|theories/Loader2RoundTrip.v:*Loader2GenProofs.v*|theories/Loader2RoundTrip.v:*Loader2_gen.v*) continue;; esac
    case "$f:$res" in theories/Loader2GrammarFacts.v:*Loader2GrammarGenProofs.v*|theories/Loader2GrammarFacts.v:*Loader2Grammar_gen.v*|theories/Loader2GrammarGenProofs.v:*Loader2Grammar_gen.v*) continue;; esac
    timeout 900 coqc -Q theories Pcfg -Q gen PcfgGen $f > /tmp/sc_R19p_probe.log 2>&1 || { res="$res $f does not check: $(grep -A4 '^File' /tmp/sc_R19p_probe.log | tr '\n' ' ' | cut -c1-260);"; }
  done
  echo "$name: ${res:-all equalities check}"
done
git -C /repo worktree remove --force $SC
rm -rf $CQ
