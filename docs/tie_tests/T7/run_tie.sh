#!/bin/sh
# usage: run_tie.sh <name> <Cxx> [<Cyy> ...]
# Applies edits/<name>.py to a scratch worktree of /repo (never /repo itself), runs the quick
# check of each property against it (PCFG_REPO), stores the diff (<name>.diff) and the verdict
# lines (<name>.result) beside this script and removes the scratch copy.  The generated files
# of the worktree are restored by the plain checks all.sh runs at its end.
NAME=$1; shift
HERE=$(cd "$(dirname "$0")" && pwd)
ROOT=$(cd "$HERE/../../.." && pwd)
SC=/tmp/sc_R7_$NAME
OUT=/tmp/sc_R7_out_$NAME
rm -rf "$OUT"; git -C /repo worktree remove --force "$SC" 2>/dev/null || true
git -C /repo worktree add --detach "$SC" HEAD >/dev/null 2>&1
( cd "$SC" && if [ -f "$HERE/seeded/$NAME.diff" ]; then git apply "$HERE/seeded/$NAME.diff"; else /venv/bin/python "$HERE/edits/$NAME.py"; fi ) || { echo "$NAME: edit failed"; git -C /repo worktree remove --force "$SC"; exit 1; }
[ -f "$HERE/seeded/$NAME.diff" ] || git -C "$SC" diff > "$HERE/$NAME.diff"
if [ -f "$HERE/seeded/$NAME.diff" ]; then echo "HARMLESS (behaviour-preserving refactoring written by an independent sub-agent): /verif/seeded/harmless/$NAME/patch.diff" > "$HERE/$NAME.result"; else head -1 "$HERE/edits/$NAME.py" | sed 's/^# *//' > "$HERE/$NAME.result"; fi
cd "$ROOT"
for PROP in "$@"; do
  rm -rf "$OUT"
  PCFG_REPO=$SC PCFG_OUT=$OUT timeout 900 ./check $PROP --tier quick 2>&1 | grep -v '^WARNING' | cut -c1-700 > "$OUT.log" || true
  ( echo "--- $PROP: $(tail -1 "$OUT.log")"
    grep -E '^(VIOLATION|KNOWN-FINDING)' -A1 "$OUT.log" | head -6
    /venv/bin/python - "$OUT" <<'PY'
import glob, json, sys
for f in sorted(glob.glob(sys.argv[1] + "/replays/*.json"))[:1]:
    d = json.load(open(f))
    for b in (d.get("broken") or [])[:4]:
        print("broken (from %s): %s" % (f.split("/")[-1], b[:500]))
PY
  ) >> "$HERE/$NAME.result"
  echo "$NAME $PROP: $(tail -1 "$OUT.log")"
  rm -f "$OUT.log"; rm -rf "$OUT"
done
git -C /repo worktree remove --force "$SC"
