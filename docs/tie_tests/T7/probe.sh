#!/bin/sh
# usage: probe.sh <name> <kernel: prince|honey|session>
# Quick probe of one edit at the level of the tie alone: applies edits/<name>.py to a scratch
# worktree of /repo, translates the kernel from it into a private directory and compiles the
# generated file and the equality proofs against it (nothing in coq/gen is touched, the real
# code is not run).  Prints OK (the translated source still equals the model), REFUSED (outside
# the translator's subset) or BROKEN with the lemma that no longer checks.
NAME=$1; KERNEL=$2
HERE=$(cd "$(dirname "$0")" && pwd)
ROOT=$(cd "$HERE/../../.." && pwd)
SC=/tmp/sc_R7_pr_$NAME
D=/tmp/sc_R7_prd_$NAME
git -C /repo worktree remove --force "$SC" 2>/dev/null; rm -rf "$D"
git -C /repo worktree add --detach "$SC" HEAD >/dev/null 2>&1
( cd "$SC" && if [ -f "$HERE/seeded/$NAME.diff" ]; then git apply "$HERE/seeded/$NAME.diff"; else /venv/bin/python "$HERE/edits/$NAME.py"; fi ) || { echo "$NAME: edit failed"; git -C /repo worktree remove --force "$SC"; exit 1; }
case $KERNEL in prince) G=SessionPrince_gen; P=SessionPrinceGenProofs;; honey) G=SessionHoney_gen; P=SessionHoneyGenProofs;; session) G=Session_gen; P=SessionGenProofs;; esac
mkdir -p "$D/gen" "$D/theories"
cp "$ROOT/coq/theories/$P.v" "$D/theories/"
if PCFG_REPO=$SC /venv/bin/python "$ROOT/harness/translate_session.py" $KERNEL > "$D/gen/$G.v" 2> "$D/err"; then
  cd "$D"
  if ! timeout 300 coqc -Q "$ROOT/coq/theories" Pcfg -Q gen PcfgGen gen/$G.v > "$D/log" 2>&1; then
    echo "$NAME: BROKEN the generated file does not compile: $(grep -v '^WARNING' "$D/log" | tr '\n' ' ' | cut -c1-300)"
  elif timeout 600 coqc -Q "$ROOT/coq/theories" Pcfg -Q gen PcfgGen -Q theories PcfgProbe theories/$P.v > "$D/log" 2>&1; then
    echo "$NAME: OK the translated source still equals the model ($P checks)"
  else
    L=$(grep -o 'line [0-9]*' "$D/log" | head -1 | cut -d' ' -f2)
    LEMMA=$(head -n "${L:-1}" "theories/$P.v" | grep -E '^ *(Lemma|Theorem|Corollary|Example) ' | tail -1 | awk '{print $2}')
    echo "$NAME: BROKEN $P.$LEMMA (line $L) no longer checks: $(grep -v '^WARNING' "$D/log" | grep -A2 Error | tr '\n' ' ' | cut -c1-260)"
  fi
else
  echo "$NAME: REFUSED $(grep TranslateError "$D/err" | tail -1 | cut -c1-400)"
fi
cd /; git -C /repo worktree remove --force "$SC"; rm -rf "$D"
