# honey MUTATION: the limit is decremented by 1 per iteration instead of by the returned count (a structure without a word counts)
import sys, os; sys.path.insert(0, os.path.dirname(os.path.abspath(__file__))); import t7edit
t7edit.sub('lib_guesser/honeyword_session.py', "limit = limit - num_generated_guesses", "limit = limit - 1")
