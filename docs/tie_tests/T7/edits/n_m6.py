# session MUTATION on top of seeded/H8-3 (str(n) through a local): the OMEN guess number stored is one too large
# props: C15
import subprocess, sys, os; sys.path.insert(0, os.path.dirname(os.path.abspath(__file__))); import t7edit
subprocess.check_call(["git", "apply", os.path.join(os.path.dirname(os.path.abspath(__file__)), "..", "seeded", "H8-3.diff")])
t7edit.sub('lib_guesser/cracking_session.py', "omen_guess_number = str(self.pcfg.omen_guess_num)", "omen_guess_number = str(self.pcfg.omen_guess_num + 1)")
