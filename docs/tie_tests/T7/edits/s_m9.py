# session MUTATION (keypress): end of file on stdin sets the quit flag (EOF truncates the run)
# props: C12
import sys, os; sys.path.insert(0, os.path.dirname(os.path.abspath(__file__))); import t7edit
t7edit.sub('lib_guesser/cracking_session.py', "            user_input = input()\n        except Exception:\n            return\n", "            user_input = input()\n        except Exception:\n            pcfg.should_exit = True\n            return\n")
