# prince MUTATION: `<` -> `<=` in the size test of the wordlist loop (one group too many)
import sys, os; sys.path.insert(0, os.path.dirname(os.path.abspath(__file__))); import t7edit
t7edit.sub('lib_princeling/wordlist_generation.py', "num_generated_guesses < max_size:", "num_generated_guesses <= max_size:")
