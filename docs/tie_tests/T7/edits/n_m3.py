# session MUTATION on top of seeded/H8-3 (try ... else): the else branch of _save_session reports failure (return False)
# props: C15
import subprocess, sys, os; sys.path.insert(0, os.path.dirname(os.path.abspath(__file__))); import t7edit
subprocess.check_call(["git", "apply", os.path.join(os.path.dirname(os.path.abspath(__file__)), "..", "seeded", "H8-3.diff")])
t7edit.sub('lib_guesser/cracking_session.py', "        else:\n            return True\n", "        else:\n            return False\n")
