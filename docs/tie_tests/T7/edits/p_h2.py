# prince HARMLESS: local variables renamed, `+=` written out
import re, sys, os; sys.path.insert(0, os.path.dirname(os.path.abspath(__file__))); import t7edit
p = 'lib_princeling/wordlist_generation.py'
s, nl = t7edit.load(p)
i = s.index("    pqueue = PcfgQueue(pcfg)")
body = s[i:]
body = re.sub(r"\bpqueue\b", "queue", body)
body = re.sub(r"\bpt_item\b", "entry", body)
body = re.sub(r"\bremaining\b", "still_wanted", body)
body = re.sub(r"\bnum_generated_guesses\b", "made", body)
assert "made += pcfg.create_guesses" in body
body = body.replace("made += pcfg.create_guesses(entry['pt'], limit = still_wanted)", "made = made + pcfg.create_guesses(entry['pt'], limit=still_wanted)")
t7edit.save(p, s[:i] + body, nl)
