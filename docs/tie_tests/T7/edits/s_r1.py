# session REFUSED (fail closed) + MUTATION: the "Limit reached" notice goes to stdout (a print without file=sys.stderr writes into the guess stream)
# props: C09
import sys, os; sys.path.insert(0, os.path.dirname(os.path.abspath(__file__))); import t7edit
t7edit.sub('lib_guesser/cracking_session.py', 'print("Limit reached. Exiting...",file=sys.stderr)', 'print("Limit reached. Exiting...")')
