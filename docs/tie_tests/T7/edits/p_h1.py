# prince HARMLESS: comments, docstring, blank lines, stderr text
import sys, os; sys.path.insert(0, os.path.dirname(os.path.abspath(__file__))); import t7edit
p = 'lib_princeling/wordlist_generation.py'
t7edit.sub(p, "    # Number of words generated\n", "    # Number of words generated so far (an edited comment)\n\n\n")
t7edit.sub(p, "    This is basically a stripped down version of the normal PCFG guesser", "    A stripped down version of the normal PCFG guesser (edited docstring)")
t7edit.sub(p, 'print("creating wordlist",file=sys.stderr)', 'print("creating the wordlist ...", file=sys.stderr)')
