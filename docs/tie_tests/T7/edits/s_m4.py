# session MUTATION: omen_guess_number is no longer removed after the restored level has been finished (the R7 defect: every later resume replays it)
# props: C15
import sys, os; sys.path.insert(0, os.path.dirname(os.path.abspath(__file__))); import t7edit
t7edit.sub('lib_guesser/cracking_session.py', "                if not self.pcfg.omen_exit:\n                    self.save_config.remove_option('guessing_info','omen_guess_number')\n", "")
