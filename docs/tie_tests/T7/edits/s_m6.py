# session MUTATION: the main loop decides to quit by thread liveness again (the R5 defect: EOF on stdin truncates the run)
# props: C12
import sys, os; sys.path.insert(0, os.path.dirname(os.path.abspath(__file__))); import t7edit
t7edit.sub('lib_guesser/cracking_session.py', "            if self.pcfg.should_exit:\n                print(\"Saving", "            if not user_thread.is_alive():\n                print(\"Saving")
