# session HARMLESS: comments, docstrings, blank lines, stderr texts
# props: C09 C12 C15
import sys, os; sys.path.insert(0, os.path.dirname(os.path.abspath(__file__))); import t7edit
p = 'lib_guesser/cracking_session.py'
t7edit.sub(p, "        # Keep running while the p_queue.next_function still has items in it\n", "        # Main loop (an edited comment)\n\n\n")
t7edit.sub(p, "        Saves a gussing session's status to disk\n", "        Saves a guessing session's status to disk (edited docstring)\n")
t7edit.sub(p, 'print("Saving Session Info",file=sys.stderr)', 'print("Saving the session ...", file=sys.stderr)')
t7edit.sub(p, 'print ("Exit command received",file=sys.stderr)', 'print ("Exit command received; finishing ...",file=sys.stderr)')
