# prince MUTATION on top of seeded/H9-3 (while True with a negated early break): `<=` -> `<` in the break test (one group too many)
import subprocess, sys, os; sys.path.insert(0, os.path.dirname(os.path.abspath(__file__))); import t7edit
subprocess.check_call(["git", "apply", os.path.join(os.path.dirname(os.path.abspath(__file__)), "..", "seeded", "H9-3.diff")])
t7edit.sub('lib_princeling/wordlist_generation.py', "max_size <= num_generated_guesses:", "max_size < num_generated_guesses:")
