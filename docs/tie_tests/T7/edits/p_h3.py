# prince HARMLESS: equivalent reformatting (parentheses, `if x is None: .. else: ..` for `x = None; if x is not None:`, the loop test with `not >=`)
import sys, os; sys.path.insert(0, os.path.dirname(os.path.abspath(__file__))); import t7edit
p = 'lib_princeling/wordlist_generation.py'
t7edit.sub(p, "    while max_size is None or num_generated_guesses < max_size:", "    while (max_size is None) or (not (num_generated_guesses >= max_size)):")
t7edit.sub(p, "        remaining = None\n        if max_size is not None:\n            remaining = max_size - num_generated_guesses\n",
           "        if max_size is None:\n            remaining = None\n        else:\n            remaining = (max_size\n                         - num_generated_guesses)\n")
