# honey MUTATION: reordered: the generator is seeded AFTER the walk (the first walk uses whatever state the generator had)
import sys, os; sys.path.insert(0, os.path.dirname(os.path.abspath(__file__))); import t7edit
p = 'lib_guesser/honeyword_session.py'
t7edit.sub(p, "            random.seed(self.random_seed)\n", "")
t7edit.sub(p, "            pt_item = self.pcfg.random_walk()\n", "            pt_item = self.pcfg.random_walk()\n            random.seed(self.random_seed)\n")
