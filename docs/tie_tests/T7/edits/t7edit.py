"""helpers of the T7 edit scripts: load / save a source file keeping its line ends"""


def load(p):
    raw = open(p, "rb").read().decode("utf-8")
    nl = "\r\n" if "\r\n" in raw else "\n"
    return raw.replace("\r\n", "\n"), nl


def save(p, s, nl):
    open(p, "wb").write(s.replace("\n", nl).encode("utf-8"))


def sub(p, old, new, count=1):
    s, nl = load(p)
    assert s.count(old) == count, (p, old, s.count(old))
    save(p, s.replace(old, new), nl)
