# session HARMLESS: locals renamed, `-=`, `not x > 0`, `is not None` with swapped branches, the save-config section as a local
# props: C09 C12 C15
import re, sys, os; sys.path.insert(0, os.path.dirname(os.path.abspath(__file__))); import t7edit
p = 'lib_guesser/cracking_session.py'
s, nl = t7edit.load(p)
s = re.sub(r"\bpt_item\b", "entry", s)
s = re.sub(r"\bnum_generated_guesses\b", "made", s)
s = re.sub(r"\buser_thread\b", "kb_thread", s)
s = re.sub(r"\bomen_guess_num = ", "saved_position = ", s)
s = s.replace("restore_omen(omen_guess_num,", "restore_omen(saved_position,")
s = s.replace("limit = limit - made", "limit -= made")
s = s.replace("if limit <= 0:", "if not limit > 0:")
old = """            if entry is None:
                print ("Done processing the PCFG. No more guesses to generate",file=sys.stderr)
                print ("Shutting down guessing session",file=sys.stderr)
                return
"""
assert s.count(old) == 1
s = s.replace(old, """            if entry is not None:
                pass
            else:
                print ("Done processing the PCFG. No more guesses to generate",file=sys.stderr)
                print ("Shutting down guessing session",file=sys.stderr)
                return
""")
t7edit.save(p, s, nl)
