# prince MUTATION: the remaining size is no longer handed to create_guesses (the R8 defect: --size overshoots inside a group)
import sys, os; sys.path.insert(0, os.path.dirname(os.path.abspath(__file__))); import t7edit
t7edit.sub('lib_princeling/wordlist_generation.py', "pcfg.create_guesses(pt_item['pt'], limit = remaining)", "pcfg.create_guesses(pt_item['pt'])")
