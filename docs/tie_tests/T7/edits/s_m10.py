# session MUTATION: the queue is popped AFTER the quit check (the saved probability is that of the previous pre-terminal)
# props: C12 C15
import sys, os; sys.path.insert(0, os.path.dirname(os.path.abspath(__file__))); import t7edit
p = 'lib_guesser/cracking_session.py'
s, nl = t7edit.load(p)
a = s.index("            # Get the next item from the pqueue\n")
b = s.index("            # Check to see if the program should exit based on user input")
pop_block = s[a:b]
s = s[:a] + s[b:]
c = s.index("            # Update stats after the save might occur")
s = s[:c] + pop_block + s[c:]
t7edit.save(p, s, nl)
