# session MUTATION: the save is skipped when a quit is seen (only the break remains)
# props: C12 C15
import sys, os; sys.path.insert(0, os.path.dirname(os.path.abspath(__file__))); import t7edit
t7edit.sub('lib_guesser/cracking_session.py', '                print("Saving Session Info",file=sys.stderr)\n                self._save_session()\n', '                print("Saving Session Info",file=sys.stderr)\n')
