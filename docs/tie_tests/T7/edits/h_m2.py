# honey MUTATION: the limit is not decremented at all
import sys, os; sys.path.insert(0, os.path.dirname(os.path.abspath(__file__))); import t7edit
t7edit.sub('lib_guesser/honeyword_session.py', "                    limit = limit - num_generated_guesses\n", "                    pass\n")
