# session MUTATION: _save_session stores the OMEN guess number unconditionally (also when no Markov level was interrupted)
# props: C15
import sys, os; sys.path.insert(0, os.path.dirname(os.path.abspath(__file__))); import t7edit
t7edit.sub('lib_guesser/cracking_session.py', "        if self.pcfg.omen_exit:\n            self.save_config.set(", "        if True:\n            self.save_config.set(")
