# prince MUTATION: the counter is advanced by 1 per pre-terminal instead of by the returned count
import sys, os; sys.path.insert(0, os.path.dirname(os.path.abspath(__file__))); import t7edit
t7edit.sub('lib_princeling/wordlist_generation.py', "            num_generated_guesses += pcfg.create_guesses(pt_item['pt'], limit = remaining)",
           "            pcfg.create_guesses(pt_item['pt'], limit = remaining)\n            num_generated_guesses += 1")
