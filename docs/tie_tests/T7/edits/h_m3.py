# honey MUTATION: `<=` -> `<` in the stop test (one word too many)
import sys, os; sys.path.insert(0, os.path.dirname(os.path.abspath(__file__))); import t7edit
t7edit.sub('lib_guesser/honeyword_session.py', "if limit <= 0:", "if limit < 0:")
