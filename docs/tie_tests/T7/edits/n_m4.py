# session MUTATION on top of seeded/H8-3 (local alias of self.save_config): the queue position no longer goes into the aliased configuration
# props: C12 C15
import subprocess, sys, os; sys.path.insert(0, os.path.dirname(os.path.abspath(__file__))); import t7edit
subprocess.check_call(["git", "apply", os.path.join(os.path.dirname(os.path.abspath(__file__)), "..", "seeded", "H8-3.diff")])
t7edit.sub('lib_guesser/cracking_session.py', "            self.pqueue.update_save_config(save_config)\n", "            pass\n")
