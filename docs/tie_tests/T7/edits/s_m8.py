# session MUTATION (keypress): a 'q' line no longer sets the quit flag (the thread just ends)
# props: C12
import sys, os; sys.path.insert(0, os.path.dirname(os.path.abspath(__file__))); import t7edit
t7edit.sub('lib_guesser/cracking_session.py', "                pcfg.should_exit = True\n                return\n", "                return\n")
