# honey MUTATION: the seed is no longer advanced (every iteration repeats the same walk)
import sys, os; sys.path.insert(0, os.path.dirname(os.path.abspath(__file__))); import t7edit
t7edit.sub('lib_guesser/honeyword_session.py', "            self.random_seed += 1\n", "            pass\n")
