# prince MUTATION on top of seeded/H9-3 (helper with return values, inlined): the helper returns one word too many (max_size - num_generated + 1)
import subprocess, sys, os; sys.path.insert(0, os.path.dirname(os.path.abspath(__file__))); import t7edit
subprocess.check_call(["git", "apply", os.path.join(os.path.dirname(os.path.abspath(__file__)), "..", "seeded", "H9-3.diff")])
t7edit.sub('lib_princeling/wordlist_generation.py', "    return max_size - num_generated\n", "    return max_size - num_generated + 1\n")
