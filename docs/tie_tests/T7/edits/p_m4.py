# prince MUTATION: off by one in the remaining size (max_size - generated + 1)
import sys, os; sys.path.insert(0, os.path.dirname(os.path.abspath(__file__))); import t7edit
t7edit.sub('lib_princeling/wordlist_generation.py', "remaining = max_size - num_generated_guesses", "remaining = max_size - num_generated_guesses + 1")
