# session MUTATION on top of seeded/H8-3 (helper _print_lines(*lines) inlined, its loop unrolled; `if` after the return): the thread does not end after 'q' (the return is dropped: it goes on to the help test and the next line)
# props: C12
import subprocess, sys, os; sys.path.insert(0, os.path.dirname(os.path.abspath(__file__))); import t7edit
subprocess.check_call(["git", "apply", os.path.join(os.path.dirname(os.path.abspath(__file__)), "..", "seeded", "H8-3.diff")])
t7edit.sub('lib_guesser/cracking_session.py', "                pcfg.should_exit = True\n                return\n", "                pcfg.should_exit = True\n")
