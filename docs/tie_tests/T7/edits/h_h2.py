# honey HARMLESS: locals renamed, `x -= e` / `x = x + e` spellings, `not limit > 0`
import re, sys, os; sys.path.insert(0, os.path.dirname(os.path.abspath(__file__))); import t7edit
p = 'lib_guesser/honeyword_session.py'
s, nl = t7edit.load(p)
i = s.index("    def run(self, limit=0):")
body = s[i:]
body = re.sub(r"\bpt_item\b", "walk", body)
body = re.sub(r"\bnum_generated_guesses\b", "made", body)
body = re.sub(r"\bnum_guess_current\b", "total", body)
body = body.replace("total += made", "total = total + made")
body = body.replace("limit = limit - made", "limit -= made")
body = body.replace("if limit <= 0:", "if not limit > 0:")
body = body.replace("self.random_seed += 1", "self.random_seed = self.random_seed + 1")
t7edit.save(p, s[:i] + body, nl)
