# session MUTATION: `<=` -> `<` in the limit test (at exactly 0 the loop goes on: limit 0 means no limit)
# props: C09
import sys, os; sys.path.insert(0, os.path.dirname(os.path.abspath(__file__))); import t7edit
t7edit.sub('lib_guesser/cracking_session.py', "                    if limit <= 0:", "                    if limit < 0:")
