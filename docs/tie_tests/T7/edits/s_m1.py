# session MUTATION: the quit check is moved after create_guesses (the popped pre-terminal is guessed before the session stops and is repeated on resume)
# props: C12 C15
import sys, os; sys.path.insert(0, os.path.dirname(os.path.abspath(__file__))); import t7edit
p = 'lib_guesser/cracking_session.py'
s, nl = t7edit.load(p)
a = s.index("            if self.pcfg.should_exit:\n")
b = s.index("            # Update stats after the save might occur")
quit_block = s[a:b]
s = s[:a] + s[b:]
c = s.index("            # The receiving program is no longer accepting guesses")
s = s[:c] + s[c:]
# put the quit check at the end of the loop body (after the try/except)
d = s.index("            except OSError:\n                break\n") + len("            except OSError:\n                break\n")
s = s[:d] + "\n" + quit_block + s[d:]
t7edit.save(p, s, nl)
