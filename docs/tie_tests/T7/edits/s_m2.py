# session MUTATION: the limit is decremented by 1 per pre-terminal instead of by the returned count
# props: C09
import sys, os; sys.path.insert(0, os.path.dirname(os.path.abspath(__file__))); import t7edit
t7edit.sub('lib_guesser/cracking_session.py', "limit = limit - num_generated_guesses", "limit = limit - 1")
