# honey HARMLESS: comments, docstring, blank lines, stderr text
import sys, os; sys.path.insert(0, os.path.dirname(os.path.abspath(__file__))); import t7edit
p = 'lib_guesser/honeyword_session.py'
t7edit.sub(p, "        # Variable to keep track of guesses created in current run.\n", "        # guesses created in the current run (edited comment)\n\n")
t7edit.sub(p, '        Starts the cracking session and starts generating guesses\n        """\n\n        print ("Starting to generate honeyword guesses"',
           '        Starts the honeyword session (edited docstring)\n        """\n\n        print ("Starting to generate honeywords"')
