#!/bin/sh
# runs every tie test of T7, then restores the generated files by the plain checks
HERE=$(cd "$(dirname "$0")" && pwd)
ROOT=$(cd "$HERE/../../.." && pwd)
for e in "$HERE"/edits/p_*.py; do "$HERE/run_tie.sh" "$(basename "$e" .py)" C17; done
for e in "$HERE"/edits/h_*.py; do "$HERE/run_tie.sh" "$(basename "$e" .py)" C16; done
for e in "$HERE"/edits/s_*.py; do "$HERE/run_tie.sh" "$(basename "$e" .py)" $(sed -n '2s/^# props: //p' "$e"); done
cd "$ROOT" && for p in C17 C16 C09 C12 C15; do ./check $p --tier quick | tail -1; done
