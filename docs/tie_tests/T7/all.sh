#!/bin/sh
# runs every tie test of T7 at check level (about an hour on a loaded machine), then restores the
# generated files by the plain checks.  h_m2 h_m3 h_m4 are mutants that do not terminate for some
# limits (the C16 oracle runs the real session without a time limit): they are probed at the level
# of the tie only (probe.sh).  probe.sh <name> <prince|honey|session> is the quick way to try one edit.
HERE=$(cd "$(dirname "$0")" && pwd)
ROOT=$(cd "$HERE/../../.." && pwd)
for e in "$HERE"/edits/p_*.py; do "$HERE/run_tie.sh" "$(basename "$e" .py)" C17; done
for n in h_m1 h_m5 h_h1 h_h2; do "$HERE/run_tie.sh" $n C16; done
for n in h_m2 h_m3 h_m4; do "$HERE/probe.sh" $n honey; done
for e in "$HERE"/edits/s_*.py; do "$HERE/run_tie.sh" "$(basename "$e" .py)" $(sed -n '2s/^# props: //p' "$e"); done
for d in H1-2 H1-3 H0-3 H0-4 H4-3; do "$HERE/run_tie.sh" $d C09 C12 C15 C16 C17; done
cd "$ROOT" && for p in C17 C16 C09 C12 C15; do ./check $p --tier quick | tail -1; done
