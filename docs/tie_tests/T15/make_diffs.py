#!/venv/bin/python
"""Writes the tie-test diffs of T15 (mutations M*, harmless edits H*) against the current /repo HEAD.
   /venv/bin/python docs/tie_tests/T15/make_diffs.py"""
import os
import shutil
import subprocess
import tempfile

HERE = os.path.dirname(os.path.abspath(__file__))
SM = "lib_trainer/omen/smoothing.py"
AL = "lib_trainer/omen/alphabet_lookup.py"
OUT = "lib_trainer/omen/omen_file_output.py"
AG = "lib_trainer/omen/alphabet_generator.py"

EDITS = {
    # ---- mutations: must end in VIOLATION
    "M1_level_formula_round_instead_of_floor": [(SM, "level = math.floor(-1 * math.log(probi))", "level = round(-1 * math.log(probi))")],
    "M2_cap_off_by_one": [(SM, "    if level > max_level:\n        level = max_level", "    if level > max_level + 1:\n        level = max_level + 1")],
    "M3_ip_counted_at_offset_1": [(AL, "            if i == 0:\n                index['ip_count'] += 1", "            if i == 1:\n                index['ip_count'] += 1")],
    "M4_ep_not_counted_for_len_eq_ngram": [(AL, "            else:\n                index['ep_count'] += 1", "            elif pw_len != self.ngram:\n                index['ep_count'] += 1")],
    "M5_prob_without_keyspace_divisor": [(OUT, "pcfg_omen_prob[level] = percentage_cracked/keyspace", "pcfg_omen_prob[level] = percentage_cracked")],
    "M6_ip_and_ep_levels_in_each_others_file": [
        (OUT, "file.write(str(data['ip_level'])+ \"\\t\" + key + \"\\n\")", "file.write(str(data['XX_level'])+ \"\\t\" + key + \"\\n\")"),
        (OUT, "file.write(str(data['ep_level'])+ \"\\t\" + key + \"\\n\")", "file.write(str(data['ip_level'])+ \"\\t\" + key + \"\\n\")"),
        (OUT, "data['XX_level']", "data['ep_level']")],
    "M7_cp_count_not_bumped_for_seen_letter": [(AL, "                    index['next_letter'][end_char] += 1\n                    index['cp_count'] += 1", "                    index['next_letter'][end_char] += 1")],
    "M8_smoothing_uses_ip_total_for_ep": [(SM, "_calc_level(index['ep_count'], ep_total, level_adjust_factor['ep'])", "_calc_level(index['ep_count'], ip_total, level_adjust_factor['ep'])")],
    "M9_alphabet_one_letter_too_many": [(AG, "if count >= self.alphabet_size:", "if count > self.alphabet_size:")],
    "M10_keyspace_file_not_reversed": [(OUT, "for level in reversed(omen_keyspace.most_common()):", "for level in omen_keyspace.most_common():")],
    "M11_length_fallback_level_0": [(SM, "ln_lookup[length] = (max_level,0)", "ln_lookup[length] = (0,0)")],
    # ---- harmless edits: must end in OK
    "H1_comments_docstrings_blank_lines": [
        (SM, "    # Calculate the probi values\n", "    # the relative frequency, scaled\n\n\n"),
        (SM, "    Applies the probability smoothing levels\n", "    Applies the probability smoothing levels (reworded docstring)\n"),
        (AL, "        # Reject if too short or too long\n", ""),
        (OUT, "    ## Save the IP ngrams to disk\n    #\n", "    # IP\n"),
        (AG, "        # Make sure it is long enough\n", "        # long enough?\n\n")],
    "H2_locals_renamed": [
        (SM, "probi", "p_scaled"), (SM, "cp_index", "seen"), (SM, "saved_level", "lvl"), (SM, "starting_letters", "prefix"),
        (AL, "cur_start_ngram", "prefix"), (AL, "end_char", "nxt"), (AL, "pw_len", "n"),
        (OUT, "full_path", "target"), (OUT, "percentage_cracked", "share"), (AG, "final_alphabet", "result"), (AG, "sorted_alphabet", "ranked")],
    "H3_equivalent_reformatting": [
        (SM, "    if level > max_level:\n        level = max_level\n    # Sometimes this can give an item -1 or -2 vs the base 0 so correct that\n    elif level < 0:\n        level = 0\n",
             "    if max_level < level:\n        level = max_level\n    else:\n        if 0 > level:\n            level = 0\n"),
        (AL, "        if pw_len < self.min_length or pw_len > self.max_length:\n            return\n", "        if self.min_length > pw_len or self.max_length < pw_len:\n            return\n"),
        (AL, "                index['ip_count'] += 1\n                self.ip_counter += 1\n", "                index['ip_count'] = index['ip_count'] + 1\n                self.ip_counter = self.ip_counter + 1\n"),
        (OUT, "file.write(str(data['ip_level'])+ \"\\t\" + key + \"\\n\")", "file.write(f\"{data['ip_level']}\\t{key}\\n\")"),
        (OUT, "file.write(str(count[0]) + \"\\n\")", "file.write(f\"{count[0]}\\n\")"),
        (AG, "            if letter in self.dictionary:\n                self.dictionary[letter] += 1\n\n            # If this is the first time we've seen this letter\n            else:\n                self.dictionary[letter] = 1\n",
             "            if letter not in self.dictionary:\n                self.dictionary[letter] = 1\n            else:\n                self.dictionary[letter] = self.dictionary[letter] + 1\n")],
}


def main():
    tmp = tempfile.mkdtemp(prefix="t15_diffs_")
    try:
        subprocess.check_call(["git", "-C", "/repo", "worktree", "add", "--detach", tmp + "/w", "HEAD"], stdout=subprocess.DEVNULL,
                              stderr=subprocess.DEVNULL)
        w = tmp + "/w"
        for name, edits in EDITS.items():
            subprocess.check_call(["git", "-C", w, "checkout", "-q", "--", "."])
            for rel, old, new in edits:
                p = os.path.join(w, rel)
                s = open(p, encoding="utf-8", newline="").read()
                crlf = "\r\n" in s
                if crlf:
                    s = s.replace("\r\n", "\n")
                if old not in s:
                    raise SystemExit("%s: %r not found in %s" % (name, old, rel))
                s = s.replace(old, new)
                if crlf:
                    s = s.replace("\n", "\r\n")
                open(p, "w", encoding="utf-8", newline="").write(s)
            d = subprocess.run(["git", "-C", w, "diff"], capture_output=True).stdout     # bytes: the sources have CRLF
            open(os.path.join(HERE, name + ".diff"), "wb").write(d)
            print(name, len(d.splitlines()), "lines")
        for h in ("H3-2", "H3-3"):
            shutil.copy("/verif/seeded/harmless/%s/patch.diff" % h, os.path.join(HERE, "H%s_coordinator_%s.diff" % ("4" if h == "H3-2" else "5", h)))
    finally:
        subprocess.call(["git", "-C", "/repo", "worktree", "remove", "--force", tmp + "/w"])
        shutil.rmtree(tmp, ignore_errors=True)


if __name__ == "__main__":
    main()
