#!/bin/sh
# Full tie tests of T15: every diff of this directory is applied to a scratch worktree of /repo and the whole
# checks of C11 and C18 are run against it (translator, equality proofs, Props, the real trainer / scorer /
# guesser with the direct oracles, the correspondence).  M* must end in VIOLATION for at least one of the two
# properties, H* in OK for both.
#   sh docs/tie_tests/T15/run_all.sh [name-prefix ...]      (about 1.5 minutes per diff)
# Results are appended to docs/tie_tests/T15/RESULTS_raw.txt; the plain checks are run at the end to restore coq/gen.
V=/tmp/vb_T15
SC=/tmp/sc_T15_run
OUT=/tmp/sc_T15_out
D=$V/docs/tie_tests/T15
git -C /repo worktree remove --force $SC >/dev/null 2>&1
git -C /repo worktree add --detach $SC HEAD >/dev/null 2>&1 || exit 1
for diff in $D/*.diff; do
  name=$(basename $diff .diff)
  if [ $# -gt 0 ]; then ok=0; for p in "$@"; do case $name in $p*) ok=1;; esac; done; [ $ok = 1 ] || continue; fi
  git -C $SC checkout -q -- . && (cd $SC && git apply $diff) || { echo "$name: patch failed"; continue; }
  for prop in C11 C18; do
    rm -rf $OUT; mkdir -p $OUT
    cd $V && PCFG_REPO=$SC PCFG_OUT=$OUT timeout 1200 ./check $prop --tier quick > /tmp/sc_T15_run.log 2>&1
    last=$(grep -E -- '-> (OK|VIOLATION)' /tmp/sc_T15_run.log | tail -1)
    echo "$name: $last" | tee -a $D/RESULTS_raw.txt
    grep -E 'VIOLATION|KNOWN-FINDING|broken|no longer|refuse' /tmp/sc_T15_run.log | grep -v -E -- '-> (OK|VIOLATION)' | cut -c1-420 | head -5 | sed 's/^/    /' | tee -a $D/RESULTS_raw.txt
  done
done
git -C /repo worktree remove --force $SC
rm -rf $OUT
cd $V && for prop in C11 C18; do timeout 1200 ./check $prop --tier quick 2>&1 | tail -1 | sed 's/^/unchanged tree: /' | tee -a $D/RESULTS_raw.txt; done
