#!/bin/sh
# Quick probe of the T15 tie: every diff of this directory is applied to a scratch worktree of /repo, the
# translator is run on it and the generated files + equality proofs + transported theorems are compiled
# (no check of C11 / C18 itself: see run_all.sh).  M* must break a translation / a lemma, H* must not.
#   sh docs/tie_tests/T15/quick_probe.sh [name-prefix ...]
V=/tmp/vb_T15
SC=/tmp/sc_T15_probe
D=$V/docs/tie_tests/T15
git -C /repo worktree remove --force $SC >/dev/null 2>&1
git -C /repo worktree add --detach $SC HEAD >/dev/null 2>&1 || exit 1
cd $V/coq
for diff in $D/*.diff; do
  name=$(basename $diff .diff)
  if [ $# -gt 0 ]; then ok=0; for p in "$@"; do case $name in $p*) ok=1;; esac; done; [ $ok = 1 ] || continue; fi
  git -C $SC checkout -q -- . && (cd $SC && git apply $diff) || { echo "$name: patch failed"; continue; }
  res=""
  PCFG_REPO=$SC /venv/bin/python $V/harness/translate_omen_trainer.py --write > /tmp/sc_T15_probe.log 2>&1 || res="translator refuses: $(grep TranslateError /tmp/sc_T15_probe.log | tail -1 | cut -c1-300)"
  if [ -z "$res" ]; then
    for f in gen/OmenTrainer_gen.v gen/OmenTrainerOut_gen.v gen/OmenTrainerAlpha_gen.v theories/OmenTrainerGenProofs.v theories/OmenTrainerGenProofsOut.v theories/OmenTrainerGenProofsAlpha.v theories/OmenTrainerGenInst.v; do
      timeout 600 coqc -Q theories Pcfg -Q gen PcfgGen $f > /tmp/sc_T15_probe.log 2>&1 || { res="$f does not check: $(grep -A3 '^File' /tmp/sc_T15_probe.log | tr '\n' ' ' | cut -c1-300)"; break; }
    done
  fi
  echo "$name: ${res:-all equalities check}"
done
git -C /repo worktree remove --force $SC
cd $V && /venv/bin/python harness/translate_omen_trainer.py --write >/dev/null 2>&1
cd $V/coq && for f in gen/OmenTrainer_gen.v gen/OmenTrainerOut_gen.v gen/OmenTrainerAlpha_gen.v theories/OmenTrainerGenProofs.v theories/OmenTrainerGenProofsOut.v theories/OmenTrainerGenProofsAlpha.v theories/OmenTrainerGenInst.v; do timeout 600 coqc -Q theories Pcfg -Q gen PcfgGen $f >/dev/null 2>&1; done
