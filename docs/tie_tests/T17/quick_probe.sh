#!/bin/sh
# quick_probe.sh <edit>.diff : the tie alone (translator + coqc of the generated file and of CliGenProofs.v in a
# temporary directory; the worktree's coq/gen is not touched).  Prints PASS, REFUSED <why> or BROKEN <lemma>.
set -u
HERE="$(cd "$(dirname "$0")" && pwd)"; ROOT="$(cd "$HERE/../../.." && pwd)"
D="$1"; N="$(basename "$D" .diff)"; SC="/tmp/sc_R17_p_$N"; T="/tmp/sc_R17_pt_$N"
rm -rf "$T"; mkdir -p "$T"
git -C /repo worktree add --detach "$SC" HEAD >/dev/null 2>&1 || { echo "$N: cannot create scratch copy"; exit 2; }
( cd "$SC" && grep -v '^#' "$HERE/$N.diff" | patch -p1 -s ) || { echo "$N: patch failed"; git -C /repo worktree remove --force "$SC"; exit 2; }
if ! ( cd "$ROOT/harness" && /venv/bin/python -c "import sys, translate_cli; sys.stdout.write(translate_cli.render('$SC'))" > "$T/Cli_gen.v" 2> "$T/err" ); then
  echo "$N: REFUSED $(tail -1 "$T/err" | cut -c1-300)"
else
  cd "$ROOT/coq"
  if ! timeout 300 coqc -Q theories Pcfg -Q "$T" PcfgGen "$T/Cli_gen.v" > "$T/log" 2>&1; then
    echo "$N: BROKEN generated file does not compile: $(grep -A3 Error "$T/log" | tr '\n' ' ' | cut -c1-300)"
  else
    cp theories/CliGenProofs.v "$T/CliGenProofs.v"
    if timeout 900 coqc -Q theories Pcfg -Q "$T" PcfgGen "$T/CliGenProofs.v" > "$T/log" 2>&1; then
      echo "$N: PASS"
    else
      L=$(grep -o 'line [0-9]*' "$T/log" | head -1 | cut -d' ' -f2)
      LEMMA=$(head -n "$L" "$T/CliGenProofs.v" | grep -E '^\s*(Lemma|Theorem|Example|Corollary) ' | tail -1 | awk '{print $2}')
      echo "$N: BROKEN $LEMMA (CliGenProofs.v line $L)"
    fi
  fi
fi
git -C /repo worktree remove --force "$SC" >/dev/null 2>&1; rm -rf "$T"
