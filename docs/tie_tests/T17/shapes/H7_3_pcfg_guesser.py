#!/usr/bin/env python3


"""

Name: PCFG Guesser
  
  Probabilistic Context Free Grammar (PCFG) Password Guessing Program
  
  Alt Title: Pretty Cool Fuzzy Guesser (PCFG)

Written by Matt Weir

Initial backend algorithm developed by Matt Weir, Sudhir Aggarwal, and Breno de Medeiros

Special thanks to Bill Glodek for collaboration on original proof of concept

Special thanks to the National Institute of Justice and the NW3C for support with the initial reasearch

Huge thanks to Florida State University's ECIT lab where the original version was developed

And the list goes on and on... And thank you whoever is reading this. Be good!

Copyright 2021 Matt Weir

Permission is hereby granted, free of charge, to any person obtaining a copy
of this software and associated documentation files (the "Software"), to deal
in the Software without restriction, including without limitation the rights
to use, copy, modify, merge, publish, distribute, sublicense, and/or sell
copies of the Software, and to permit persons to whom the Software is
furnished to do so, subject to the following conditions:

The above copyright notice and this permission notice shall be included in
all copies or substantial portions of the Software.

THE SOFTWARE IS PROVIDED "AS IS", WITHOUT WARRANTY OF ANY KIND, EXPRESS OR
IMPLIED, INCLUDING BUT NOT LIMITED TO THE WARRANTIES OF MERCHANTABILITY,
FITNESS FOR A PARTICULAR PURPOSE AND NONINFRINGEMENT. IN NO EVENT SHALL THE
AUTHORS OR COPYRIGHT HOLDERS BE LIABLE FOR ANY CLAIM, DAMAGES OR OTHER
LIABILITY, WHETHER IN AN ACTION OF CONTRACT, TORT OR OTHERWISE, ARISING FROM,
OUT OF OR IN CONNECTION WITH THE SOFTWARE OR THE USE OR OTHER DEALINGS IN THE
SOFTWARE.

Contact Info: cweir@vt.edu

"""


# Including this to print error message if python < 3.0 is used
from __future__ import print_function
import sys
# Check for python3 and error out if not
if sys.version_info[0] < 3:
    print("This program requires Python 3.x", file=sys.stderr)
    sys.exit(1)

# Global imports
import argparse
import os
import configparser # Used to save/load status of guessing sessions
import datetime

# Local imports
from lib_guesser.banner_info import print_banner
from lib_guesser.pcfg_grammar import PcfgGrammar
from lib_guesser.cracking_session import CrackingSession
from lib_guesser.honeyword_session import HoneywordSession


def parse_command_line(program_info):
    """
    Responsible for parsing the command line.

    Note: This is a fairly standardized format that I use in many of my programs

    Inputs:

        program_info: A dictionary that contains the default values of
        command line options. Results overwrite the default values and the
        dictionary is returned after this function is done.

    Returns:
        True: If the command line was parsed successfully

        False: If an error occured parsing the command line

        (Program Exits): If the --help option is specified on the command line
    """

    # Keeping the title text to be generic to make re-using code easier
    parser = argparse.ArgumentParser(
        description = f"{program_info['name']}, version: {program_info['version']}"
    )

    ## Standard options for ruleset, etc
    #
    # The rule name to load the grammar from. Should be saved under the
    # 'Rules' folder. This rule needs to have been previously created by
    # the pcfg 'trainer.py' program.
    parser.add_argument(
        '--rule',
        '-r',
        help = f"The ruleset to use. Default is {program_info['rule_name']}",
        metavar = 'RULESET_NAME',
        required = False,
        default = program_info['rule_name']
    )

    parser.add_argument(
        '--session',
        '-s',
        help = f"Session name. Used for saving/restoring sessions Default is {program_info['session_name']}",
        metavar = 'SESSION_NAME',
        required = False,
        default = program_info['session_name']
    )

    parser.add_argument(
        '--load',
        '-l',
        help='Loads a previous guessing session',
        dest='load',
        action='store_const',
        const= not program_info['load_session'],
        default = program_info['load_session']
    )

    # Advanced options

    parser.add_argument(
        '--limit',
        '-n',
        help='Generate N guesses and then exit. This can be used for wordlist generation and/or research evaluation',
        type=int,
        default=program_info['limit']
    )

    parser.add_argument(
        '--skip_brute',
        help='Do not perform Markov based guesses using OMEN. This is useful ' +
            'if you are running a seperate dedicated Markov based attack',
        dest='skip_brute',
        action='store_const',
        const= not program_info['skip_brute'],
        default = program_info['skip_brute']
    )

    parser.add_argument(
        '--all_lower',
        help='Only generate lowercase guesses. No case mangling. (Setting is currently not applied to OMEN generated guesses)',
        dest='skip_case',
        action='store_const',
        const= not program_info['skip_case'],
        default = program_info['skip_case']
    )

    # Debugging and research information
    parser.add_argument(
        '--debug',
        '-d',
        help='Prints out debugging info vs guesses.',
        dest='debug',
        action='store_const',
        const= not program_info['debug'],
        default = program_info['debug']
    )

    parser.add_argument(
        '--mode',
        '-m',
        help = f"Method in which guesses are generated Default is '{program_info['cracking_mode']}'" +
            f" Supported Modes: {program_info['supported_modes']}",
        metavar = 'MODE',
        required = False,
        default = program_info['cracking_mode'],
        choices = program_info['supported_modes']
    )

    # Parse all the args and save them
    args=parser.parse_args()

    # Which parsed argument goes into which field of program_info
    saved_options = (
        # Standard Options
        ('rule_name', 'rule'), ('session_name', 'session'), ('load_session', 'load'),
        # Advanced Options
        ('limit', 'limit'), ('skip_brute', 'skip_brute'), ('skip_case', 'skip_case'),
        ('cracking_mode', 'mode'),
        # Debugging Options
        ('debug', 'debug'),
    )
    for field, argument in saved_options:
        program_info[field] = getattr(args, argument)

    # Check validity of options
    limit = program_info['limit']
    if limit and 0 >= limit:
        print(f"The guess --limit/-n must be a positive number. The value specified was {limit}", file=sys.stderr)
        return False

    return True


def main():
    """
    Main function, starts everything off

    Inputs:
        None

    Returns:
        None
    """

    # Information about this program
    program_info = {

        # Program and Contact Info
        'name':'PCFG Guesser',
        'version': '4.7',
        'author':'Matt Weir',
        'contact':'cweir@vt.edu',

        # Standard Options
        'rule_name':'Default',
        'session_name':'default_run',
        'load_session':False,
        'limit': None,

        # Cracking Mode options
        'cracking_mode':'true_prob_order',
        'supported_modes':['true_prob_order', 'random_walk', 'honeywords'],

        # Advanced Options
        'skip_brute': False,
        'skip_case': False,

        # Debugging Options
        'debug': False,

    }

    print_banner()
    print("Version: " + str(program_info['version']),file=sys.stderr)
    print('',file=sys.stderr)

    # Parsing the command line
    if not parse_command_line(program_info):
        # There was a problem with the command line so exit
        print("Exiting...",file=sys.stderr)
        return

    # The configfile to load/save the guessing session status
    save_filename = os.path.join(
                        os.path.dirname(os.path.realpath(__file__)),
                        program_info['session_name'] + '.sav'
                        )

    # If restoring a session, read the save file before the grammar is loaded.
    # It holds the ruleset name and the skip_brute / all_lower flags of the
    # saved session, and those decide which grammar has to be loaded
    save_config = None
    if program_info['cracking_mode'] == 'true_prob_order' and program_info['load_session']:
        print("Restoring previous session: " + program_info['session_name'],file=sys.stderr)
        save_config = load_save(save_filename, program_info)

        # Check to make sure it is valid
        if save_config is None:
            print("Exiting...",file=sys.stderr)
            return

    # Get the base directory to load all of the rules from
    #
    # Don't want to use the relative path since who knows where someone is
    # invoking this script from
    #
    # Also aiming to make this OS independent
    #
    base_directory = os.path.join(
                        os.path.dirname(os.path.realpath(__file__)),
                        'Rules',
                        program_info['rule_name']
                        )

    # Create the grammar
    #
    # Note, if the ruleset can not be loaded, (for example it doesn't exist),
    # it will throw an exception.
    try:
        print("Loading Ruleset: " + str(program_info['rule_name']),file=sys.stderr)
        print('',file=sys.stderr)
        pcfg = PcfgGrammar(
            program_info['rule_name'],
            base_directory,
            program_info['version'],
            save_filename,
            skip_brute = program_info['skip_brute'],
            skip_case = program_info['skip_case'],
            debug = program_info['debug']
            )

    except:
        print("Exiting", file=sys.stderr)
        return

    # Initiate cracking mode specific features
    if program_info['cracking_mode'] == 'true_prob_order':
        # Check to see if we need to load up a previous guessing session
        # (the save file, if any, was already loaded above)

        # Create a new save config
        # It's easeir to just create a default config even if a non-supported guessing mode like honeywords was selected
        if not program_info['load_session']:
            save_config = create_save_config(program_info)

        # Check to make the ruleset is the same if restoring a guessing session
        if save_config.has_option('rule_info','uuid'):
            # Looks like the rule was changed since the last session
            if save_config['rule_info']['uuid'] != pcfg.ruleset_info['uuid']:
                print("Error: The UUID of the save file and the loaded rules do not match",file=sys.stderr)
                print("       This normally happens if you retrain a ruleset and then try to restore an old session",file=sys.stderr)
                print("       Expected UUID: " + str(save_config['rule_info']['uuid']), file=sys.stderr)
                print("       Found UUID: " + str(pcfg.ruleset_info['uuid']), file=sys.stderr)
                print("Exiting...",file=sys.stderr)
                return

        # Initalize the rule UUID for a new guessing session
        else:
            save_config.set('rule_info', 'uuid', pcfg.ruleset_info['uuid'])

        # Initalize the cracking session
        current_cracking_session = CrackingSession(pcfg, save_config, save_filename)

        # Setup is done, now start generating rules
        current_cracking_session.run(load_session = program_info['load_session'], limit = program_info['limit'])

    elif program_info['cracking_mode'] in ['random_walk', 'honeywords']:
        current_cracking_session = HoneywordSession(pcfg, program_info['cracking_mode'])
        # Setup is done, now start generating rules
        current_cracking_session.run(limit = program_info['limit'])


def create_save_config(program_info):
    """
    Creates the configparser object that will be used to save/load sessions

    Inputs:
        program_info: A dictionary containing information about the current session

    Returns:
        save_config: A configparser containing some of the values to save

    """

    save_config = configparser.ConfigParser()

    section = "rule_info"
    save_config.add_section(section)
    save_config.set(section, 'rule_name', program_info['rule_name'])
    save_config.set(section, 'skip_brute', str(program_info['skip_brute']))
    save_config.set(section, 'skip_case', str(program_info['skip_case']))

    section = "session_info"
    save_config.add_section(section)
    save_config.set(section, 'first_started', datetime.datetime.now().isoformat())

    section = "guessing_info"
    save_config.add_section(section)

    return save_config


def load_save(save_filename, program_info):
    """
    Loads a configparser object containing info about a saved guessing session

    Inputs:
        base_directory: The directory to load the save file from

        program_info: A dictionary containing information about the current session

    Returns:
        save_config: A configparser containing some of the values to save

    """

    save_config = configparser.ConfigParser()

    try:
        save_config.read_file(open(save_filename))

        ## Check to make sure it is well formed
        #
        if not save_config.has_option('rule_info', 'rule_name'):
            raise configparser.Error('Missing rule_name')
        if not save_config.has_option('rule_info','uuid'):
            raise configparser.Error('Missing rule uuid')
        if not save_config.has_option('rule_info','skip_brute'):
            raise configparser.Error('Missing the skip_brute flag for session')
        if not save_config.has_option('rule_info','skip_case'):
            raise configparser.Error('Missing the skip_case flag for session')
        if not save_config.has_option('session_info','last_updated'):
            raise configparser.Error('Missing last_updated')

        # Set the ruleset info
        program_info['rule_name'] = save_config.get('rule_info','rule_name')

        # Set the skip_brute flag
        program_info['skip_brute'] = save_config.getboolean('rule_info','skip_brute')

        # Set the skip_case flag for not doing case mangling
        program_info['skip_case'] = save_config.getboolean('rule_info','skip_case')

        return save_config

    except IOError as msg:
        print("Could not open the session save file.",file=sys.stderr)
        print("Save File: " + save_filename,file=sys.stderr)
        return None
    except configparser.Error as msg:
        print("Error occured parsing the save file: " + str(msg),file=sys.stderr)
        return None


if __name__ == "__main__":
    main()
