#!/bin/sh
# run_one.sh <edit>.diff <Cxx> : the whole quick check of property Cxx on a scratch copy of the project with the edit
# applied (PCFG_REPO); prints the last line of the check and, for a violation, what the replay file says.
set -u
HERE="$(cd "$(dirname "$0")" && pwd)"; ROOT="$(cd "$HERE/../../.." && pwd)"
D="$1"; P="$2"; N="$(basename "$D" .diff)"; SC="/tmp/sc_R17_$N"; OUT="/tmp/sc_R17_out_$N"
git -C /repo worktree add --detach "$SC" HEAD >/dev/null 2>&1 || { echo "$N: cannot create scratch copy"; exit 2; }
( cd "$SC" && grep -v '^#' "$HERE/$N.diff" | patch -p1 -s ) || { echo "$N: patch failed"; git -C /repo worktree remove --force "$SC"; exit 2; }
cd "$ROOT"
ALL=$(PCFG_REPO="$SC" PCFG_OUT="$OUT" ./check "$P" --tier quick 2>&1 | grep -v conda | tail -12); LAST=$(echo "$ALL" | tail -1); echo "$ALL" | grep "VIOLATION property" | cut -c1-300
echo "$N $P: $LAST"
R=$(echo "$ALL" | grep "VIOLATION property" | head -1 | grep -o 'replay=[^ ]*' | cut -d= -f2)
R="$OUT/$R"
if [ -f "$R" ]; then
  /venv/bin/python - "$R" <<'PY'
import json, sys
d = json.load(open(sys.argv[1]))
print("   replay:", json.dumps(d)[:900])
PY
fi
git -C /repo worktree remove --force "$SC" >/dev/null 2>&1; rm -rf "$OUT"
