#!/venv/bin/python
"""Writes the edits of pcfg_guesser.py used to test the translator tie of task T17 as unified diffs
(m*.diff: semantic mutations that must raise an alarm; h*.diff: harmless edits that must not).
    python make_diffs.py [repo]      (default /repo; nothing is written there)"""
import difflib
import os
import sys

REPO = sys.argv[1] if len(sys.argv) > 1 else "/repo"
HERE = os.path.dirname(os.path.abspath(__file__))
SRC = open(os.path.join(REPO, "pcfg_guesser.py"), encoding="utf-8").read()


def rep(s, old, new, count=1):
    assert s.count(old) >= 1, old
    return s.replace(old, new, count)


EDITS = {}

# ---- mutations
LOAD_BLOCK = SRC[SRC.index("    # If restoring a session, read the save file before the grammar is loaded."):SRC.index("    # Get the base directory to load all of the rules from")]
s = SRC.replace(LOAD_BLOCK, "    save_config = None\n")
s = rep(s, "    # Initiate cracking mode specific features\n", LOAD_BLOCK.replace("    save_config = None\n", "") + "    # Initiate cracking mode specific features\n")
EDITS["m1_load_save_after_grammar"] = ("load_save is called after the grammar is built (the defect R3)", s)

s = rep(SRC, "program_info['skip_brute'] = save_config.getboolean('rule_info','skip_brute')",
        "program_info['skip_brute'] = program_info['skip_brute'] or save_config.getboolean('rule_info','skip_brute')")
EDITS["m2_typed_flag_wins"] = ("a typed --skip_brute wins over the saved flag", s)

s = rep(SRC, "'skip_case': False,", "'skip_case': True,")
EDITS["m3_toggle_default_flipped"] = ("default of the all_lower toggle flipped (store_const then stores False)", s)

s = rep(SRC, "program_info['skip_brute'] = save_config.getboolean('rule_info','skip_brute')",
        "program_info['skip_brute'] = save_config.get('rule_info','skip_brute')")
EDITS["m4_getboolean_to_get"] = ("getboolean replaced by get: the string 'False' is truthy", s)

s = rep(SRC, "        # Initalize the cracking session\n",
        "        if program_info['load_session']:\n            program_info['limit'] = None\n\n        # Initalize the cracking session\n")
EDITS["m5_limit_dropped_on_load"] = ("the limit is dropped when a session is restored", s)

s = rep(SRC, """    save_filename = os.path.join(
                        os.path.dirname(os.path.realpath(__file__)),
                        program_info['session_name'] + '.sav'
                        )
""", """    session_file = program_info['session_name']
    if '.' not in session_file:
        session_file = session_file + '.sav'
    save_filename = os.path.join(
                        os.path.dirname(os.path.realpath(__file__)),
                        session_file
                        )
""")
EDITS["m6_sav_only_without_extension"] = ("'.sav' appended only when the session name has no extension", s)

s = rep(SRC, "if save_config['rule_info']['uuid'] != pcfg.ruleset_info['uuid']:", "if save_config['rule_info']['uuid'] == pcfg.ruleset_info['uuid']:")
EDITS["m7_uuid_test_flipped"] = ("uuid comparison flipped", s)

s = rep(SRC, "    program_info['skip_case'] = args.skip_case\n", "")
EDITS["m8_store_dropped"] = ("statement dropped: --all_lower is parsed but never stored", s)

s = rep(SRC, "        '-n',\n", "        '-n',\n        dest='limit',\n        action='store_const',\n        const=1,\n")
s = rep(s, "        type=int,\n", "")
EDITS["m9_limit_becomes_flag"] = ("--limit turned into a store_const flag (takes no value)", s)

s = rep(SRC, "if program_info['limit'] and program_info['limit'] <= 0:", "if program_info['limit'] and program_info['limit'] >= 0:")
EDITS["m10_limit_test_flipped"] = ("--limit validation flipped (positive limits are refused)", s)

s = rep(SRC, '        print("Exiting...",file=sys.stderr)\n        return\n\n    # The configfile', '        print("Exiting...")\n        return\n\n    # The configfile')
EDITS["m11_print_to_stdout"] = ("an error message of main goes to stdout", s)

# ---- harmless edits
s = rep(SRC, "    # Parsing the command line\n", "    # Parse the command line first: everything below depends on the options\n\n")
s = rep(s, '    """\n    Main function, starts everything off\n', '    """\n    Entry point of the guesser (documentation reworded)\n')
s = rep(s, "    save_config = configparser.ConfigParser()\n\n    try:", "    save_config = configparser.ConfigParser()   # empty config\n\n\n    try:")
EDITS["h1_comments_docstrings"] = ("comments, a docstring and blank lines changed", s)

s = SRC
i = s.index("def load_save(")
s = s[:i] + s[i:].replace("save_config", "cfg").replace("program_info", "info").replace("save_filename", "path")
j, k = s.index("def main():"), s.index("def create_save_config(")
s = s[:j] + s[j:k].replace("base_directory", "rules_dir").replace("current_cracking_session", "session").replace("pcfg", "grammar_obj").replace("grammar_obj.ruleset_info", "grammar_obj.ruleset_info") + s[k:]
s = s.replace("from lib_guesser.grammar_obj_grammar import PcfgGrammar", "from lib_guesser.pcfg_grammar import PcfgGrammar")
a, b = s.index("def parse_command_line("), s.index("def main():")
s = s[:a] + s[a:b].replace("args", "ns").replace("parser.parse_ns()", "parser.parse_args()") + s[b:]
EDITS["h2_locals_renamed"] = ("local variables and a parameter renamed (load_save, main, parse_command_line)", s)

s = rep(SRC, "if program_info['limit'] and program_info['limit'] <= 0:", "if program_info['limit'] and program_info['limit'] < 0:")
EDITS["h3_limit_test_lt"] = ("`limit <= 0` -> `limit < 0` behind `limit and`: same function, provably", s)

s = rep(SRC, """        pcfg = PcfgGrammar(
            program_info['rule_name'],
            base_directory,
            program_info['version'],
            save_filename,
            skip_brute = program_info['skip_brute'],
            skip_case = program_info['skip_case'],
            debug = program_info['debug']
            )
""", """        pcfg = PcfgGrammar(program_info['rule_name'], base_directory, program_info['version'], save_file = save_filename,
                           skip_brute = program_info['skip_brute'], skip_case = program_info['skip_case'], debug = program_info['debug'])
""")
s = rep(s, '        print("Exiting...",file=sys.stderr)\n        return\n\n    # The configfile', '        print("Bad command line.", file = sys.stderr)\n        print("Exiting...",file=sys.stderr)\n        return None\n\n    # The configfile')
s = rep(s, "    elif program_info['cracking_mode'] in ['random_walk', 'honeywords']:\n        current_cracking_session = HoneywordSession(pcfg, program_info['cracking_mode'])\n        # Setup is done, now start generating rules\n        current_cracking_session.run(limit = program_info['limit'])",
        "    else:\n        if program_info['cracking_mode'] in ['random_walk', 'honeywords']:\n            current_cracking_session = HoneywordSession(pcfg, program_info['cracking_mode'])\n            current_cracking_session.run(limit = program_info['limit'])")
EDITS["h4_reformatted"] = ("calls reformatted, keyword for a positional argument, an extra stderr message, `return None`, elif -> else/if", s)

s = rep(SRC, "        'debug': False,\n\n    }", "        'debug': False,\n\n        # Not used by the guesser itself\n        'homepage': 'https://github.com/lakiw/pcfg_cracker',\n\n    }")
s = rep(s, "'version': '4.7'", "'version': '4.8'")
EDITS["h5_dict_entry_version"] = ("an unused key added to program_info, version string bumped", s)

# ---- the table-loop shape of load_save (refactoring seeded/harmless/H0-3) and mutations of it
CHECKS = SRC[SRC.index("        if not save_config.has_option('rule_info', 'rule_name'):"):SRC.index("        # Set the ruleset info")]
TABLE = """        required_options = [
            ('rule_info', 'rule_name', 'Missing rule_name'),
            ('rule_info', 'uuid', 'Missing rule uuid'),
            ('rule_info', 'skip_brute', 'Missing the skip_brute flag for session'),
            ('rule_info', 'skip_case', 'Missing the skip_case flag for session'),
            ('session_info', 'last_updated', 'Missing last_updated'),
        ]
        for section, option, error_message in required_options:
            if not save_config.has_option(section, option):
                raise configparser.Error(error_message)

"""
T = rep(SRC, CHECKS, TABLE)
EDITS["h6_table_loop"] = ("the five has_option checks of load_save as a loop over a table of constant tuples (H0-3)", T)
EDITS["m12_table_row_dropped"] = ("table-loop shape, the ('rule_info', 'uuid', ...) row dropped: a save file without uuid is resumed", rep(T, "            ('rule_info', 'uuid', 'Missing rule uuid'),\n", ""))
EDITS["m13_table_has_option_swapped"] = ("table-loop shape, has_option(option, section)", rep(T, "save_config.has_option(section, option)", "save_config.has_option(option, section)"))
# shapes the unroller must NOT accept (quick_probe must say REFUSED)
EDITS["r1_table_indexed"] = ("table-loop shape, the table is also indexed", rep(T, "        for section, option, error_message in required_options:", "        first = required_options[0]\n        for section, option, error_message in required_options:"))
EDITS["r2_table_mutated"] = ("table-loop shape, a row is appended before the loop", rep(T, "        for section, option, error_message in required_options:", "        required_options.append(('guessing_info', 'x', 'y'))\n        for section, option, error_message in required_options:"))
EDITS["r3_table_not_constant"] = ("table-loop shape, one element is not a constant", rep(T, "('rule_info', 'uuid', 'Missing rule uuid')", "('rule_info', 'uu' + 'id', 'Missing rule uuid')"))
EDITS["r4_loop_var_after_loop"] = ("table-loop shape, a loop variable is read after the loop", rep(T, "                raise configparser.Error(error_message)\n\n", "                raise configparser.Error(error_message)\n        print(option, file=sys.stderr)\n\n"))
EDITS["r5_table_iterated_twice"] = ("table-loop shape, the table is iterated by two loops", rep(T, "        for section, option, error_message in required_options:", "        for s2, o2, e2 in required_options:\n            print(e2, file=sys.stderr)\n        for section, option, error_message in required_options:"))

# ---- second round of refactorings (H7 harmless_2 / harmless_3, pcfg_guesser.py part; the refactored sources are kept in shapes/)
S2 = open(os.path.join(HERE, "shapes", "H7_2_pcfg_guesser.py"), encoding="utf-8").read()
S3 = open(os.path.join(HERE, "shapes", "H7_3_pcfg_guesser.py"), encoding="utf-8").read()
EDITS["h7_script_dir_fstring_flat_uuid_flag_loop"] = ("H7/harmless_2: script directory in a local, f-string for the save file name, flattened uuid test, the two flags written by a loop over ('skip_brute', 'skip_case')", S2)
EDITS["h8_getattr_table_fstrings_limit_local"] = ("H7/harmless_3: f-strings in help / description, (field, argument) table with a getattr loop, `limit` local and `0 >= limit`", S3)
EDITS["m14_fstring_wrong_field"] = ("H7/harmless_2 shape, the f-string of the save file name formats rule_name instead of session_name", rep(S2, "f\"{program_info['session_name']}.sav\"", "f\"{program_info['rule_name']}.sav\""))
EDITS["m15_flag_loop_same_flag_twice"] = ("H7/harmless_2 shape, the flag loop runs over ('skip_brute', 'skip_brute'): skip_case is never saved", rep(S2, "for flag in ('skip_brute', 'skip_case'):", "for flag in ('skip_brute', 'skip_brute'):"))
EDITS["m16_flat_uuid_test_inverted"] = ("H7/harmless_2 shape, `if not has_option(uuid)` loses its `not`", rep(S2, "if not save_config.has_option('rule_info','uuid'):", "if save_config.has_option('rule_info','uuid'):"))
EDITS["m17_getattr_table_crossed"] = ("H7/harmless_3 shape, the table stores skip_brute into skip_case and vice versa", rep(S3, "('skip_brute', 'skip_brute'), ('skip_case', 'skip_case'),", "('skip_brute', 'skip_case'), ('skip_case', 'skip_brute'),"))
EDITS["m18_flipped_limit_test"] = ("H7/harmless_3 shape, `0 >= limit` -> `0 <= limit`", rep(S3, "if limit and 0 >= limit:", "if limit and 0 <= limit:"))
EDITS["m19_rules_folder_dropped"] = ("H7/harmless_2 shape, base_directory = os.path.join(script_directory, rule_name) without 'Rules'", rep(S2, "                        script_directory,\n                        'Rules',\n", "                        script_directory,\n"))

for name, (what, text) in EDITS.items():
    d = "".join(difflib.unified_diff(SRC.splitlines(True), text.splitlines(True), "a/pcfg_guesser.py", "b/pcfg_guesser.py"))
    assert d, name
    with open(os.path.join(HERE, name + ".diff"), "w", encoding="utf-8") as f:
        f.write("# %s\n" % what)
        f.write(d)
print("\n".join(sorted(EDITS)))
