#!/bin/sh
# run_all.sh : every edit through the whole quick check of the property it concerns (about 40 minutes; run_one.sh and
# quick_probe.sh do one edit).  Output: what RESULTS.txt was written from.
HERE="$(cd "$(dirname "$0")" && pwd)"; cd "$HERE"
for x in "m1_load_save_after_grammar C14" "m2_typed_flag_wins C14" "m3_toggle_default_flipped C14" "m4_getboolean_to_get C14" \
         "m5_limit_dropped_on_load C09" "m6_sav_only_without_extension C08" "m7_uuid_test_flipped C08" "m8_store_dropped C14" \
         "m9_limit_becomes_flag C09" "m10_limit_test_flipped C09" "m11_print_to_stdout C09" \
         "h1_comments_docstrings C09" "h2_locals_renamed C14" "h3_limit_test_lt C09" "h4_reformatted C08" "h5_dict_entry_version C14"; do
  set -- $x
  ./run_one.sh "$1.diff" "$2" 2>&1 | grep -v conda | cut -c1-1200
done
# restore the generated files of the worktree from the unchanged tree
cd "$HERE/../../.." && ./check C14 --tier quick 2>&1 | tail -1
