#!/bin/sh
# Re-runs, after the follow-up R13 (helper inlining / list concatenation in translate_detect2.py, counting helper in
# translate_detect.py), the two refactorings (h*), the new mutations (n*: a refactoring + one semantic change) and the
# earlier mutations of docs/tie_tests/T13 (multiword) and T4 (parse order) that touch the same translators.
#   sh run_all.sh [scratch-number]      results appended to RESULTS_raw.txt
HERE="$(cd "$(dirname "$0")" && pwd)"
VERIF="$(cd "$HERE/../../.." && pwd)"
N="${1:-2}"
SC=/tmp/sc_R13_$N
OUT=/tmp/sc_R13_out_$N
RAW="$HERE/RESULTS_raw.txt"
git -C /repo worktree add --detach "$SC" HEAD >/dev/null 2>&1
for d in "$HERE"/h0*.diff "$HERE"/n0*.diff "$HERE"/../T13/m0[1-7]*.diff "$HERE"/../T13/t0[12]*.diff "$HERE"/../T4/m09*.diff; do
    name="$(basename "$d" .diff)"
    git -C "$SC" checkout -q . && git -C "$SC" clean -fdq
    grep -v '^# ' "$d" | git -C "$SC" apply --whitespace=nowarn - || { echo "$name: the diff does not apply" >> "$RAW"; continue; }
    rm -rf "$OUT"
    ( cd "$VERIF" && PCFG_REPO="$SC" PCFG_OUT="$OUT" timeout 900 ./check C05 --tier quick ) > "$OUT.log" 2>&1
    {
        echo "== $name"
        grep -v "WARNING conda" "$OUT.log" | grep "^VIOLATION\|no longer checks\|-> OK\|-> VIOLATION" | cut -c1-600
    } >> "$RAW"
done
git -C /repo worktree remove --force "$SC"
rm -rf "$OUT" "$OUT.log"
( cd "$VERIF" && ./check C05 --tier quick ) | tail -1 >> "$RAW"
