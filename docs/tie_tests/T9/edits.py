#!/venv/bin/python
"""Tie tests of the reader translator (T9): edits of lib_trainer/trainer_file_input.py applied to a
scratch worktree of /repo.  `edits.py <name> <tree>` applies one edit; `edits.py --list` lists them.
M* = semantic mutations (the check must report VIOLATION), H* = harmless rewrites (the check must
print -> OK), R* = rewrites outside the translator's subset (fail closed: VIOLATION
no-failing-input-found naming the refused construct, unless the oracle finds an input)."""
import re
import sys

F = "lib_trainer/trainer_file_input.py"


def sub(src, old, new, count=1):
    if src.count(old) < 1:
        raise SystemExit("pattern not found: %r" % old)
    return src.replace(old, new, count)


def M1(s):   # split(None, 1) for the count prefix
    s = sub(s, "n = int(clean_password.lstrip().split(' ')[0])", "n = int(clean_password.lstrip().split(None, 1)[0])")
    return sub(s, "clean_password = ' '.join(clean_password.lstrip().split(' ')[1:])",
               "clean_password = ' '.join(clean_password.lstrip().split(None, 1)[1:])")


def M2(s):   # check_valid before the hex decoding
    s = sub(s, """                # Checks to see if the password is valid
                if not check_valid(clean_password):
                    continue

""", "")
    return sub(s, """                # Check for a $HEX[] encoded password    
""", """                # Checks to see if the password is valid
                if not check_valid(clean_password):
                    continue

                # Check for a $HEX[] encoded password    
""")


def M3(s):   # find("]") instead of the final bracket
    return sub(s, "bytes.fromhex(clean_password[5:-1])", "bytes.fromhex(clean_password[5:clean_password.find(']')])")


def M4(s):   # isprintable() instead of the explicit list
    a = s.index("    #Invalid characters at the begining of the ASCII table")
    b = s.index("    return True\n\n\nclass TrainerFileInput")
    return s[:a] + "    if not input_password.isprintable():\n        return False\n\n" + s[b:]


def M5(s):   # count parsed but the password yielded once
    return sub(s, "                for x in range(0, n):\n                    yield clean_password",
               "                yield clean_password")


def M6(s):   # U+2029 dropped from the rejected list
    a = s.index("    # UTF-8 Paragraph Seperator.")
    b = s.index("    # UTF-8 NEL Line seperator")
    return s[:a] + s[b:]


def M7(s):   # bad $HEX payload counted once instead of n times
    return sub(s, """                    except:
                        self.num_encoding_errors += n""", """                    except:
                        self.num_encoding_errors += 1""")


def M8(s):   # dropped statement: num_passwords no longer counted
    return sub(s, "                self.num_passwords += n\n", "                pass\n")


def M9(s):   # off-by-one in the $HEX payload slice
    return sub(s, "clean_password[5:-1]", "clean_password[5:-2]")


def M10(s):  # dropped `continue`: an unencodable line is counted AND trained on
    return sub(s, """                        self.num_encoding_errors += n
                    continue

                # Checks to see""", """                        self.num_encoding_errors += n

                # Checks to see""")


def M11(s):  # range(1, n): one copy too few
    return sub(s, "for x in range(0, n):", "for x in range(1, n):")


def M12(s):  # flipped test: the blank-password rejection inverted into `!= 0` guard on the TAB test only
    return sub(s, '    if "\\t" in input_password:\n        return False\n', '    if "\\t" not in input_password:\n        return True\n')


def M13(s):  # reordered: the line end is stripped after the count prefix is split off (a trailing CR stays in the password)
    s = sub(s, "                clean_password = password.rstrip('\\r\\n')  \n", "                clean_password = password\n")
    return sub(s, "                # Check for a $HEX[] encoded password    \n",
               "                clean_password = clean_password.rstrip('\\n')\n                # Check for a $HEX[] encoded password    \n")


def H1(s):   # comments, docstring, blank lines
    s = sub(s, "        # Read an input password from the training set\n", "        # Read the next line of the training file.\n\n\n        # (reworded comment)\n")
    s = sub(s, "Returns one password from the training set. If there are no more passwords returns None", "Generator over the passwords of the training set")
    return sub(s, "    # Don't accept blank passwords for training.\n", "    # Blank passwords are not trained on\n\n")


def H2(s):   # locals renamed
    a = s.index("    def read_password(self):")
    head, body = s[:a], s[a:]
    for old, new in (("clean_password", "pw"), ("password", "line"), ("more", "nxt"), ("n", "count"), ("x", "i"),
                     ("msg", "err"), ("error", "exc")):
        body = re.sub(r"(?<![\\\w])%s(?!\w)" % old, new, body)     # not inside an escape like \n
    body = body.replace("self.num_lines", "self.num_passwords").replace("num_lines", "num_passwords")
    head = head.replace("invalid_hex", "code")
    return head + body


def H3(s):   # equivalent reformatting
    s = sub(s, "self.num_encoding_errors += 1", "self.num_encoding_errors = self.num_encoding_errors + 1")
    s = sub(s, "                    if more == '':\n", "                    if not more:\n")
    s = sub(s, "                    password += more\n", "                    password = password + more\n")
    s = sub(s, "                if self.prefixcount == True:\n", "                if self.prefixcount:\n")
    s = sub(s, "                if password == \"\":\n", "                if not password:\n")
    s = sub(s, "                if clean_password.startswith(\"$HEX[\") and clean_password.endswith(\"]\"):",
            "                if (clean_password.startswith(\"$HEX[\")\n                        and clean_password.endswith(\"]\")):")
    s = sub(s, "                if not check_valid(clean_password):\n                    continue\n",
            "                if check_valid(clean_password):\n                    pass\n                else:\n                    continue\n")
    return sub(s, "    if len(input_password) == 0:\n", "    if 0 == len(input_password):\n")


EDITS = {k: v for k, v in globals().items() if re.match(r"^[MHR]\d+$", k)}

if __name__ == "__main__":
    if sys.argv[1] == "--list":
        print(" ".join(sorted(EDITS, key=lambda k: (k[0], int(k[1:])))))
        raise SystemExit
    name, tree = sys.argv[1], sys.argv[2]
    p = tree + "/" + F
    with open(p, encoding="utf-8", newline="") as f:
        raw = f.read()
    crlf = "\r\n" in raw            # the file has CRLF line ends: edit with LF, write back what was there
    src = raw.replace("\r\n", "\n")
    out = EDITS[name](src)
    if out == src:
        raise SystemExit("edit %s changed nothing" % name)
    with open(p, "w", encoding="utf-8", newline="") as f:
        f.write(out.replace("\n", "\r\n") if crlf else out)
