#!/venv/bin/python
"""Fail-closed behaviour of harness/translate_reader.py: rewrites of trainer_file_input.py that leave
its accepted subset must be refused with file:line (nothing is imported or executed).  Writes
refusals.txt.  Run from anywhere:  /venv/bin/python docs/tie_tests/T9/refusals.py"""
import os
import shutil
import sys
import tempfile

HERE = os.path.dirname(os.path.abspath(__file__))
sys.path.insert(0, os.path.join(HERE, "..", "..", "..", "harness"))
import translate_reader as T  # noqa: E402

SRC = open("/repo/" + T.SOURCE, encoding="utf-8", newline="").read().replace("\r\n", "\n")

CASES = [
    ("with statement", "                if password == \"\":\n", "                with open('/dev/null') as f:\n                    pass\n                if password == \"\":\n"),
    ("unsupported str method", "password.rstrip('\\r\\n')", "password.rstrip('\\r\\n').upper()"),
    ("split on white space", ".split(' ')[0]", ".split()[0]"),
    ("local read before assignment", "                    n = 1\n", "                    n = n\n"),
    ("check_valid rebound in the module", "class TrainerFileInput:", "check_valid = lambda s: True\n\n\nclass TrainerFileInput:"),
    ("codecs.open with errors='strict'", "errors= 'surrogateescape'", "errors= 'strict'"),
    ("unknown attribute", "self.num_passwords += n", "self.num_passwords += n\n                self.total = n"),
    ("isprintable in check_valid", "    if \"\\t\" in input_password:", "    if not input_password.isprintable():"),
    ("second handler", "                except UnicodeError:\n                    self.num_encoding_errors += 1",
     "                except KeyError:\n                    pass\n                except UnicodeError:\n                    self.num_encoding_errors += 1"),
    ("value returned from the generator", "                    return None\n", "                    return 0\n"),
    ("while ... else", "                    password += more\n", "                    password += more\n                else:\n                    pass\n"),
    ("code after continue", "                        self.num_encoding_errors += n\n                        continue\n",
     "                        continue\n                        self.num_encoding_errors += n\n"),
]


def main():
    out = []
    for name, old, new in CASES:
        if old not in SRC:
            out.append("%-40s PATTERN NOT FOUND" % name)
            continue
        d = tempfile.mkdtemp(prefix="t9ref_")
        try:
            os.makedirs(os.path.join(d, "lib_trainer"))
            with open(os.path.join(d, T.SOURCE), "w", encoding="utf-8", newline="") as f:
                f.write(SRC.replace(old, new, 1))
            try:
                T.render(d)
                out.append("%-40s ACCEPTED (not refused)" % name)
            except T.TranslateError as e:
                out.append("%-40s refused: %s" % (name, str(e).replace(d, "<tree>")[:230]))
            except SyntaxError as e:
                out.append("%-40s syntax error in the test edit: %s" % (name, e))
        finally:
            shutil.rmtree(d)
    txt = "\n".join(out) + "\n"
    open(os.path.join(HERE, "refusals.txt"), "w").write(txt)
    sys.stdout.write(txt)


if __name__ == "__main__":
    main()
