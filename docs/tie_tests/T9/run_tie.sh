#!/bin/bash
# usage: run_tie.sh <case> [properties...]     (default: C19 C07)
#   <case> = an edit of edits.py (M1.., H1..) or the path of a patch file (applied with git apply IN THE SCRATCH COPY only)
# Creates a scratch worktree of /repo, applies the edit there, runs the quick checks against it
# (PCFG_REPO), stores the diff as <case>.diff and the verdict lines as <case>.result, removes the scratch copy.
set -u
HERE="$(cd "$(dirname "$0")" && pwd)"
ROOT="$(cd "$HERE/../../.." && pwd)"
CASE="$1"; shift
PROPS="${*:-C19 C07}"
NAME="$(basename "$CASE" .diff)"
[ -f "$CASE" ] && NAME="$(basename "$(dirname "$CASE")")"
SC="/tmp/sc_T9_$NAME"
OUT="/tmp/sc_T9_out_$NAME"
git -C /repo worktree remove --force "$SC" >/dev/null 2>&1
rm -rf "$SC" "$OUT"
git -C /repo worktree add --detach "$SC" HEAD >/dev/null 2>&1 || { echo "cannot create $SC"; exit 2; }
if [ -f "$CASE" ]; then
  git -C "$SC" apply "$CASE" || { echo "patch does not apply"; git -C /repo worktree remove --force "$SC"; exit 2; }
else
  /venv/bin/python "$HERE/edits.py" "$CASE" "$SC" || { git -C /repo worktree remove --force "$SC"; exit 2; }
fi
git -C "$SC" diff > "$HERE/$NAME.diff"
: > "$HERE/$NAME.result"
for P in $PROPS; do
  ( cd "$ROOT" && PCFG_REPO="$SC" PCFG_OUT="$OUT" timeout 1500 ./check "$P" --tier quick 2>&1 | grep -E "VIOLATION|-> OK|-> " | cut -c1-600 >> "$HERE/$NAME.result" )
  # what the translator tie itself says (the equality that broke / the construct that was refused)
  /venv/bin/python - "$OUT/replays" "$P" >> "$HERE/$NAME.result" <<'PY'
import glob, json, sys
seen = []
for f in sorted(glob.glob(sys.argv[1] + "/" + sys.argv[2] + "_*.json")):
    try:
        d = json.load(open(f))
    except Exception:
        continue
    for b in d.get("broken", []):
        if "translator-tie" in b and b not in seen:
            seen.append(b)
            print("  tie: %s" % " ".join(b.split())[:700])
PY
done
git -C /repo worktree remove --force "$SC" >/dev/null 2>&1
rm -rf "$SC" "$OUT"
echo "== $NAME"; cat "$HERE/$NAME.result"
