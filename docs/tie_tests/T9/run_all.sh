#!/bin/bash
# all tie tests of T9, one after the other (they share coq/); verdict lines in <case>.result
cd "$(dirname "$0")"
if [ "${1:-all}" != "mutations" ]; then
./run_tie.sh /verif/seeded/harmless/H2-3/patch.diff C19 C07 C06
./run_tie.sh /verif/seeded/harmless/H4-1/patch.diff C19 C07 C06
for c in H1 H2 H3; do ./run_tie.sh $c C19 C07; done
fi
for c in M1 M2 M3 M5 M7 M8 M9 M10 M11 M13; do ./run_tie.sh $c C19; done
for c in M4 M6 M12; do ./run_tie.sh $c C19 C07; done
# restore the generated files of this tree
( cd ../../.. && ./check C19 --tier quick | tail -1; ./check C07 --tier quick | tail -1 )
