#!/venv/bin/python
"""Tie tests of the loader translator (task T8).

    docs/tie_tests/T8/run_tie_tests.py probe [name ...]   translate + compile gen/Loader_gen.v and LoaderGenProofs.v
                                                           against a patched scratch copy, in a private copy of coq/
    docs/tie_tests/T8/run_tie_tests.py full  [name ...]   patched scratch copy + `./check Cxx --tier quick` (PCFG_REPO)

Every case is a list of exact single-occurrence text replacements in a scratch worktree of /repo
(`git -C /repo worktree add --detach`, removed afterwards); the diff is stored beside this script as
<name>.diff and the one-line result in RESULTS_probe.txt / RESULTS_full.txt.  M* = semantic
mutations (must alarm), H* = harmless edits (must not)."""
import os
import re
import shutil
import subprocess
import sys

HERE = os.path.dirname(os.path.abspath(__file__))
ROOT = os.path.abspath(os.path.join(HERE, "..", "..", ".."))
G = "lib_guesser/grammar_io.py"
S = "lib_scorer/grammar_io.py"

CASES = [
    # ---------------------------------------------------------------- semantic mutations
    dict(name="M01_isclose_in_grouping", checks=["C04", "C07"], file=G, edits=[
        ("import codecs\n", "import codecs\nimport math\n"),
        ("                if prob == prev_prob:\n", "                if math.isclose(prob, prev_prob):\n")]),
    dict(name="M02_strip_instead_of_rstrip", checks=["C07"], file=G, edits=[
        ("                split_values = line.rstrip().split(\"\\t\")\n", "                split_values = line.strip().split(\"\\t\")\n")]),
    dict(name="M03_dropped_seek0_no_markov", checks=["C14"], file=G, edits=[
        ("                else:\n                    file.seek(0)\n", "                else:\n                    pass\n")]),
    dict(name="M04_dropped_seek0_before_break", checks=["C14"], file=G, edits=[
        ("                        file.seek(0)\n                        break\n", "                        break\n")]),
    dict(name="M05_rescale_by_wrong_line", checks=["C14"], file=G, edits=[
        ("                    if split_values[0] == 'M':\n", "                    if split_values[0] != 'M':\n")]),
    dict(name="M06_caps_before_alpha", checks=["C14", "C04"], file=G, edits=[
        ("                replacement.insert(i+1,'C' + len_str)\n", "                replacement.insert(i,'C' + len_str)\n                i += 1\n")]),
    dict(name="M07_error_flag_never_reset", checks=["C07"], file=G, edits=[
        ("                if error_flag:\n                    error_flag = False\n", "                if error_flag:\n")]),
    dict(name="M08_len_str_off_by_one", checks=["C14"], file=G, edits=[
        ("                len_str = replacement[i][1:]\n", "                len_str = replacement[i][2:]\n")]),
    dict(name="M09_prev_prob_not_updated", checks=["C04", "C07"], file=G, edits=[
        ("                    prev_prob = prob\n\n", "\n")]),
    dict(name="M10_rescale_dropped", checks=["C14"], file=G, edits=[
        ("                prob = float(split_values[1]) / total_prob\n", "                prob = float(split_values[1])\n")]),
    dict(name="M11_markov_kept_under_skip_brute", checks=["C14"], file=G, edits=[
        ("                if not skip_brute or 'M' not in new_base['replacements']:\n",
         "                if not skip_brute or 'M' in new_base['replacements']:\n")]),
    dict(name="M12_scorer_strip", checks=["C07"], file=S, edits=[
        ("                split_values = value.rstrip().split(\"\\t\")\n", "                split_values = value.strip().split(\"\\t\")\n")]),
    dict(name="M13_scorer_key_value_swapped", checks=["C07"], file=S, edits=[
        ("                grammar_counter[split_values[0]] = float(split_values[1])\n",
         "                grammar_counter[split_values[1]] = float(split_values[0])\n")]),
    dict(name="M14_scorer_errors_strict", checks=["C07"], file=S, edits=[
        ("        with codecs.open(filename, 'r', encoding= encoding, errors= 'surrogateescape') as file:\n",
         "        with codecs.open(filename, 'r', encoding= encoding) as file:\n")]),
    dict(name="M15_error_path_does_not_skip_next", checks=["C07"], file=G, edits=[
        ("                    error_flag = True\n", "                    error_flag = False\n")]),
    # ---------------------------------------------------------------- harmless edits
    dict(name="H01_comments_docstrings_blank_lines", checks=["C07", "C14", "C04"], file=G, edits=[
        ("            # Used to group different items of the same probability together\n", "            # groups\n\n\n"),
        ("                # Split up the tab seperated items and then save their values\n                split_values = line.rstrip()",
         "                split_values = line.rstrip()"),
        ("    Loads grammar information from a file\n\n    Inputs:\n        \n        grammar_section: A Python List",
         "    Loads grammar information from one file.\n\n    Inputs:\n        \n        grammar_section: A Python List"),
        ("    ## Add in case mangling to all the alpha characters\n", "    # case mangling\n"),
        ("                # No brute force structure in this ruleset. The scan above\n", "                # nothing found. The scan above\n")]),
    dict(name="H02_locals_renamed", checks=["C07", "C14", "C04"], file=G, edits="RENAME"),
    dict(name="H03_equivalent_reformatting", checks=["C07", "C14", "C04"], file=G, edits=[
        ("                debug_count +=1\n", "                debug_count = debug_count + 1\n"),
        ("            i += 1\n", "            i = i + 1\n"),
        ("                if not skip_brute or 'M' not in new_base['replacements']:\n",
         "                if (not skip_brute) or (not 'M' in new_base['replacements']):\n"),
        ("            total_prob= 1.0\n", "            total_prob = 1.0\n"),
        ("                if prob == prev_prob:\n                    grammar_section[-1]['values'].append(value)\n",
         "                if (prob == prev_prob):\n                    grammar_section[-1]['values'].append(\n                        value)\n"),
        ("            debug_count = 0\n            error_flag = False\n", "            error_flag = False\n            debug_count = 0\n")]),
    dict(name="H05_parameters_renamed", checks=["C07", "C14"], file=G, edits="RENAME", renames=[
        ("skip_brute", "no_markov"), ("grammar_section", "section"), ("base_structures", "bases"),
        ("base_structure_folder", "folder")]),
    dict(name="H04_scorer_renamed_and_comments", checks=["C07"], file=S, edits=[
        ("            # Read though all the lines in the fil\n            for value in file:\n", "            for row in file:\n"),
        ("                    value.encode(encoding)\n", "                    row.encode(encoding)\n"),
        ("                split_values = value.rstrip().split(\"\\t\")\n                grammar_counter[split_values[0]] = float(split_values[1])\n",
         "                cells = row.rstrip().split(\"\\t\")\n                grammar_counter[cells[0]] = float(cells[1])\n")]),
]

# behaviour-preserving refactorings written by independent sub-agents (differentially tested
# equivalent): /verif/seeded/harmless/<id>/patch.diff.  They touch other files too (pcfg_grammar.py,
# the trainer): an alarm of a check that comes from another translator's tie is noted as such.
for _id, _checks in (("H1-1", ["C04", "C07"]), ("H0-1", ["C04", "C07", "C14"]), ("H2-4", ["C14", "C07", "C04"]),
                     ("H4-2", ["C14", "C07", "C04"]), ("H4-1", ["C07"])):
    CASES.append(dict(name="S_%s_seeded_harmless" % _id.replace("-", "_"), checks=_checks, file=None,
                      patch="/verif/seeded/harmless/%s/patch.diff" % _id))

RENAMES_G = [  # whole-word renames inside lib_guesser/grammar_io.py (locals of the translated functions only)
    ("prev_prob", "last_prob"), ("split_values", "fields"), ("debug_count", "line_no"), ("error_flag", "skip_next"),
    ("new_base", "entry"), ("replacement", "repl"), ("len_str", "digits"), ("total_prob", "mass"), ("error_code", "uerr"),
]


def sh(cmd, **kw):
    return subprocess.run(cmd, shell=True, capture_output=True, text=True, **kw)


def patch(case, w):
    if case.get("patch"):
        r = sh("git -C %s apply --whitespace=nowarn %s" % (w, case["patch"]))
        if r.returncode != 0:
            raise SystemExit("%s: %s" % (case["name"], r.stderr))
        d = sh("git -C %s diff --ignore-cr-at-eol -- lib_guesser/grammar_io.py lib_scorer/grammar_io.py" % w).stdout
        with open(os.path.join(HERE, case["name"] + ".diff"), "w") as f:
            f.write("# the part of %s that touches the translated loaders\n" % case["patch"] + d)
        return
    path = os.path.join(w, case["file"])
    with open(path, encoding="utf-8", newline="") as f:
        src = f.read()
    crlf = "\r\n" in src
    txt = src.replace("\r\n", "\n")
    if case["edits"] == "RENAME":
        for old, new in case.get("renames", RENAMES_G):
            if not re.search(r"\b%s\b" % old, txt):
                raise SystemExit("%s: %s not found" % (case["name"], old))
            txt = re.sub(r"\b%s\b" % old, new, txt)
    else:
        for old, new in case["edits"]:
            if txt.count(old) != 1:
                raise SystemExit("%s: %d occurrences of %r" % (case["name"], txt.count(old), old))
            txt = txt.replace(old, new)
    if crlf:
        txt = txt.replace("\n", "\r\n")
    with open(path, "w", encoding="utf-8", newline="") as f:
        f.write(txt)
    d = sh("git -C %s diff --ignore-cr-at-eol" % w).stdout
    with open(os.path.join(HERE, case["name"] + ".diff"), "w") as f:
        f.write(d)


def worktree(n):
    w = "/tmp/sc_T8_%s" % n
    sh("git -C /repo worktree remove --force %s" % w)
    shutil.rmtree(w, ignore_errors=True)
    r = sh("git -C /repo worktree add --detach %s HEAD" % w)
    if r.returncode != 0:
        raise SystemExit(r.stderr)
    return w


def probe(case, coq):
    w = worktree("probe")
    try:
        patch(case, w)
        env = dict(os.environ, PCFG_REPO=w)
        r = subprocess.run(["/venv/bin/python", os.path.join(ROOT, "harness", "translate_loader.py")], capture_output=True, text=True, env=env)
        if r.returncode != 0:
            return "TRANSLATION REFUSED: " + r.stderr.strip().split("\n")[-1][:300]
        with open(os.path.join(coq, "gen", "Loader_gen.v"), "w") as f:
            f.write(r.stdout)
        for rel in ("gen/Loader_gen.v", "theories/LoaderGenProofs.v"):
            c = sh("timeout 600 coqc -Q theories Pcfg -Q gen PcfgGen %s" % rel, cwd=coq)
            if c.returncode != 0:
                m = re.search(r'File "\./([^"]+)", line (\d+)', c.stderr)
                lemma = "?"
                if m:
                    for i, l in enumerate(open(os.path.join(coq, m.group(1)), encoding="utf-8"), 1):
                        if i > int(m.group(2)):
                            break
                        mm = re.match(r"\s*(?:Lemma|Theorem|Corollary)\s+([A-Za-z0-9_']+)", l)
                        if mm:
                            lemma = mm.group(1)
                return "translated; PROOFS FAIL in %s (%s line %s)" % (lemma, m.group(1) if m else rel, m.group(2) if m else "?")
        return "translated; proofs hold"
    finally:
        sh("git -C /repo worktree remove --force %s" % w)


def full(case):
    w = worktree("full")
    out = []
    try:
        patch(case, w)
        for c in case["checks"]:
            o = "/tmp/sc_T8_out"
            shutil.rmtree(o, ignore_errors=True)
            env = dict(os.environ, PCFG_REPO=w, PCFG_OUT=o)
            r = subprocess.run(["./check", c, "--tier", "quick"], cwd=ROOT, capture_output=True, text=True, env=env)
            lines = [l for l in (r.stdout + r.stderr).split("\n") if l.strip() and "conda" not in l.lower()]
            vio = [l for l in lines if l.startswith("VIOLATION")]
            out.append("%s: %s%s" % (c, lines[-1] if lines else "?", (" | " + vio[0][:200]) if vio else ""))
            shutil.rmtree(o, ignore_errors=True)
    finally:
        sh("git -C /repo worktree remove --force %s" % w)
    return " ;; ".join(out)


def main():
    mode = sys.argv[1] if len(sys.argv) > 1 else "probe"
    sel = sys.argv[2:]
    cases = [c for c in CASES if not sel or any(c["name"].startswith(s) for s in sel)]
    res = []
    if mode == "probe":
        coq = "/tmp/sc_T8_probe_coq"
        shutil.rmtree(coq, ignore_errors=True)
        os.makedirs(coq)
        for d in ("theories", "gen"):
            shutil.copytree(os.path.join(ROOT, "coq", d), os.path.join(coq, d))
        for c in cases:
            r = "%s: %s" % (c["name"], probe(c, coq))
            print(r, flush=True)
            res.append(r)
        shutil.rmtree(coq, ignore_errors=True)
    else:
        for c in cases:
            r = "%s: %s" % (c["name"], full(c))
            print(r, flush=True)
            res.append(r)
        for c in sorted({x for k in cases for x in k["checks"]}):
            r = subprocess.run(["./check", c, "--tier", "quick"], cwd=ROOT, capture_output=True, text=True)
            lines = [l for l in (r.stdout + r.stderr).split("\n") if l.strip() and "conda" not in l.lower()]
            res.append("restore %s: %s" % (c, lines[-1] if lines else "?"))
            print(res[-1], flush=True)
    with open(os.path.join(HERE, "RESULTS_%s.txt" % mode), "a" if sel else "w") as f:
        f.write("\n".join(res) + "\n")


if __name__ == "__main__":
    main()
