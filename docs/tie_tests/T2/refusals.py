#!/venv/bin/python
"""Fail-closed behaviour of harness/translate_omen_level.py: edits of the two source files that
leave the accepted subset (or that the translation could not represent faithfully) must raise
TranslateError; a few edits inside the subset must be accepted.  Works on copies of the two
files in a temporary directory; nothing is executed.  Run:  /venv/bin/python docs/tie_tests/T2/refusals.py"""
import os
import shutil
import sys
import tempfile

ROOT = os.path.dirname(os.path.dirname(os.path.dirname(os.path.dirname(os.path.abspath(__file__)))))
sys.path.insert(0, os.path.join(ROOT, "harness"))
import common  # noqa: E402
import translate_omen_level as T  # noqa: E402

EV, SC = T.SRC_EVAL, T.SRC_SCORER

CASES = [
    # (name, file, old, new, expected: "refused" | "accepted")
    ("list comprehension", EV, "chunk = password[0:ngram-1]", "chunk = ''.join([c for c in password[0:ngram-1]])", "refused"),
    ("alias of a cache container bound twice", EV, "    if level in omen_trainer.grammar[ip]['keyspace_cache'][length]:",
     "    d = omen_trainer.grammar[ip]['keyspace_cache'][length]\n    d = omen_trainer.grammar[ip]['keyspace_cache'][length]\n"
     "    if level in omen_trainer.grammar[ip]['keyspace_cache'][length]:", "refused"),
    ("alias of a cache container rebound in a loop", EV,
     "            if letter_level[0] == level:\n",
     "            d = omen_trainer.grammar[ip]['keyspace_cache']\n            d = omen_trainer.grammar[ip]['keyspace_cache']\n"
     "            if letter_level[0] == level:\n", "refused"),
    ("alias of the counter", EV, "    keyspace = Counter()\n", "    keyspace = Counter()\n    other = keyspace\n", "refused"),
    ("new container stored through an alias outside the guard", EV, "    omen_trainer.grammar[ip]['keyspace_cache'][length][level] = 0\n",
     "    per_ip = omen_trainer.grammar[ip]['keyspace_cache']\n    per_ip[length] = {}\n"
     "    omen_trainer.grammar[ip]['keyspace_cache'][length][level] = 0\n", "refused"),
    ("container replaced outside the guard", EV, "    omen_trainer.grammar[ip]['keyspace_cache'][length][level] = 0\n",
     "    omen_trainer.grammar[ip]['keyspace_cache'][length] = {}\n    omen_trainer.grammar[ip]['keyspace_cache'][length][level] = 0\n", "refused"),
    ("except Exception", EV, "    except KeyError:\n        return -1\n\n\ndef _rec", "    except Exception:\n        return -1\n\n\ndef _rec", "refused"),
    ("bare except", EV, "    except KeyError:\n        return -1\n\n\ndef _rec", "    except:\n        return -1\n\n\ndef _rec", "refused"),
    ("statement after try", EV, "    except KeyError:\n        return -1\n\n\ndef _rec", "    except KeyError:\n        pass\n    return -1\n\n\ndef _rec", "refused"),
    ("break", EV, "            end_pos += 1\n", "            end_pos += 1\n            if end_pos > 100:\n                break\n", "refused"),
    ("float arithmetic", EV, "return ln_level + chain_level", "return ln_level + chain_level * 1.0", "refused"),
    ("multiplication", EV, "return ln_level + chain_level", "return ln_level + chain_level * 2", "refused"),
    ("count of the tuple", EV, "if letter_level[0] == level:", "if letter_level[1] == level:", "refused"),
    ("builtin len rebound", EV, "from collections import Counter", "from collections import Counter\nlen = lambda x: 3", "refused"),
    ("Counter from elsewhere", EV, "from collections import Counter", "from mycollections import Counter", "refused"),
    ("function rebound at module level", EV, "def calc_omen_keyspace(", "find_omen_level = None\n\n\ndef calc_omen_keyspace(", "refused"),
    ("second definition", EV, "def calc_omen_keyspace(", "def find_omen_level(a, b):\n    return 0\n\n\ndef calc_omen_keyspace(", "refused"),
    ("changed default", EV, "max_level = 18", "max_level = 19", "refused"),
    ("decorator", EV, "def find_omen_level(", "@staticmethod\ndef find_omen_level(", "refused"),
    ("trainer attribute not modelled", EV, "ngram = omen_trainer.ngram", "ngram = omen_trainer.alphabet", "refused"),
    ("truthiness", EV, "if level_minus_ip >= 0:", "if level_minus_ip:", "refused"),
    ("max_len assigned twice", SC, "        self.max_len = len(self.ln) - 1\n", "        self.max_len = 0\n        self.max_len = len(self.ln) - 1\n", "refused"),
    ("max_len not last in __init__", SC, "        self.max_len = len(self.ln) - 1\n", "        self.max_len = len(self.ln) - 1\n        self.ln.append(0)\n", "refused"),
    ("another method mutates the loaded tables", SC, "    def _load_omen(self, base_directory):",
     "    def forget(self):\n        self.ln.append(0)\n\n    def _load_omen(self, base_directory):", "refused"),
    ("while ... else", SC, "                end_pos += 1\n", "                end_pos += 1\n            else:\n                pass\n", "refused"),
    ("walrus", SC, "pass_len = len(password)", "(pass_len := len(password))", "refused"),
    # inside the subset
    ("comment and blank lines", EV, "    pw_len = len(password)\n", "\n    # a comment\n    pw_len = len(password)\n\n", "accepted"),
    ("local renamed", EV, "chain_level", "acc", "accepted"),
    ("x = x + 1", EV, "            end_pos += 1\n", "            end_pos = end_pos + 1\n", "accepted"),
    ("keyword arguments of the recursive call", EV,
     "_rec_calc_keyspace(omen_trainer, level - letter_level[0], length - 1, ip[1:] + last_letter)",
     "_rec_calc_keyspace(omen_trainer, level - letter_level[0], ip=ip[1:] + last_letter, length=length - 1)", "accepted"),
    ("alias of a cache container (a name for its path)", EV, "    if level in omen_trainer.grammar[ip]['keyspace_cache'][length]:",
     "    d = omen_trainer.grammar[ip]['keyspace_cache'][length]\n    if level in d:", "accepted"),
    ("alias of a read-only table", EV, "    pw_len = len(password)\n", "    pw_len = len(password)\n    g = omen_trainer.grammar\n", "accepted"),
    ("counted while loop written as for ... in range", SC,
     "            end_pos = self.ngram\n\n            while end_pos <= pass_len:\n                chunk = password[end_pos - self.ngram:end_pos]\n"
     "                chain_level += self.cp[chunk]\n                end_pos += 1\n",
     "            for end_pos in range(self.ngram, pass_len + 1):\n                chunk = password[end_pos - self.ngram:end_pos]\n"
     "                chain_level += self.cp[chunk]\n", "accepted"),
    ("max_len defined another way", SC, "self.max_len = len(self.ln) - 1", "self.max_len = len(self.ln) - 2 + 1", "accepted"),
]


def main():
    bad = 0
    for name, rel, old, new, want in CASES:
        d = tempfile.mkdtemp(prefix="t2_refusals_", dir="/tmp")
        try:
            for r in (EV, SC):
                os.makedirs(os.path.dirname(os.path.join(d, r)), exist_ok=True)
                s = open(os.path.join(common.REPO, r), encoding="utf-8", newline="").read().replace("\r\n", "\n")
                if r == rel:
                    if old not in s:
                        print("%-45s PATTERN NOT FOUND" % name)
                        bad += 1
                        s = None
                        break
                    s = s.replace(old, new)
                open(os.path.join(d, r), "w", encoding="utf-8", newline="").write(s)
            if s is None:
                continue
            got, msg = "accepted", ""
            try:
                for out in T.OUTS:
                    T.render(out, d)
            except T.TranslateError as e:
                got, msg = "refused", str(e).replace(d + "/", "")
            except SyntaxError as e:
                got, msg = "refused", "SyntaxError %s" % e
            ok = got == want
            bad += not ok
            print("%-45s %-9s %s %s" % (name, got, "ok" if ok else "UNEXPECTED (wanted %s)" % want, msg[:150]))
        finally:
            shutil.rmtree(d, ignore_errors=True)
    print("%d unexpected" % bad)
    return bad


if __name__ == "__main__":
    sys.exit(1 if main() else 0)
