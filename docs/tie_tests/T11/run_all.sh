#!/bin/sh
# Full tie tests of T11: every diff of this directory is applied to a scratch worktree of /repo and the
# whole check of C13 is run against it (translator, equality proofs, Props/C13.v, the real scorer with the
# direct oracle, the correspondence).  M* must end in VIOLATION, H* in OK.
#   sh docs/tie_tests/T11/run_all.sh [name-prefix ...]      (about 1 minute per diff)
# Results are appended to docs/tie_tests/T11/RESULTS_raw.txt; the plain check is run at the end to restore coq/gen.
V=/tmp/vb_T11
SC=/tmp/sc_T11_run
OUT=/tmp/sc_T11_out
D=$V/docs/tie_tests/T11
git -C /repo worktree remove --force $SC >/dev/null 2>&1
git -C /repo worktree add --detach $SC HEAD >/dev/null 2>&1 || exit 1
for diff in $D/*.diff; do
  name=$(basename $diff .diff)
  if [ $# -gt 0 ]; then ok=0; for p in "$@"; do case $name in $p*) ok=1;; esac; done; [ $ok = 1 ] || continue; fi
  git -C $SC checkout -q -- . && (cd $SC && patch -p1 --binary -s < $diff) || { echo "$name: patch failed"; continue; }
  rm -rf $OUT; mkdir -p $OUT
  cd $V && PCFG_REPO=$SC PCFG_OUT=$OUT timeout 900 ./check C13 --tier quick > /tmp/sc_T11_run.log 2>&1
  last=$(grep -E -- '-> (OK|VIOLATION)' /tmp/sc_T11_run.log | tail -1)
  echo "$name: $last" | tee -a $D/RESULTS_raw.txt
  grep -E 'VIOLATION|KNOWN-FINDING|broken|no longer|refuse' /tmp/sc_T11_run.log | grep -v -- '-> ' | cut -c1-400 | head -6 | sed 's/^/    /' | tee -a $D/RESULTS_raw.txt
done
git -C /repo worktree remove --force $SC
rm -rf $OUT
cd $V && timeout 900 ./check C13 --tier quick 2>&1 | tail -1 | sed 's/^/unchanged tree: /' | tee -a $D/RESULTS_raw.txt
