#!/venv/bin/python
"""Writes the tie-test diffs of T11 (run inside a scratch worktree of /repo):
    cd /tmp/sc_T11_0 && /venv/bin/python /tmp/vb_T11/docs/tie_tests/T11/make_diffs.py
Each edit is (text, replacement) on lib_scorer/pcfg_password_scorer.py (CRLF line ends kept)."""
import os
import subprocess

F = 'lib_scorer/pcfg_password_scorer.py'
OUT = os.path.dirname(os.path.abspath(__file__))
orig = open(F, newline='').read()
NL = '\r\n' if '\r\n' in orig else '\n'


def mk(name, edits):
    t = orig
    for a, b in edits:
        a, b = a.replace('\n', NL), b.replace('\n', NL)
        assert t.count(a) == 1, (name, a, t.count(a))
        t = t.replace(a, b)
    open(F, 'w', newline='').write(t)
    d = subprocess.run(['git', 'diff', '--', F], capture_output=True).stdout      # bytes: the CRs are part of the lines
    open(os.path.join(OUT, name + '.diff'), 'wb').write(d)
    open(F, 'w', newline='').write(orig)


# ---------------------------------------------------------------- semantic mutations (must alarm)
mk('M1_early_exit_below_cutoff', [('''            for item in found_alpha_strings:
                cur_prob *= self.count_alpha[len(item)][item]
''', '''            for item in found_alpha_strings:
                cur_prob *= self.count_alpha[len(item)][item]
                if cur_prob < self.limit:
                    return (password, category, 0, omen_score)
''')])
mk('M2_mask_factor_skipped_for_all_lower', [('''            for item in found_mask_list:
                cur_prob *= self.count_alpha_masks[len(item)][item]
''', '''            for item in found_mask_list:
                if 'U' in item:
                    cur_prob *= self.count_alpha_masks[len(item)][item]
''')])
mk('M3_email_category_nonzero_probability', [('''        omen_score = self.omen.parse(password)
''', '''        omen_score = self.omen.parse(password)
        cur_prob = 1.0
'''), ('''        if category in ['e', 'w']:
            return (password, category, 0, omen_score)
''', '''        if category in ['e', 'w']:
            return (password, category, cur_prob, omen_score)
''')])
mk('M4_rebuild_check_skipped_without_U', [('''            if rebuilt != text:
''', '''            if 'U' in mask and rebuilt != text:
''')])
mk('M5_base_structure_factor_twice', [('''            cur_prob *= self.count_base_structures[base_structure]
''', '''            cur_prob *= self.count_base_structures[base_structure]
            cur_prob *= self.count_base_structures[base_structure]
''')])
mk('M6a_alpha_sections_memoised_before_alpha_detection', [('''        found_years = year_detection(section_list)
''', '''        alpha_sections = [x[0] for x in section_list if x[1] and x[1][0] == 'A']
        found_years = year_detection(section_list)
'''), ('''        alpha_sections = [x[0] for x in section_list if x[1] and x[1][0] == 'A']
        for text, word, mask''', '''        for text, word, mask''')])
mk('M6b_keyboard_result_memoised_in_object', [('''        section_list, found_walks, detected_keyboards = detect_keyboard_walk(password)
''', '''        if password in self.walk_cache:
            section_list, found_walks, detected_keyboards = self.walk_cache[password]
        else:
            section_list, found_walks, detected_keyboards = detect_keyboard_walk(password)
            self.walk_cache[password] = (section_list, found_walks, detected_keyboards)
'''), ('''        self.max_omen_level = 0

    def create_multiword_detector''', '''        self.max_omen_level = 0

        # Results of the keyboard walk detection, by password
        self.walk_cache = {}

    def create_multiword_detector''')])
mk('M7_keyerror_keeps_partial_product', [('''        except KeyError:
            cur_prob = 0
''', '''        except KeyError:
            pass
''')])
mk('M8_detector_order_digits_before_alpha', [('''        found_alpha_strings, found_mask_list = alpha_detection(section_list, self.multiword_detector)
        found_digit_strings = digit_detection(section_list)
''', '''        found_digit_strings = digit_detection(section_list)
        found_alpha_strings, found_mask_list = alpha_detection(section_list, self.multiword_detector)
''')])
mk('M9_website_check_dropped', [('''        if category in ['e', 'w']:
''', '''        if category in ['e']:
''')])
mk('M10_years_loop_dropped', [('''            for item in found_years:
                cur_prob *= self.count_years[item]

''', '')])
mk('M11_mask_table_for_alpha_words', [('''                cur_prob *= self.count_alpha[len(item)][item]
''', '''                cur_prob *= self.count_alpha_masks[len(item)][item]
''')])
# ---------------------------------------------------------------- harmless edits (must not alarm)
mk('H1_comments_docstring_blank_lines', [('''        # Parse the OMEN score
        omen_score = self.omen.parse(password)
''', '''        # The OMEN level of the candidate (-1 when it has none)

        omen_score = self.omen.parse(password)
'''), ('''        Parses an input value and determines if it is a password or not
''', '''        Scores an input value: segments it the way the trainer does and
        multiplies the probabilities of the pieces
'''), ('''        # Start out at 100% probability
''', '''        # Start out at 100% probability (the empty product)

''')])
mk('H2_locals_renamed', [('''        alpha_sections = [x[0] for x in section_list if x[1] and x[1][0] == 'A']
        for text, word, mask in zip(alpha_sections, found_alpha_strings, found_mask_list):
            rebuilt = ''.join(c.upper() if m == 'U' else c for c, m in zip(word, mask))
            if rebuilt != text:
                cur_prob = 0
''', '''        typed = [sec[0] for sec in section_list if sec[1] and sec[1][0] == 'A']
        for original, base_word, case_mask in zip(typed, found_alpha_strings, found_mask_list):
            again = ''.join(ch.upper() if flag == 'U' else ch for ch, flag in zip(base_word, case_mask))
            if again != original:
                cur_prob = 0
'''), ('''            for item in found_walks:
                cur_prob *= self.count_keyboard[len(item)][item]
''', '''            for walk in found_walks:
                cur_prob *= self.count_keyboard[len(walk)][walk]
'''), ('''    def parse(self, password):
''', '''    def parse(self, candidate):
'''), ('''        omen_score = self.omen.parse(password)
''', '''        omen_score = self.omen.parse(candidate)
'''), ('''        section_list, found_walks, detected_keyboards = detect_keyboard_walk(password)
''', '''        section_list, found_walks, detected_keyboards = detect_keyboard_walk(candidate)
'''), ('''        if category in ['e', 'w']:
            return (password, category, 0, omen_score)
''', '''        if category in ['e', 'w']:
            return (candidate, category, 0, omen_score)
'''), ('''            category = 'o'
            return (password, category, 0, omen_score)
''', '''            category = 'o'
            return (candidate, category, 0, omen_score)
'''), ('''        return (password, category, cur_prob, omen_score)
''', '''        return (candidate, category, cur_prob, omen_score)
''')])
mk('H3_equivalent_reformatting', [('''        if found_emails:
            category = 'e'
        elif found_urls:
            category = 'w'
        else:
            category = 'o'

        # Bail out early if e-mails or websites were found
        if category in ['e', 'w']:
            return (password, category, 0, omen_score)
''', '''        category = 'o'
        if found_emails:
            return (password, 'e', 0, omen_score)
        if found_urls:
            return (password, 'w', 0.0, omen_score)
'''), ('''            for item in found_years:
                cur_prob *= self.count_years[item]
''', '''            for item in found_years:
                cur_prob = cur_prob * self.count_years[item]
'''), ('''        if not is_supported:
            category = 'o'
            return (password, category, 0, omen_score)
''', '''        if not is_supported:
            return (password, 'o', 0, omen_score)
'''), ('''            if rebuilt != text:
                cur_prob = 0
''', '''            if not (rebuilt == text):
                cur_prob = 0.0
''')])
mk('H4_cutoff_test_rewritten', [('''        if cur_prob > self.limit or (omen_score <= self.omen.max_omen_level and omen_score >= 0):
            category = 'p'
''', '''        if cur_prob >= self.limit and cur_prob != 0:
            category = 'p'
        elif 0 <= omen_score and omen_score <= self.omen.max_omen_level:
            category = 'p'
''')])
mk('H5_import_alias_moved_statement_extra_local', [('''from lib_trainer.detection_rules.email_detection import email_detection
''', '''from lib_trainer.detection_rules.email_detection import email_detection as find_emails
'''), ('''        found_emails, found_providers = email_detection(section_list)
''', '''        found_emails, found_providers = find_emails(section_list)
'''), ('''        # Parse the OMEN score
        omen_score = self.omen.parse(password)

''', ''), ('''        # Identify if e-mails or urls were found
''', '''        # Parse the OMEN score
        omen_score = self.omen.parse(password)

        # Identify if e-mails or urls were found
'''), ('''            for item in found_alpha_strings:
                cur_prob *= self.count_alpha[len(item)][item]
''', '''            for item in found_alpha_strings:
                size = len(item)
                words = self.count_alpha[size]
                cur_prob *= words[item]
''')])
