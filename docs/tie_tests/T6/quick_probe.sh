#!/bin/sh
# usage: quick_probe.sh <name> [base.diff]     (edit = edits/<name>.py, applied after the optional base diff)
# Translates the edited scratch copy into coq/gen and rebuilds the equality proofs only (no full check):
# prints which file / theorem no longer checks, or "all equalities check".  Restores coq/gen afterwards.
NAME=$1; BASE=$2
HERE=$(cd "$(dirname "$0")" && pwd); ROOT=$(cd "$HERE/../../.." && pwd)
SC=/tmp/sc_R6_p_$NAME
git -C /repo worktree remove --force "$SC" 2>/dev/null
git -C /repo worktree add --detach "$SC" HEAD >/dev/null 2>&1 || exit 1
[ -n "$BASE" ] && git -C "$SC" apply "$BASE"
( cd "$SC" && /venv/bin/python "$HERE/edits/$NAME.py" ) || exit 1
cd "$ROOT"
R=$(PCFG_REPO=$SC /venv/bin/python harness/translate_omen_gen.py --write 2>&1 | grep -i "TranslateError" | tail -1 | cut -c1-300)
if [ -n "$R" ]; then echo "$NAME: REFUSED by the translator: $R"; else
  OUT=$(cd coq && timeout 1500 make -k -f Makefile.coq -j8 theories/OmenGenGenProofs.vo 2>&1)
  F=$(echo "$OUT" | grep -m1 '^File "./theories' )
  if [ -z "$F" ]; then echo "$NAME: all equalities check"; else
    FILE=$(echo "$F" | sed 's/.*theories\/\([A-Za-z]*\.v\)", line \([0-9]*\).*/\1/'); LINE=$(echo "$F" | sed 's/.*line \([0-9]*\),.*/\1/')
    TH=$(head -n "$LINE" coq/theories/$FILE | grep -E "^\s*(Theorem|Lemma) " | tail -1 | sed 's/^\s*//' | cut -d' ' -f1-2)
    echo "$NAME: BROKEN $TH ($FILE line $LINE)"; fi; fi
git -C /repo worktree remove --force "$SC"
/venv/bin/python harness/translate_omen_gen.py --write >/dev/null 2>&1
(cd coq && timeout 1500 make -k -f Makefile.coq -j8 theories/OmenGenGenProofs.vo >/dev/null 2>&1)
