#!/bin/sh
# usage: run_tie.sh <Cxx> <name>      (the edit is edits/<name>.py, run inside the scratch copy)
# Applies the edit to a scratch worktree of /repo (never /repo itself), runs the quick check of
# the property against it, stores the diff and the verdict beside this script, removes the
# scratch copy.  Re-run the plain check afterwards to restore coq/gen.
PROP=$1; NAME=$2
HERE=$(cd "$(dirname "$0")" && pwd)
ROOT=$(cd "$HERE/../../.." && pwd)
SC=/tmp/sc_T6_$NAME
OUT=/tmp/sc_T6_out_$NAME
rm -rf "$OUT"; git -C /repo worktree remove --force "$SC" 2>/dev/null
git -C /repo worktree add --detach "$SC" HEAD >/dev/null 2>&1 || exit 1
( cd "$SC" && /venv/bin/python "$HERE/edits/$NAME.py" ) || exit 1
git -C "$SC" diff > "$HERE/${PROP}_$NAME.diff"
cd "$ROOT"
PCFG_REPO=$SC PCFG_OUT=$OUT ./check $PROP --tier quick 2>&1 | grep -v -i 'conda\|^WARNING\|condarc\|^  \|^$\|^Traceback\|^`\|^#\|^An unexpected\|^If you\|^consider\|^Example\|^Alternatively\|^the command' | cut -c1-700 > "$OUT.log"
( grep -E '^(VIOLATION|KNOWN-FINDING)' "$OUT.log" | head -3
  /venv/bin/python - "$OUT" <<'PY'
import glob, json, sys
for f in sorted(glob.glob(sys.argv[1] + "/replays/*.json"))[:1]:
    d = json.load(open(f))
    for b in (d.get("broken") or []):
        if "translator-tie" in b or "theorems of Props" in b or "constants" in b or "build" in b:
            print("broken (from %s): %s" % (f.split("/")[-1], b[:700]))
    v = d.get("violation") or d.get("sig")
    if v:
        print("oracle: %s" % (json.dumps(v)[:300]))
PY
  tail -1 "$OUT.log" ) > "$HERE/${PROP}_$NAME.result"
echo "$NAME: $(tail -1 "$OUT.log")"
rm -f "$OUT.log"
git -C /repo worktree remove --force "$SC"; rm -rf "$OUT"
