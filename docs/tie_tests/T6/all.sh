#!/bin/sh
# all tie tests of T6 (translator tie of the OMEN generator core, C10 / C15); results in *.result, summary in RESULTS.txt
HERE=$(cd "$(dirname "$0")" && pwd)
ROOT=$(cd "$HERE/../../.." && pwd)
: > "$HERE/RESULTS.txt"
for n in m1_findcp_gt m2_inclen_ge m3_opt_nolength m4_fill_budget m5_reset_dropped m6_next_le m7_incip_maxlevel m8_curlevel_skip \
         h1_comments h2_rename h3_reformat h4_kwargs_order h_seeded_H3_1 h_seeded_H1_4 h_seeded_H3_3; do
  sh "$HERE/run_tie.sh" C10 $n 2>/dev/null | grep "^$n:" | cut -c1-400 >> "$HERE/RESULTS.txt"
done
for n in m5_reset_dropped m7_incip_maxlevel m9_save_swapped h2_rename h_seeded_H3_1 h_seeded_H1_4 h_seeded_H3_3; do
  sh "$HERE/run_tie.sh" C15 $n 2>/dev/null | grep "^$n:" | sed 's/^/C15 /' | cut -c1-400 >> "$HERE/RESULTS.txt"
done
# restore the generated files of the worktree from the unchanged /repo
cd "$ROOT" && ./check C10 --tier quick 2>/dev/null | tail -1 | sed 's/^/unchanged tree: /' >> "$HERE/RESULTS.txt"
cd "$ROOT" && ./check C15 --tier quick 2>/dev/null | tail -1 | sed 's/^/unchanged tree: /' >> "$HERE/RESULTS.txt"
