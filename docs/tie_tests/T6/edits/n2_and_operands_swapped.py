import sys, os
sys.path.insert(0, os.path.dirname(os.path.abspath(__file__)))
from _lib import *
sub(MC, "if (not self._increase_ip_for_target(working_target = working_target)\n                    and not self._increase_len_for_target()):", "if (not self._increase_len_for_target()\n                    and not self._increase_ip_for_target(working_target = working_target)):")
