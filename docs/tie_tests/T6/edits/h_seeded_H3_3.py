import subprocess
subprocess.check_call(["git", "apply", "/verif/seeded/harmless/H3-3/patch.diff"])
