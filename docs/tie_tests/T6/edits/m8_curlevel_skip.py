import sys, os
sys.path.insert(0, os.path.dirname(os.path.abspath(__file__)))
from _lib import *
sub(GS, "            cur_level = cp_level - 1\n", "            cur_level = cp_level - 2\n")
