import sys, os
sys.path.insert(0, os.path.dirname(os.path.abspath(__file__)))
from _lib import *
sub(MC, "ip_level, ip_index = self.cur_ip[0], self.cur_ip[1]", "ip_level, ip_index = self.cur_ip[1], self.cur_ip[0]")
