import sys, os
sys.path.insert(0, os.path.dirname(os.path.abspath(__file__)))
from _lib import *
sub(GS, "while top_level >= bottom_level:", "while top_level > bottom_level:")
