import subprocess
subprocess.check_call(["git", "apply", "/verif/seeded/harmless/H3-1/patch.diff"])
