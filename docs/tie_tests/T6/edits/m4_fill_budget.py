import sys, os
sys.path.insert(0, os.path.dirname(os.path.abspath(__file__)))
from _lib import *
sub(GS, "target_level = target_level - cp_level\n", "target_level = target_level - cur_level\n")
