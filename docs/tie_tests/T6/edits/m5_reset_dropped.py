import sys, os
sys.path.insert(0, os.path.dirname(os.path.abspath(__file__)))
from _lib import *
sub(GS, "                # Reset the index to the start\n                last_item[2] = 0\n", "")
