import sys, os
sys.path.insert(0, os.path.dirname(os.path.abspath(__file__)))
from _lib import *
sub(MC, "            if size > index:\n\n                # Save the new length pointer", "            if size >= index:\n\n                # Save the new length pointer")
