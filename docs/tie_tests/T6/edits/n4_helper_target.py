import sys, os
sys.path.insert(0, os.path.dirname(os.path.abspath(__file__)))
from _lib import *
sub(MC, "target_level = self.target_level - len_level - ip_level,", "target_level = self.target_level - len_level,")
