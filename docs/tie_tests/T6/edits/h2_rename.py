import sys, os
sys.path.insert(0, os.path.dirname(os.path.abspath(__file__)))
from _lib import *
sub(GS, "cur_index", "idx", 5)
sub(GS, "working_parse_tree", "wpt", 3)
sub(MC, "        guess =  self.cur_guess.next_guess()\n\n        # If guess is None", "        guess = self.cur_guess.next_guess()\n\n        # If guess is None")
