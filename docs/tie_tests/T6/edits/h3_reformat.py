import sys, os
sys.path.insert(0, os.path.dirname(os.path.abspath(__file__)))
from _lib import *
sub(GS, "            top_level -= 1\n", "            top_level = top_level - 1\n")
sub(MC, "            if size > index:\n\n                # Save the new IP pointer", "            if index < size:\n\n                # Save the new IP pointer")
sub(GS, "        if length == 1:", "        if 1 == length:")
