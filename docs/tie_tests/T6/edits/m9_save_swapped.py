import sys, os
sys.path.insert(0, os.path.dirname(os.path.abspath(__file__)))
from _lib import *
sub(MC, "            pickle.dump(self.cur_ip, file)\n            pickle.dump(self.cur_len, file)\n", "            pickle.dump(self.cur_len, file)\n            pickle.dump(self.cur_ip, file)\n")
