"""helpers for the edit scripts (run with the scratch copy of /repo as cwd)"""
import io


def sub(path, old, new, count=1):
    s = io.open(path, encoding="utf-8").read()
    assert s.count(old) >= count, (path, old, s.count(old))
    s = s.replace(old, new, count)
    io.open(path, "w", encoding="utf-8").write(s)


GS = "lib_guesser/omen/guess_structure.py"
MC = "lib_guesser/omen/markov_cracker.py"
OPT = "lib_guesser/omen/optimizer.py"
