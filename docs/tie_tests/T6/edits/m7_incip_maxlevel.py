import sys, os
sys.path.insert(0, os.path.dirname(os.path.abspath(__file__)))
from _lib import *
sub(MC, "            if level > self.max_level:\n                return False\n            elif level > working_target:", "            if level >= self.max_level:\n                return False\n            elif level > working_target:")
