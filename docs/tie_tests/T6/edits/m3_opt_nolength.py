import sys, os
sys.path.insert(0, os.path.dirname(os.path.abspath(__file__)))
from _lib import *
sub(OPT, "self.tmto_lookup[length][ip_ngram][target_level] )", "self.tmto_lookup[0][ip_ngram][target_level] )")
sub(OPT, "if ip_ngram not in self.tmto_lookup[length]:\n            self.tmto_lookup[length][ip_ngram] = {}", "if ip_ngram not in self.tmto_lookup[0]:\n            self.tmto_lookup[0][ip_ngram] = {}")
sub(OPT, "self.tmto_lookup[length][ip_ngram][target_level] = self.custom_copy(parse_tree)", "self.tmto_lookup[0][ip_ngram][target_level] = self.custom_copy(parse_tree)")
