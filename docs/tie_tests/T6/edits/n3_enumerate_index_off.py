import sys, os
sys.path.insert(0, os.path.dirname(os.path.abspath(__file__)))
from _lib import *
sub(GS, "result = [[ip, cp_level, cur_index]] + working_parse_tree", "result = [[ip, cp_level, cur_index + 1]] + working_parse_tree")
