import sys, os
sys.path.insert(0, os.path.dirname(os.path.abspath(__file__)))
from _lib import *
sub(GS, "        # First Guess\n", "        # First guess: nothing generated yet (comment changed)\n\n\n")
sub(GS, "Get the next guess for this guess structure (aka level + IP)", "Return the following guess of this structure (docstring changed)")
sub(MC, "        # Deal with starting off the Markov chain\n", "        # start of the chain (comment changed)\n")
sub(OPT, "        ##--If we haven\x27t seen this ip_ngram for this length before\n", "")
