import subprocess
subprocess.check_call(["git", "apply", "/verif/seeded/harmless/H1-4/patch.diff"])
