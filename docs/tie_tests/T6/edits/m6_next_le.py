import sys, os
sys.path.insert(0, os.path.dirname(os.path.abspath(__file__)))
from _lib import *
sub(GS, "if last_item[2] + 1 < len(self.cp[last_item[0]][last_item[1]]):", "if last_item[2] + 1 <= len(self.cp[last_item[0]][last_item[1]]):")
