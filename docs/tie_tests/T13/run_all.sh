#!/bin/sh
# Runs the tie tests of T13: every NAME.diff of this directory is applied to a scratch worktree of /repo and
# `PCFG_REPO=<scratch> PCFG_OUT=<out> ./check C05 --tier quick` is run from the verification worktree given as
# first argument (default: the worktree this file belongs to).  Results are appended to RESULTS_raw.txt.
#   sh run_all.sh [verif-worktree] [scratch-number] [names...]
HERE="$(cd "$(dirname "$0")" && pwd)"
VERIF="${1:-$(cd "$HERE/../../.." && pwd)}"
N="${2:-9}"
shift; shift
SC=/tmp/sc_T13_$N
OUT=/tmp/sc_T13_out_$N
# DIFFS / RAW: another directory of diffs (e.g. ../T4) and where to append its results
DIFFS="${DIFFS:-$HERE}"
RAW="${RAW:-$HERE/RESULTS_raw.txt}"
git -C /repo worktree add --detach "$SC" HEAD >/dev/null 2>&1
NAMES="$*"
[ -z "$NAMES" ] && NAMES="$(cd "$DIFFS" && ls *.diff | sed 's/\.diff$//')"
for name in $NAMES; do
    git -C "$SC" checkout -q . && git -C "$SC" clean -fdq
    grep -v '^# ' "$DIFFS/$name.diff" | git -C "$SC" apply --whitespace=nowarn - || { echo "$name: the diff does not apply" >> "$RAW"; continue; }
    rm -rf "$OUT"
    ( cd "$VERIF" && PCFG_REPO="$SC" PCFG_OUT="$OUT" timeout 1500 ./check C05 --tier quick ) > "$OUT.log" 2>&1
    {
        echo "== $name: $(head -1 "$DIFFS/$name.diff" | sed 's/^# //' | cut -c1-300)"
        grep -v "WARNING conda" "$OUT.log" | grep "^VIOLATION\|no longer checks\|-> OK\|-> VIOLATION\|KNOWN" | cut -c1-700
    } >> "$RAW"
done
git -C /repo worktree remove --force "$SC"
rm -rf "$OUT" "$OUT.log"
# restore the generated files of the verification worktree
( cd "$VERIF" && ./check C05 --tier quick ) | tail -1 >> "$RAW"
