#!/usr/bin/env python3
"""Writes the tie-test diffs of T13 (docs/tie_tests/T13/*.diff) by editing a scratch worktree of /repo
(first argument) and taking `git diff`.  Each case is (name, one-line description, [(file, old, new), ...]);
`old` must occur exactly once in the file."""
import os
import subprocess
import sys

D = "lib_trainer/detection_rules/"
MW, EM, WEB, KB = D + "multiword_detector.py", D + "email_detection.py", D + "website_detection.py", D + "keyboard_walk.py"

CASES = [
    # ---------------- semantic mutations: the check must report VIOLATION
    ("m01_mw_threshold_gt", "_identify_multi: the remainder must be seen MORE than threshold times (`>=` -> `>`)",
     [(MW, "if self._get_count(alpha_string[index:]) >= self.threshold:", "if self._get_count(alpha_string[index:]) > self.threshold:")]),
    ("m02_mw_parse_threshold_gt", "parse: a word seen exactly threshold times is no longer a base word (`>=` -> `>`)",
     [(MW, "if self._get_count(alpha_string) >= self.threshold:", "if self._get_count(alpha_string) > self.threshold:")]),
    ("m03_mw_train_min_len_off_by_one", "train: a run of exactly min_len letters is no longer counted (`>=` -> `>`, first occurrence)",
     [(MW, "                    if run_len >= self.min_len:\n                        # If the word hasn't been seen before",
       "                    if run_len > self.min_len:\n                        # If the word hasn't been seen before")]),
    ("m04_mw_get_count_no_lower", "_get_count: the characters are no longer lower-cased before the trie is walked",
     [(MW, "                value = value.lower()\n", "                value = value\n")]),
    ("m05_mw_identify_range_off_by_one", "_identify_multi: the shortest first word is never tried (range stops one early)",
     [(MW, "for index in range(max_index, self.min_len - 1, -1):", "for index in range(max_index, self.min_len, -1):")]),
    ("m06_mw_train_reset_dropped", "train: the trie pointer is not reset after a run is closed (dropped statement)",
     [(MW, "                    # Reset the index and run length\n                    run_len = 0\n                    index = self.lookup\n\n        # Finish",
       "                    # Reset the index and run length\n                    run_len = 0\n\n        # Finish")]),
    ("m07_mw_insert_appended", "_identify_multi: the first word is appended after the parsing of the remainder instead of put in front",
     [(MW, "results.insert(0,alpha_string[0:index])", "results.insert(len(results),alpha_string[0:index])")]),
    ("m10_email_tld_without_dot", "detect_email: the TLD is matched without its leading dot",
     [(EM, "end_index = working_string.find(tld)", "end_index = working_string.find(tld[1:])")]),
    ("m11_email_marker_anywhere", "detect_email: the '@' is searched in the whole string, not before the TLD",
     [(EM, "marker_index = working_string[0:end_index].find('@')", "marker_index = working_string.find('@')")]),
    ("m12_email_end_off_by_one", "detect_email: the e-mail section is cut one character short",
     [(EM, "parsing.append((section[0][0:end_index],'E'))", "parsing.append((section[0][0:end_index - 1],'E'))")]),
    ("m13_email_driver_continue_after_split", "email_detection: `continue` after a split (the same index is examined again)",
     [(EM, "                section_list[index:index] = parsing\n", "                section_list[index:index] = parsing\n                continue\n")]),
    ("m20_web_lower_offsets_mixed_again", "detect_website: the length-preserving lower-casing is removed again (offsets of section[0].lower() used on section[0])",
     [(WEB, "    if len(working_string) != len(section[0]):\n        working_string = ''.join(\n            c.lower() if len(c.lower()) == 1 else c for c in section[0]\n            )\n", "")]),
    ("m21_web_false_positive_test_dropped", "detect_website: a TLD followed by a letter is accepted (the isalpha() test of the false-positive loop dropped)",
     [(WEB, "if (working_string[total_index + len(tld)].isalpha()) or (working_string[total_index + len(tld)] == '.'):",
       "if (working_string[total_index + len(tld)] == '.'):")]),
    ("m22_web_slash_takes_rest_flipped", "detect_website: `== '/'` -> `!= '/'` when the end of the URL is looked for",
     [(WEB, "elif working_string[end_index] == '/':", "elif working_string[end_index] != '/':")]),
    ("m23_web_prefix_search_off_by_one", "detect_website: 'http://' is searched in working_string[:start_index + 1] (off by one)",
     [(WEB, "prefix_index = working_string[:start_index].rfind('http://')", "prefix_index = working_string[:start_index + 1].rfind('http://')")]),
    ("m24_web_reordered_appends", "detect_website: the section before the URL is appended after the URL section (reordered statements)",
     [(WEB, "            if start_of_url != 0:\n                # Using the section vs working_section to preserve capitalization\n                parsing.append((section[0][0:start_of_url],None))\n\n            # Add the URL to the parsing\n            parsing.append((working_string[start_of_url:end_of_url],'W'))\n",
       "            # Add the URL to the parsing\n            parsing.append((working_string[start_of_url:end_of_url],'W'))\n\n            if start_of_url != 0:\n                # Using the section vs working_section to preserve capitalization\n                parsing.append((section[0][0:start_of_url],None))\n")]),
    ("m25_web_dot_after_tld_accepted", "detect_website: a TLD followed by '.' is accepted (the false-positive loop tests '-' instead of '.')",
     [(WEB, "(working_string[total_index + len(tld)] == '.'):", "(working_string[total_index + len(tld)] == '-'):")]),
    # (not kept: dropping `total_index += len(tld)` in the false-positive loop makes the real code loop forever, so the
    #  in-process run of the implementation hangs until the shell timeout and no verdict line is printed)
    ("m30_kbd_run_on_other_layout", "seeded C05-4: keyboard_run_list = dict(current_runs): a run may continue on a different layout",
     "SEEDED:C05-4"),
    ("m31_kbd_run_list_one_expression", "seeded C05-6: the keyboard_run_list bookkeeping 'tidied' into one expression",
     "SEEDED:C05-6"),
    ("m32_kbd_min_run_3", "detect_keyboard_walk: min_keyboard_run=3 (the default the parser uses)",
     [(KB, "def detect_keyboard_walk(password, min_keyboard_run=4):", "def detect_keyboard_walk(password, min_keyboard_run=3):")]),
    ("m33_kbd_class_mix_test_dropped", "interesting_keyboard: one character class is enough (`>= 2` -> `>= 1`)",
     [(KB, "    if (alpha + special + digit) >= 2:", "    if (alpha + special + digit) >= 1:")]),
    ("m34_kbd_right_neighbour_dropped", "is_next_on_keyboard: on the same row only the left neighbour counts",
     [(KB, "            if (cur_data['pos'] == past_data['pos'] - 1) or (cur_data['pos'] == past_data['pos'] + 1):",
       "            if (cur_data['pos'] == past_data['pos'] - 1):")]),
    ("m35_kbd_shift_row_number", "find_keyboard_row_column: the shifted second row is reported as row 3",
     [(KB, "                'row': 2,\n                'pos': board['s_row2'].index(char)", "                'row': 3,\n                'pos': board['s_row2'].index(char)")]),
    ("m36_kbd_prefix_slice_off_by_one", "detect_keyboard_walk: the section before a walk is one character too long",
     [(KB, "                            (password[0:index-len(cur_combo)], None))", "                            (password[0:index-len(cur_combo)+1], None))")]),
    ("m37_kbd_combo_restart_empty", "detect_keyboard_walk: after a run ends the new run starts empty (`cur_combo = [value]` -> `[]`)",
     [(KB, "            cur_combo = [value]\n", "            cur_combo = []\n")]),
    ("m38_kbd_interesting_filter_shifted", "interesting_keyboard: the 'er' filter looks at combo[0], combo[1] instead of combo[1], combo[2]",
     [(KB, "    if (combo[1] == 'e') and (combo[2] == 'r'):", "    if (combo[0] == 'e') and (combo[1] == 'r'):")]),
    # ---------------- harmless edits: the check must stay OK
    ("h01_comments_docstrings_blank_lines", "comments, docstrings and blank lines changed in the three files",
     [(MW, "        # pointer to the current position in the lookup table\n", "        # where we are in the trie\n\n\n"),
      (MW, "        Gets the number of times the alpha_string has been seen in training\n", "        How often was alpha_string seen in training?\n"),
      (EM, "    # Bail out checks before looking for TLDs to see if it might be an e-mail\n", ""),
      (WEB, "    parsing = []\n", "    parsing = []   # the replacement sections\n")]),
    ("h02_locals_renamed", "locals renamed: train index->node, run_len->n, letter->ch; _get_count value->v; detect_email end_index->stop, marker_index->amp; detect_website total_index->ti, prefix_index->pi",
     "RENAME"),
    ("h03_equivalent_reformatting", "equivalent spellings: parse's two length tests merged with `or`, `x += e` written out, `-1 != x`, `x > y` for `y < x`, parenthesised conditions, a `pass`",
     [(MW, "        if len(alpha_string) < self.min_len:\n            return False, [alpha_string]\n\n        if len(alpha_string) >= self.max_len:\n            return False, [alpha_string]\n",
       "        if (len(alpha_string) < self.min_len) or (self.max_len <= len(alpha_string)):\n            return False, [alpha_string]\n"),
      (MW, "                run_len += 1\n", "                run_len = run_len + 1\n"),
      (EM, "            end_index += len(tld)\n", "            end_index = end_index + len(tld)\n            pass\n"),
      (EM, "        if end_index != -1:", "        if -1 != end_index:"),
      (WEB, "        while end_index != -1:", "        while -1 != end_index:"),
      (WEB, "                    total_index += end_index\n", "                    total_index = total_index + end_index\n"),
      (WEB, "            if start_of_url != 0:", "            if (start_of_url != 0):")]),
    ("h04_get_count_key_inlined", "_get_count: `value = value.lower(); index = index[value]` -> `index = index[value.lower()]`",
     [(MW, "                value = value.lower()\n\n                # Reminder, that Index is basically a tree, so we're walking\n                # the tree here\n                index = index[value]\n",
       "                index = index[value.lower()]\n")]),
    ("h05_independent_statements_reordered", "independent statements reordered: detect_email computes provider before found; detect_website binds host after prefix / start_of_url",
     [(EM, "                found = working_string[0:end_index]\n", ""),
      (EM, "                provider = working_string[marker_index + 1:end_index]\n", "                provider = working_string[marker_index + 1:end_index]\n                found = working_string[0:end_index]\n"),
      (WEB, "            host = working_string[start_index:total_index+len(tld)]\n", ""),
      (WEB, "            start_of_url = -1\n", "            start_of_url = -1\n            host = working_string[start_index:total_index+len(tld)]\n")]),
    ("h10_kbd_comments_and_renames", "keyboard_walk.py: comments / docstring changed, locals renamed (cur_combo->run_chars, pos_list->places, past_name->lname, value->ch in interesting_keyboard)",
     "RENAME_KB"),
    ("h11_kbd_equivalent_spellings", "keyboard_walk.py: swapped == operands in is_next_on_keyboard, the last two ifs of detect_keyboard_walk merged with `and`, parenthesised conditions",
     [(KB, "        if cur_data['row'] == past_data['row']:\n            if (cur_data['pos']", "        if past_data['row'] == cur_data['row']:\n            if (cur_data['pos']"),
      (KB, "        elif cur_data['row'] == past_data['row'] + 1:", "        elif past_data['row'] + 1 == cur_data['row']:"),
      (KB, """    if len(cur_combo) >= min_keyboard_run:

        # Look at saving this keyboard combo
        #
        # See if the keyboard combo is interesting enough to save
        if interesting_keyboard(cur_combo):

            # Save the results
            found_list.append(''.join(cur_combo))

            # Update base structure mask
            #
            # Update any unprocessed sections before the current run
            if len(cur_combo) != len(password):
                section_list.append(
                    (password[0:len(password)-len(cur_combo)], None))

            # Update the mask for the current run
            section_list.append((''.join(cur_combo), "K"+str(len(cur_combo))))

        # Not treating it as a keyboard combo since it is not intersting
        else:
            section_list.append((password, None))

    # No keyboard run found
    else:
        section_list.append((password, None))
""", """    if (len(cur_combo) >= min_keyboard_run) and interesting_keyboard(cur_combo):
        # Save the results
        found_list.append(''.join(cur_combo))
        if len(cur_combo) != len(password):
            section_list.append(
                (password[0:len(password)-len(cur_combo)], None))
        section_list.append((''.join(cur_combo), "K"+str(len(cur_combo))))
    else:
        section_list.append((password, None))
""")]),
    # ---------------- outside the accepted subset: fail closed, VIOLATION
    ("t01_mw_memo_table", "seeded C05-3: _identify_multi memoised in self._multi_cache (aliased result list): outside the subset",
     "SEEDED:C05-3"),
    ("t02_mw_train_flattened", "seeded C05-2: train's `if run_len != 0: if run_len >= min_len:` flattened, reset moved inside",
     "SEEDED:C05-2"),
    ("t03_web_casefold", "seeded C05-1: detect_website uses str.casefold(): outside the subset",
     "SEEDED:C05-1"),
]

RENAMES = [
    (MW, "train", {"index": "node", "run_len": "n", "letter": "ch"}),
    (MW, "_get_count", {"value": "v"}),
    (EM, "detect_email", {"end_index": "stop", "marker_index": "amp"}),
    (WEB, "detect_website", {"total_index": "ti", "prefix_index": "pi"}),
]


RENAMES_KB = [
    (KB, "detect_keyboard_walk", {"cur_combo": "run_chars", "pos_list": "places"}),
    (KB, "is_next_on_keyboard", {"past_name": "lname"}),
    (KB, "interesting_keyboard", {"value": "ch"}),
]


def rename_locals(scratch, renames=None):
    """rename locals inside one function by token (tokenize keeps comments and layout)"""
    import ast
    import io
    import tokenize
    for rel, fname, table in (renames or RENAMES):
        path = os.path.join(scratch, rel)
        src = open(path, encoding="utf-8", newline="").read()
        tree = ast.parse(src)
        fn = [n for n in ast.walk(tree) if isinstance(n, ast.FunctionDef) and n.name == fname][0]
        out = []
        for tok in tokenize.generate_tokens(io.StringIO(src).readline):
            if tok.type == tokenize.NAME and tok.string in table and fn.lineno <= tok.start[0] <= fn.end_lineno:
                tok = tok._replace(string=table[tok.string])
            out.append(tok)
        # untokenize with full 5-tuples keeps positions only if lengths are unchanged; rebuild by lines instead
        lines = src.split("\n")          # (a CRLF file keeps its "\r" at the end of every piece)
        edits = {}
        for tok in tokenize.generate_tokens(io.StringIO(src).readline):
            if tok.type == tokenize.NAME and tok.string in table and fn.lineno <= tok.start[0] <= fn.end_lineno:
                edits.setdefault(tok.start[0], []).append((tok.start[1], tok.end[1], table[tok.string]))
        for ln, es in edits.items():
            s = lines[ln - 1]
            for a, b, new in sorted(es, reverse=True):
                s = s[:a] + new + s[b:]
            lines[ln - 1] = s
        open(path, "w", encoding="utf-8", newline="").write("\n".join(lines))


def main():
    scratch = sys.argv[1]
    here = os.path.dirname(os.path.abspath(__file__))
    verif = os.path.abspath(os.path.join(here, "..", "..", ".."))
    only = set(sys.argv[2:])
    for name, what, edits in CASES:
        if only and name not in only:
            continue
        subprocess.run(["git", "-C", scratch, "checkout", "-q", "."], check=True)
        if edits == "RENAME":
            rename_locals(scratch)
        elif edits == "RENAME_KB":
            rename_locals(scratch, RENAMES_KB)
            path = os.path.join(scratch, KB)
            src = open(path, encoding="utf-8", newline="").read()
            src = src.replace("    # Find the keyboard position of the current character", "    # where is this key?", 1)
            src = src.replace("    Finds if a new key is next to the previous key", "    Is the new key a neighbour of the previous one?", 1)
            open(path, "w", encoding="utf-8", newline="").write(src)
        elif isinstance(edits, str) and edits.startswith("SEEDED:"):
            patch = os.path.join(verif, "seeded", edits.split(":")[1], "patch.diff")
            subprocess.run(["git", "-C", scratch, "apply", patch], check=True)
        else:
            for rel, old, new in edits:
                path = os.path.join(scratch, rel)
                src = open(path, encoding="utf-8", newline="").read()
                crlf = "\r\n" in src
                if crlf:
                    old, new = old.replace("\n", "\r\n"), new.replace("\n", "\r\n")
                if src.count(old) != 1:
                    raise SystemExit("%s: %r occurs %d times in %s" % (name, old[:60], src.count(old), rel))
                open(path, "w", encoding="utf-8", newline="").write(src.replace(old, new))
        diff = subprocess.run(["git", "-C", scratch, "diff"], check=True, capture_output=True).stdout    # bytes: CRLF files
        if not diff.strip():
            raise SystemExit("%s: empty diff" % name)
        with open(os.path.join(here, name + ".diff"), "wb") as f:
            f.write(("# %s\n" % what).encode("utf-8"))
            f.write(diff)
        # the edited files must still be valid Python
        for line in diff.decode("utf-8").splitlines():
            if line.startswith("+++ b/"):
                subprocess.run(["/venv/bin/python", "-m", "py_compile", os.path.join(scratch, line[6:])], check=True,
                               env=dict(os.environ, PYTHONDONTWRITEBYTECODE="1"))
        print("wrote", name)
    subprocess.run(["git", "-C", scratch, "checkout", "-q", "."], check=True)


if __name__ == "__main__":
    main()
