#!/venv/bin/python
"""Writes the tie-test diffs of this directory from the current /repo sources (CRLF kept).
m*: semantic mutations (the check must report VIOLATION); h*: harmless edits (the check must stay OK).
    /venv/bin/python docs/tie_tests/T16/make_diffs.py"""
import difflib
import os

HERE = os.path.dirname(os.path.abspath(__file__))
REPO = "/repo"
Q = "lib_guesser/priority_queue.py"
G = "lib_guesser/pcfg_grammar.py"


def read(rel):
    with open(os.path.join(REPO, rel), encoding="utf-8", newline="") as f:
        return f.read()


def edit(src, pairs):
    nl = "\r\n" if "\r\n" in src else "\n"
    for old, new in pairs:
        old, new = old.replace("\n", nl), new.replace("\n", nl)
        assert src.count(old) == 1, "not exactly once: %r" % old
        src = src.replace(old, new)
    return src


def diff(rel, new):
    old = read(rel)
    return "".join(difflib.unified_diff(old.splitlines(True), new.splitlines(True), "a/" + rel, "b/" + rel))


P = "self.pt_item['prob']"
O = "other.pt_item['prob']"
CASES = {
    # ---------------- mutations
    "m01_lt_compares_the_other_way": {Q: [("return %s > %s" % (P, O), "return %s < %s" % (P, O))]},
    "m02_max_probability_not_updated": {Q: [("        self.max_probability = queue_item.pt_item['prob']\n", "")]},
    "m03_children_pushed_before_the_pop": {Q: [(
        "        queue_item = heapq.heappop(self.p_queue)\n        self.max_probability = queue_item.pt_item['prob']\n",
        "        queue_item = self.p_queue[0]\n"),
        ("            self.insert_queue(child)\n\n        return queue_item.pt_item",
         "            self.insert_queue(child)\n\n        queue_item = heapq.heappop(self.p_queue)\n"
         "        self.max_probability = queue_item.pt_item['prob']\n        return queue_item.pt_item")]},
    "m04_restore_walk_le_to_lt": {G: [("        elif parent_prob <= max_prob:\n", "        elif parent_prob < max_prob:\n")]},
    "m05_restore_skips_first_base_item": {Q: [(
        "        for base_item in self.pcfg.initalize_base_structures():\n            self.restore_base_item(base_item)",
        "        first = True\n        for base_item in self.pcfg.initalize_base_structures():\n            if first:\n"
        "                first = False\n                continue\n            self.restore_base_item(base_item)")]},
    "m06_save_writes_min_for_max": {Q: [("'max_probability', str(self.max_probability))", "'max_probability', str(self.min_probability))")]},
    "m07_restore_drops_max_probability_read": {Q: [(
        "        self.max_probability = save_config.getfloat('guessing_info', 'max_probability')\n", "")]},
    "m08_initial_min_probability_nonzero": {Q: [("        self.min_probability = 0.0\n", "        self.min_probability = 0.001\n")]},
    "m09_empty_test_off_by_one": {Q: [("if len(self.p_queue) == 0:", "if len(self.p_queue) <= 1:")]},
    "m10_ge_flipped": {Q: [("return %s <= %s" % (P, O), "return %s >= %s" % (P, O))]},
    "m11_recursion_limit_not_raised": {G: [("            sys.setrecursionlimit(recursion_depth)\n", "")]},
    "m12_restore_entry_starts_at_left_index_1": {G: [(
        "self._recursive_restore_prob_order(pt_item, max_prob, min_prob, save_function)\n        except",
        "self._recursive_restore_prob_order(pt_item, max_prob, min_prob, save_function, 1)\n        except")]},
    "m13_restore_base_item_swaps_max_and_min": {Q: [(
        "            self.max_probability,\n            self.min_probability,\n",
        "            self.min_probability,\n            self.max_probability,\n")]},
    "m14_restored_min_read_from_max_option": {Q: [(
        "self.min_probability = save_config.getfloat('guessing_info', 'min_probability')",
        "self.min_probability = save_config.getfloat('guessing_info', 'max_probability')")]},
    # ---------------- harmless edits
    "h1_comments_docstrings_renamed_locals": {Q: [
        ("        # Check if the queue is empty\n", "        # nothing left?\n"),
        ("        Pops the top value off the queue and inserts children back\n", "        Pop the most probable item; push its children.\n"),
        ("        queue_item = heapq.heappop(self.p_queue)\n        self.max_probability = queue_item.pt_item['prob']\n",
         "        popped = heapq.heappop(self.p_queue)\n        self.max_probability = popped.pt_item['prob']\n"),
        ("        for child in self.pcfg.find_children(queue_item.pt_item):\n            self.insert_queue(child)\n\n        return queue_item.pt_item",
         "        for kid in self.pcfg.find_children(popped.pt_item):\n            self.insert_queue(kid)\n\n        return popped.pt_item"),
        ("        load_success = self.pcfg.restore_prob_order(\n            base_item,", "        done = self.pcfg.restore_prob_order(\n            base_item,"),
        ("        for base_item in self.pcfg.initalize_base_structures():\n            self.restore_base_item(base_item)",
         "        for root in self.pcfg.initalize_base_structures():\n            self.restore_base_item(root)"),
    ]},
    "h2_comparisons_rewritten_equivalently": {Q: [
        ("return %s > %s" % (P, O), "return not (%s <= %s)" % (P, O)),
        ("return %s >= %s" % (P, O), "mine = %s\n        return not (mine < %s)" % (P, O)),
        ("return %s == %s" % (P, O), "return not (%s != %s)" % (P, O)),
        ("return %s < %s" % (P, O), "return %s > %s" % (O, P)),
        ("return %s <= %s" % (P, O), "return not self < other"),
        ("return %s != %s" % (P, O), "return %s < %s or %s > %s" % (P, O, P, O)),
    ]},
    "h3_equivalent_reformatting": {Q: [
        ("        if len(self.p_queue) == 0:\n            return None\n", "        if not self.p_queue:\n            return None\n"),
        ("        queue_item = heapq.heappop(self.p_queue)\n        self.max_probability = queue_item.pt_item['prob']\n",
         "        queue_item = heapq.heappop(self.p_queue)\n        pt_popped = queue_item.pt_item\n"),
        ("        for child in self.pcfg.find_children(queue_item.pt_item):\n            self.insert_queue(child)\n\n        return queue_item.pt_item",
         "        for child in self.pcfg.find_children(pt_popped):\n            heapq.heappush(self.p_queue, QueueItem(child))\n"
         "        self.max_probability = pt_popped['prob']\n\n        return pt_popped"),
        ("        if save_config is None:\n            # Initalize the priority queue with all of the initial base\n"
         "            # structures from the pcfg\n            for base_item in self.pcfg.initalize_base_structures():\n"
         "                heapq.heappush(self.p_queue, QueueItem(base_item))\n\n            return\n\n"
         "        # Restore Guessing Session\n"
         "        self.min_probability = save_config.getfloat('guessing_info', 'min_probability')\n"
         "        self.max_probability = save_config.getfloat('guessing_info', 'max_probability')\n\n"
         "        for base_item in self.pcfg.initalize_base_structures():\n            self.restore_base_item(base_item)",
         "        if save_config is not None:\n            # Restore Guessing Session\n"
         "            self.max_probability = save_config.getfloat('guessing_info', 'max_probability')\n"
         "            self.min_probability = save_config.getfloat('guessing_info', 'min_probability')\n"
         "            for base_item in self.pcfg.initalize_base_structures():\n                self.restore_base_item(base_item)\n"
         "        else:\n            for base_item in self.pcfg.initalize_base_structures():\n"
         "                self.insert_queue(base_item)"),
        ("        save_config.set('guessing_info', 'min_probability', str(self.min_probability))\n"
         "        save_config.set('guessing_info', 'max_probability', str(self.max_probability))",
         "        save_config.set('guessing_info', 'max_probability', str(self.max_probability))\n"
         "        save_config.set('guessing_info', 'min_probability', str(self.min_probability))"),
    ]},
    "h4_recursion_limit_literal_before_try": {G: [
        ("        recursion_depth = 10**6\n        try:\n            sys.setrecursionlimit(recursion_depth)\n",
         "        recursion_depth = 1000 * 1000\n        sys.setrecursionlimit(recursion_depth)\n        try:\n"),
    ]},
}

if __name__ == "__main__":
    for name, files in CASES.items():
        text = "".join(diff(rel, edit(read(rel), pairs)) for rel, pairs in files.items())
        with open(os.path.join(HERE, name + ".diff"), "w", encoding="utf-8", newline="") as f:
            f.write(text)
        print(name, len(text.splitlines()), "lines")
