#!/bin/sh
# The tie tests through the real driver: every diff of this directory is applied to a scratch worktree of
# /repo and the quick check of the properties it concerns is run against it (PCFG_REPO), on a private copy
# of coq/ (PCFG_COQ) so that this worktree's generated files are not touched; the last line of each run goes
# to RESULTS.txt.  m* must end in VIOLATION, h* in OK.  About 30 s per run.
#   sh docs/tie_tests/T16/run_all.sh [name-prefix ...]
V=$(cd "$(dirname "$0")/../../.." && pwd)
SC=/tmp/sc_T16_all
CQ=/tmp/sc_T16_all_coq
OUT=/tmp/sc_T16_out
D=$V/docs/tie_tests/T16
props_of() {
  case $1 in
    m01*|m02*|m10*) echo "C01";;
    m03*|m09*) echo "C01 C02";;
    m15*|m17*) echo "C01";;
    h*) echo "C01 C02 C08";;
    *) echo "C08";;
  esac
}
git -C /repo worktree remove --force $SC >/dev/null 2>&1
git -C /repo worktree add --detach $SC HEAD >/dev/null 2>&1 || exit 1
rm -rf $CQ && cp -a $V/coq $CQ
RES=$D/RESULTS.txt
[ $# -eq 0 ] && : > $RES
for diff in $D/*.diff; do
  name=$(basename $diff .diff)
  if [ $# -gt 0 ]; then ok=0; for p in "$@"; do case $name in $p*) ok=1;; esac; done; [ $ok = 1 ] || continue; fi
  git -C $SC checkout -q -- . && (cd $SC && patch -p1 --binary -s < $diff) || { echo "$name: patch failed" | tee -a $RES; continue; }
  for prop in $(props_of $name); do
    cd $V && rm -rf $OUT && PCFG_REPO=$SC PCFG_COQ=$CQ PCFG_OUT=$OUT ./check $prop --tier quick > /tmp/sc_T16_run.log 2>&1
    last=$(tail -1 /tmp/sc_T16_run.log)
    why=$(grep -m1 -E "^VIOLATION|KNOWN" /tmp/sc_T16_run.log | cut -c1-200)
    det=$(grep -m1 -E "no longer checks: correspondence translator-tie" /tmp/sc_T16_run.log | sed 's/.*(QueueGenProofs): //' | cut -c1-260)
    [ -z "$det" ] && det=$(grep -m1 -E "no longer checks" /tmp/sc_T16_run.log | cut -c1-260)
    echo "$name [$prop]: $last | $why | $det" | tee -a $RES
  done
done
git -C /repo worktree remove --force $SC
rm -rf $OUT $CQ
