#!/bin/sh
# Translator + equality proofs + Props only (no oracle run): for every diff of this directory, applied to a
# scratch worktree of /repo, say whether the translators accept the source and which lemma stops checking.
# Works on a private copy of coq/ (PCFG_COQ), so the gen files of this worktree are not touched.
#   sh docs/tie_tests/T16/quick_probe.sh [name-prefix ...]
V=$(cd "$(dirname "$0")/../../.." && pwd)
SC=/tmp/sc_T16_probe
CQ=/tmp/sc_T16_probe_coq
D=$V/docs/tie_tests/T16
FILES="gen/Kernel_gen.v theories/KernelGenProofs.v gen/Queue_gen.v theories/QueueGenProofs.v"
git -C /repo worktree remove --force $SC >/dev/null 2>&1
git -C /repo worktree add --detach $SC HEAD >/dev/null 2>&1 || exit 1
rm -rf $CQ && cp -a $V/coq $CQ
probe() {
  cd $V
  res=""
  PCFG_REPO=$SC PCFG_COQ=$CQ /venv/bin/python harness/translate_kernel.py --write >/tmp/sc_T16_probe.log 2>&1 || \
    res="KERNEL REFUSED: $(grep -o 'TranslateError.*' /tmp/sc_T16_probe.log | tail -1 | cut -c1-260); "
  PCFG_REPO=$SC PCFG_COQ=$CQ /venv/bin/python harness/translate_queue.py --write >/tmp/sc_T16_probe.log 2>&1 || \
    res="${res}REFUSED: $(grep -o 'TranslateError.*' /tmp/sc_T16_probe.log | tail -1 | cut -c1-260); "
  cd $CQ
  for f in $FILES Props/C01.v Props/C02.v Props/C08.v; do
    if grep -q "translation of the current sources FAILED" $f; then break; fi
    if ! timeout 600 coqc -Q theories Pcfg -Q gen PcfgGen -Q Props PcfgProps $f >/tmp/sc_T16_probe.log 2>&1; then
      line=$(grep -o 'line [0-9]*' /tmp/sc_T16_probe.log | head -1 | cut -d' ' -f2)
      lemma=$(head -n "${line:-1}" $f | grep -E '^(Lemma|Theorem|Definition|Example)' | tail -1 | cut -d' ' -f1-2)
      res="${res}PROOF FAILS: $f:$line ($lemma); "
      break
    fi
  done
  [ -n "$res" ] && echo "$res" || echo "proofs check"
}
for diff in $D/*.diff; do
  name=$(basename $diff .diff)
  if [ $# -gt 0 ]; then ok=0; for p in "$@"; do case $name in $p*) ok=1;; esac; done; [ $ok = 1 ] || continue; fi
  git -C $SC checkout -q -- . && (cd $SC && patch -p1 --binary -s < $diff) || { echo "$name: patch failed"; continue; }
  echo "$name: $(probe)"
done
git -C /repo worktree remove --force $SC
rm -rf $CQ
