#!/bin/sh
# Offline build of the Coq development (full .vo build, never -vos).
set -e
cd "$(dirname "$0")"
/venv/bin/python harness/extract_consts.py >/dev/null
cd coq
coq_makefile -f _CoqProject -o Makefile.coq
timeout 3000 make -f Makefile.coq -j16
