#!/bin/sh
# Offline build of the Coq development (full .vo build, never -vos).
set -e
cd "$(dirname "$0")"
/venv/bin/python harness/extract_consts.py >/dev/null
cd coq
/venv/bin/python -c "import sys; sys.path.insert(0,\"../harness\"); import common; common.assemble_coqproject()"
coq_makefile -f _CoqProject -o Makefile.coq
timeout 3000 make -f Makefile.coq -j16
