#!/bin/sh
# Offline build of the Coq development (full .vo build, never -vos).
set -e
cd "$(dirname "$0")"
/venv/bin/python harness/extract_consts.py >/dev/null
cd coq
/venv/bin/python -c "import sys; sys.path.insert(0,\"../harness\"); import common; common.assemble_coqproject()"
coq_makefile -f _CoqProject -o Makefile.coq
# -k: a theory that does not build only affects the properties whose theorem
# file depends on it; every check rebuilds and reports that itself
timeout 3000 make -k -f Makefile.coq -j16 || echo "setup: some theory files did not build (the dependent checks will report it)"
