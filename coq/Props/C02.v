(* C02 - run to exhaustion, every pre-terminal exactly once.  Theorems only. *)
From Coq Require Import List Bool Sorting.Permutation Floats.
From Pcfg Require Import ProbAlg F64 Next NextSpec NextProofs NextFacts.

Theorem C02_exactly_once :
  forall (A : palg) (rs : ruleset A), wf rs -> forall pop, pop_ok_okb pop ->
    Permutation (emitted (run pop rs (total rs) (start rs))) (all_preterminals rs) /\
    pending (run pop rs (total rs) (start rs)) = nil.
Proof. exact (fun A rs H pop => C02_exactly_once_okb rs H pop). Qed.

(* what the implementation's dictionaries show (no ghost tag): duplicates of a
   base-structure line are counted with multiplicity *)
Theorem C02_exactly_once_keys :
  forall (A : palg) (rs : ruleset A), wf rs -> forall pop, pop_ok_okb pop ->
    Permutation (map key (emitted (run pop rs (total rs) (start rs)))) (map key (all_preterminals rs)).
Proof. exact (fun A rs H pop => C02_exactly_once_keys_okb rs H pop). Qed.

Theorem C02_no_early_exhaustion :
  forall (A : palg) (rs : ruleset A), wf rs -> forall pop n, pop_ok_okb pop ->
    n <= total rs -> length (emitted (run pop rs n (start rs))) = n.
Proof. exact (fun A rs H pop n => C02_no_early_exhaustion_okb rs H pop n). Qed.

(* every intermediate state of the queue: nothing is held twice *)
Theorem C02_frontier_nodup :
  forall (A : palg) (rs : ruleset A), wf rs -> forall pop n, pop_ok_okb pop ->
    NoDup (emitted (run pop rs n (start rs)) ++ pending (run pop rs n (start rs))).
Proof. exact (fun A rs H pop n => C02_frontier_nodup_okb rs H pop n). Qed.

(* the adoption rule: exactly one parent adopts (ties included) *)
Theorem C02_adopter_unique :
  forall (A : palg) (rs : ruleset A) c p1 p2, adopts rs p1 c -> adopts rs p2 c -> p1 = p2.
Proof. exact (fun A rs c p1 p2 => adopts_unique rs p1 p2 c). Qed.

Theorem C02_binary64 :
  forall rs : ruleset F64, wfb rs = true ->
    Permutation (emitted (run pop_first_max rs (total rs) (start rs))) (all_preterminals rs) /\
    pending (run pop_first_max rs (total rs) (start rs)) = nil.
Proof.
  exact (fun rs H => C02_exactly_once_okb rs (wfb_wf rs H) pop_first_max (@pop_first_max_ok_partial F64)).
Qed.

Theorem C02_hypotheses_satisfiable : wf demo_rs /\ total demo_rs = 44.
Proof. exact (conj demo_wf demo_total). Qed.

Print Assumptions C02_exactly_once.
Print Assumptions C02_frontier_nodup.
Print Assumptions C02_binary64.
