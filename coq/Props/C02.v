(* C02 - run to exhaustion, every pre-terminal exactly once.  Theorems only. *)
From Coq Require Import List Bool Sorting.Permutation Floats.
From Pcfg Require Import ProbAlg F64 Next NextSpec NextProofs NextFacts.
From Pcfg Require Import KernelRt KernelGenProofs.
From PcfgGen Require Import Kernel_gen.

Theorem C02_exactly_once :
  forall (A : palg) (rs : ruleset A), wf rs -> forall pop, pop_ok_okb pop ->
    Permutation (emitted (run pop rs (total rs) (start rs))) (all_preterminals rs) /\
    pending (run pop rs (total rs) (start rs)) = nil.
Proof. exact (fun A rs H pop => C02_exactly_once_okb rs H pop). Qed.

(* what the implementation's dictionaries show (no ghost tag): duplicates of a
   base-structure line are counted with multiplicity *)
Theorem C02_exactly_once_keys :
  forall (A : palg) (rs : ruleset A), wf rs -> forall pop, pop_ok_okb pop ->
    Permutation (map key (emitted (run pop rs (total rs) (start rs)))) (map key (all_preterminals rs)).
Proof. exact (fun A rs H pop => C02_exactly_once_keys_okb rs H pop). Qed.

Theorem C02_no_early_exhaustion :
  forall (A : palg) (rs : ruleset A), wf rs -> forall pop n, pop_ok_okb pop ->
    n <= total rs -> length (emitted (run pop rs n (start rs))) = n.
Proof. exact (fun A rs H pop n => C02_no_early_exhaustion_okb rs H pop n). Qed.

(* every intermediate state of the queue: nothing is held twice *)
Theorem C02_frontier_nodup :
  forall (A : palg) (rs : ruleset A), wf rs -> forall pop n, pop_ok_okb pop ->
    NoDup (emitted (run pop rs n (start rs)) ++ pending (run pop rs n (start rs))).
Proof. exact (fun A rs H pop n => C02_frontier_nodup_okb rs H pop n). Qed.

(* the adoption rule: exactly one parent adopts (ties included) *)
Theorem C02_adopter_unique :
  forall (A : palg) (rs : ruleset A) c p1 p2, adopts rs p1 c -> adopts rs p2 c -> p1 = p2.
Proof. exact (fun A rs c p1 p2 => adopts_unique rs p1 p2 c). Qed.

Theorem C02_binary64 :
  forall rs : ruleset F64, wfb rs = true ->
    Permutation (emitted (run pop_first_max rs (total rs) (start rs))) (all_preterminals rs) /\
    pending (run pop_first_max rs (total rs) (start rs)) = nil.
Proof.
  exact (fun rs H => C02_exactly_once_okb rs (wfb_wf rs H) pop_first_max (@pop_first_max_ok_partial F64)).
Qed.

Theorem C02_hypotheses_satisfiable : wf demo_rs /\ total demo_rs = 44.
Proof. exact (conj demo_wf demo_total). Qed.

(* ---- second tie to the source: gen/Kernel_gen.v is the translation of the Python
   text of _find_prob, _are_you_my_child, find_children and initalize_base_structures (harness/translate_kernel.py,
   redone on every run); it equals the model the theorems above are about, for every
   choice of the undefined values up / un and all parse trees with indices in range *)
Theorem C02_source_find_prob_is_model :
  forall (A : palg) (up : P A) (rs : ruleset A) (t : pt) (b : P A),
  inrange rs t -> py_find_prob up rs t b = find_prob rs t b.
Proof. exact (fun A up rs t b => kernel_find_prob_eq up rs t b). Qed.

Theorem C02_source_my_child_is_model :
  forall (A : palg) (up : P A) (un : var * nat) (rs : ruleset A) (child : pt) (base : P A) (ppos : nat) (pprob : P A),
  inrange rs child -> py_are_you_my_child up un rs child base ppos pprob = my_child rs child base ppos pprob.
Proof. exact (fun A up un rs child base ppos pprob => kernel_my_child_eq up un rs child base ppos pprob). Qed.

Theorem C02_source_find_children_is_model :
  forall (A : palg) (up : P A) (un : var * nat) (rs : ruleset A) (it : item A),
  inrange rs (ipt it) -> py_find_children up un rs it = find_children rs it.
Proof. exact (fun A up un rs it => kernel_find_children_eq up un rs it). Qed.

Theorem C02_source_init_is_model :
  forall (A : palg) (up : P A) (rs : ruleset A), wf rs ->
  py_initalize_base_structures up rs = init_items rs.
Proof. exact (fun A up rs H => kernel_init_eq_wf up rs H). Qed.

(* the queue loop over the translated initalize_base_structures / find_children goes
   through the model's states *)
Theorem C02_translated_run_is_model :
  forall (A : palg) (up : P A) (un : var * nat) (rs : ruleset A), wf rs -> forall pop n, pop_ok_okb pop ->
  kernel_run up un pop rs n (kernel_start up rs) = run pop rs n (start rs).
Proof. exact (fun A up un rs H pop n => kernel_run_eq up un rs H pop n). Qed.

Theorem C02_exactly_once_translated :
  forall (A : palg) (up : P A) (un : var * nat) (rs : ruleset A), wf rs -> forall pop, pop_ok_okb pop ->
  Permutation (emitted (kernel_run up un pop rs (total rs) (kernel_start up rs))) (all_preterminals rs) /\
  pending (kernel_run up un pop rs (total rs) (kernel_start up rs)) = nil.
Proof. exact (fun A up un rs H pop => kernel_exactly_once up un rs H pop). Qed.

Print Assumptions C02_exactly_once_translated.

Print Assumptions C02_exactly_once.
Print Assumptions C02_frontier_nodup.
Print Assumptions C02_binary64.

(* ---- third tie to the source: gen/Queue_gen.v is the translation of the Python text of the
   priority-queue OBJECT (lib_guesser/priority_queue.py: QueueItem's comparison methods,
   PcfgQueue.__init__ / next / insert_queue; harness/translate_queue.py, redone on every run).
   heapq is not translated: push / pop are arbitrary functions meeting its contract for the
   translated __lt__.  up / un / ui: the undefined values; flit: the meaning of a float literal;
   fuel: only used by a restored session. ---- *)
From Coq Require Import NArith.
From Pcfg Require Import QueueRt QueueModel QueueProofs QueueGenProofs.
From PcfgGen Require Import Queue_gen.

Theorem C02_source_next_is_model :
  forall (A : palg) (up : P A) (un : var * nat) (ui : item A) (push : heap A -> item A -> heap A)
         (pop : heap A -> option (item A * heap A)) (rs : ruleset A) (q : pcfg_queue A),
  (forall h, pop h = None <-> h = nil) ->
  py_PcfgQueue_next up un ui push pop rs q = q_next push pop (py_find_children up un rs) q.
Proof. exact (fun A up un ui push pop rs q => queue_next_eq up un ui push pop rs q). Qed.

(* ... and, on a heap of pre-terminals of a well-formed grammar, over the model's find_children *)
Theorem C02_translated_next_is_model :
  forall (A : palg) (up : P A) (un : var * nat) (ui : item A) (rs : ruleset A), wf rs ->
  forall (push : heap A -> item A -> heap A) (pop : heap A -> option (item A * heap A)) (q : pcfg_queue A),
  pop_ok_okb pop -> (forall x, In x (p_queue q) -> In x (all_preterminals rs)) ->
  py_PcfgQueue_next up un ui push pop rs q = q_next push pop (find_children rs) q.
Proof.
  exact (fun A up un ui rs H push pop q Hpop Hq =>
           queue_next_model up un ui rs H push pop q Hpop (fun x Hx => proj1 (In_all_preterminals rs x) (Hq x Hx))).
Qed.

Theorem C02_source_insert_queue_is_model :
  forall (A : palg) (push : heap A -> item A -> heap A) (q : pcfg_queue A) (x : item A),
  py_PcfgQueue_insert_queue push q x = set_p_queue q (push (p_queue q) x).
Proof. exact (fun A push q x => queue_insert_eq push q x). Qed.

Theorem C02_source_queue_init_is_model :
  forall (A : palg) (up : P A) (un : var * nat) (flit : float -> P A) (rs : ruleset A), wf rs ->
  forall (push : heap A -> item A -> heap A) (fuel : nat),
  py_PcfgQueue_init up un flit push fuel rs None = q_start push (flit 1%float) (flit 0%float) 50000%N rs.
Proof. exact (fun A up un flit rs H push fuel => queue_init_new_model up un flit rs H push fuel). Qed.

(* C02 for a session over the translated object: PcfgQueue(pcfg), total rs calls of next return every
   pre-terminal exactly once, the heap is then empty and next returns None *)
Theorem C02_exactly_once_queue_translated :
  forall (A : palg) (up : P A) (un : var * nat) (ui : item A) (flit : float -> P A) (rs : ruleset A), wf rs ->
  forall (push : heap A -> item A -> heap A) (pop : heap A -> option (item A * heap A)),
  push_ok push -> heap_ok py_QueueItem_lt pop -> forall fuel : nat,
  let s := py_session up un ui flit push pop fuel rs None (total rs) in
  Permutation (fst s) (all_preterminals rs) /\ p_queue (snd s) = nil /\
  fst (py_PcfgQueue_next up un ui push pop rs (snd s)) = None.
Proof.
  exact (fun A up un ui flit rs H push pop Hpush Hpop fuel =>
           queue_exactly_once up un ui flit rs H push pop Hpush (proj1 (queue_heap_contract pop) Hpop) fuel).
Qed.

(* every intermediate state: nothing is held twice (returned or in the heap), no early exhaustion *)
Theorem C02_frontier_nodup_queue_translated :
  forall (A : palg) (up : P A) (un : var * nat) (ui : item A) (flit : float -> P A) (rs : ruleset A), wf rs ->
  forall (push : heap A -> item A -> heap A) (pop : heap A -> option (item A * heap A)),
  push_ok push -> heap_ok py_QueueItem_lt pop -> forall fuel n : nat,
  let s := py_session up un ui flit push pop fuel rs None n in
  NoDup (fst s ++ p_queue (snd s)) /\ (n <= total rs -> length (fst s) = n).
Proof.
  exact (fun A up un ui flit rs H push pop Hpush Hpop fuel n =>
           queue_frontier_nodup up un ui flit rs H push pop Hpush (proj1 (queue_heap_contract pop) Hpop) fuel n).
Qed.

Theorem C02_queue_hypotheses_satisfiable :
  wf demo_rs /\ push_ok (@list_push F64) /\ heap_ok py_QueueItem_lt (@pop_first_max F64) /\
  length (fst (demo_session None 44)) = 44.
Proof.
  exact (conj demo_wf (conj list_push_ok (conj (proj2 (queue_heap_contract _) pop_first_max_ok_partial)
          (proj1 (proj2 (proj2 (proj2 (proj2 queue_hypotheses_satisfiable)))))))).
Qed.

Print Assumptions C02_exactly_once_queue_translated.
Print Assumptions C02_frontier_nodup_queue_translated.
