(* C02 - run to exhaustion, every pre-terminal exactly once.  Theorems only. *)
From Coq Require Import List Bool Sorting.Permutation Floats.
From Pcfg Require Import ProbAlg F64 Next NextSpec NextProofs NextFacts.
From Pcfg Require Import KernelRt KernelGenProofs.
From PcfgGen Require Import Kernel_gen.

Theorem C02_exactly_once :
  forall (A : palg) (rs : ruleset A), wf rs -> forall pop, pop_ok_okb pop ->
    Permutation (emitted (run pop rs (total rs) (start rs))) (all_preterminals rs) /\
    pending (run pop rs (total rs) (start rs)) = nil.
Proof. exact (fun A rs H pop => C02_exactly_once_okb rs H pop). Qed.

(* what the implementation's dictionaries show (no ghost tag): duplicates of a
   base-structure line are counted with multiplicity *)
Theorem C02_exactly_once_keys :
  forall (A : palg) (rs : ruleset A), wf rs -> forall pop, pop_ok_okb pop ->
    Permutation (map key (emitted (run pop rs (total rs) (start rs)))) (map key (all_preterminals rs)).
Proof. exact (fun A rs H pop => C02_exactly_once_keys_okb rs H pop). Qed.

Theorem C02_no_early_exhaustion :
  forall (A : palg) (rs : ruleset A), wf rs -> forall pop n, pop_ok_okb pop ->
    n <= total rs -> length (emitted (run pop rs n (start rs))) = n.
Proof. exact (fun A rs H pop n => C02_no_early_exhaustion_okb rs H pop n). Qed.

(* every intermediate state of the queue: nothing is held twice *)
Theorem C02_frontier_nodup :
  forall (A : palg) (rs : ruleset A), wf rs -> forall pop n, pop_ok_okb pop ->
    NoDup (emitted (run pop rs n (start rs)) ++ pending (run pop rs n (start rs))).
Proof. exact (fun A rs H pop n => C02_frontier_nodup_okb rs H pop n). Qed.

(* the adoption rule: exactly one parent adopts (ties included) *)
Theorem C02_adopter_unique :
  forall (A : palg) (rs : ruleset A) c p1 p2, adopts rs p1 c -> adopts rs p2 c -> p1 = p2.
Proof. exact (fun A rs c p1 p2 => adopts_unique rs p1 p2 c). Qed.

Theorem C02_binary64 :
  forall rs : ruleset F64, wfb rs = true ->
    Permutation (emitted (run pop_first_max rs (total rs) (start rs))) (all_preterminals rs) /\
    pending (run pop_first_max rs (total rs) (start rs)) = nil.
Proof.
  exact (fun rs H => C02_exactly_once_okb rs (wfb_wf rs H) pop_first_max (@pop_first_max_ok_partial F64)).
Qed.

Theorem C02_hypotheses_satisfiable : wf demo_rs /\ total demo_rs = 44.
Proof. exact (conj demo_wf demo_total). Qed.

(* ---- second tie to the source: gen/Kernel_gen.v is the translation of the Python
   text of _find_prob, _are_you_my_child, find_children and initalize_base_structures (harness/translate_kernel.py,
   redone on every run); it equals the model the theorems above are about, for every
   choice of the undefined values up / un and all parse trees with indices in range *)
Theorem C02_source_find_prob_is_model :
  forall (A : palg) (up : P A) (rs : ruleset A) (t : pt) (b : P A),
  inrange rs t -> py_find_prob up rs t b = find_prob rs t b.
Proof. exact (fun A up rs t b => kernel_find_prob_eq up rs t b). Qed.

Theorem C02_source_my_child_is_model :
  forall (A : palg) (up : P A) (un : var * nat) (rs : ruleset A) (child : pt) (base : P A) (ppos : nat) (pprob : P A),
  inrange rs child -> py_are_you_my_child up un rs child base ppos pprob = my_child rs child base ppos pprob.
Proof. exact (fun A up un rs child base ppos pprob => kernel_my_child_eq up un rs child base ppos pprob). Qed.

Theorem C02_source_find_children_is_model :
  forall (A : palg) (up : P A) (un : var * nat) (rs : ruleset A) (it : item A),
  inrange rs (ipt it) -> py_find_children up un rs it = find_children rs it.
Proof. exact (fun A up un rs it => kernel_find_children_eq up un rs it). Qed.

Theorem C02_source_init_is_model :
  forall (A : palg) (up : P A) (rs : ruleset A), wf rs ->
  py_initalize_base_structures up rs = init_items rs.
Proof. exact (fun A up rs H => kernel_init_eq_wf up rs H). Qed.

(* the queue loop over the translated initalize_base_structures / find_children goes
   through the model's states *)
Theorem C02_translated_run_is_model :
  forall (A : palg) (up : P A) (un : var * nat) (rs : ruleset A), wf rs -> forall pop n, pop_ok_okb pop ->
  kernel_run up un pop rs n (kernel_start up rs) = run pop rs n (start rs).
Proof. exact (fun A up un rs H pop n => kernel_run_eq up un rs H pop n). Qed.

Theorem C02_exactly_once_translated :
  forall (A : palg) (up : P A) (un : var * nat) (rs : ruleset A), wf rs -> forall pop, pop_ok_okb pop ->
  Permutation (emitted (kernel_run up un pop rs (total rs) (kernel_start up rs))) (all_preterminals rs) /\
  pending (kernel_run up un pop rs (total rs) (kernel_start up rs)) = nil.
Proof. exact (fun A up un rs H pop => kernel_exactly_once up un rs H pop). Qed.

Print Assumptions C02_exactly_once_translated.

Print Assumptions C02_exactly_once.
Print Assumptions C02_frontier_nodup.
Print Assumptions C02_binary64.
