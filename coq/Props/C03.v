(* C03 - every supported training password is reproduced by the trained
   grammar.  The composition at the level of one password; the component
   statements are C05 (tiling), C06/C07 (values and masks reach the loaded
   groups), C02 (every pre-terminal is emitted), C04 (expansion = denote). *)
From Coq Require Import List Arith Bool NArith Sorting.Permutation.
From Coq Require Import QArith.
From Coq Require Import Floats.
From Coq Require String.
Import String.StringSyntax.
From Pcfg Require Import ProbAlg F64 Expand ExpandProofs EndToEnd Next NextSpec NextProofs QProb QSum.
From Pcfg Require Str Detect Counters SegCorr PipelineTrain.
From Pcfg Require Import Pipeline PipelineSpec PipelineCorr PipelineDisk PipelineProofs PipelineF64 PipelineF64Bound PipelineQ PipelineCount PipelineCountQ PipelineInst.
Import ListNotations.

(* storing a word lower-cased with its U/L mask loses nothing on the property's
   domain (letters whose case mapping is one-to-one) *)
Theorem C03_mask_roundtrip :
  forall (lower1 : N -> N) (upper_c : N -> str) (isupper : N -> bool) w,
  case_ok lower1 upper_c isupper w ->
  mask_total upper_c (mask_of isupper w) (lower_word lower1 w) = w.
Proof. exact mask_roundtrip. Qed.

(* if the tiles of the password (C05: they concatenate to it) sit, position by
   position, in the groups chosen by a pre-terminal (C06/C07), the password is
   one of that pre-terminal's guesses ... *)
Theorem C03_password_in_expansion :
  forall (upper_c : N -> str) lower1 isupper tiles segs,
  Forall2 (tile_in upper_c lower1 isupper) tiles segs -> In (concat tiles) (denote upper_c segs).
Proof. exact password_in_denote. Qed.

(* ... which create_guesses prints (C04) ... *)
Theorem C03_expansion_is_printed :
  forall (upper_c : N -> str) (omen : str -> list str) segs,
  segs <> [] -> Forall seg_ok' segs ->
  expand upper_c omen (flat_map slots_of segs) [] None = Some (denote upper_c segs, length (denote upper_c segs)).
Proof. exact C04_expand_is_product. Qed.

(* ... and every pre-terminal of the grammar is popped exactly once (C02) *)
Theorem C03_every_preterminal_is_emitted :
  forall (A : palg) (rs : ruleset A), wf rs -> forall pop, pop_ok_okb pop ->
  forall it, In it (all_preterminals rs) -> In it (emitted (run pop rs (total rs) (start rs))).
Proof.
  intros A rs H pop Hp it Hi. destruct (C02_exactly_once_okb rs H pop Hp) as [P _].
  eapply Permutation_in; [apply Permutation_sym; exact P|exact Hi].
Qed.

(* "the probabilities of all emitted guesses sum to 1", over exact rationals:
   if the lines of every terminal file used sum to 1 (one line per value:
   var_mass) and the base structures kept sum to s (s = 1 without Markov, i.e.
   coverage 1; s = 1 - P(M) rescaled to 1 by skip_brute, see C14), the guesses
   of a complete run carry total probability s *)
Theorem C03_sum_Q :
  forall (rs : Qruleset) (sizes : list (list nat)),
  (forall b, In b (bases rs) -> forall v, In v (brepl b) -> (var_mass rs sizes v == 1)%Q) ->
  forall (s : Q) pop, wf rs -> pop_ok_okb pop ->
  (Qsum (map bprob (bases rs)) == s)%Q ->
  (Qsum (map (fun it : Qitem => (iprob it * count_it sizes it)%Q)
             (emitted (run pop rs (total rs) (start rs)))) == s)%Q.
Proof. exact QSum_emitted. Qed.

(* ================================================================== *)
(* ONE pipeline model (theories/Pipeline.v), ONE theorem               *)
(* ================================================================== *)

(* The pipeline: train (check_valid, the two trainer passes with the multi-word
   detector and the detectors, the parser's counters, the Markov pseudo-count)
   -> save (probability lists, file names, config lists) -> the disk stage ->
   load (the guesser's terminal loader with grouping of equal probabilities,
   the base-structure loader with skip_brute) -> session (the next algorithm,
   ANY queue meeting the heap contract pop_ok_okb) -> expansion of every
   pre-terminal.  c_env is the environment of this run: constants regenerated
   from the source, Unicode facts of the interpreter.

   C03, the code's own arithmetic (binary64) and file format (the text the
   trainer writes, read back by the guesser's reader).
   If training on a list [raw] completes, then for every line [pw] of the list
   that check_valid accepts, whose structure has no e-mail / website segment
   (supported_pw) and whose letters have a one-to-one case mapping
   (case_ok_pw), the guesser loads the saved ruleset (skip_brute) and every
   complete session prints pw.
   Assumed of the Python runtime (oracles, io_ok): float(repr(p)) == p with
   repr over 0-9.e+-infa, the ruleset encoding encodes ASCII, the passwords
   and the lower case of what it encodes.  f64_arith_ok is a COMPUTABLE check
   of the float arithmetic on the run's own counters (the hypotheses of
   C06_F64_sorted_unit, P(M) < 1, rescaled base probabilities finite); the
   correspondence evaluates it on every case.  It cannot be dropped: with a
   tiny coverage P(M) rounds to 1.0 and the guesser divides by zero. *)
Theorem C03_reproduced :
  forall (io : fileio) (o : options F64) (raw : list Str.str) (tr : trained F64) (pw : Str.str),
  io_ok io -> (forall c, f_encb io c = true -> f_encb io (Detect.lower1 SegCorr.c_lower c) = true) ->
  train c_env o raw = Some tr -> In pw raw -> accepted_pw c_env pw = true -> supported_pw c_env o raw pw = true ->
  case_ok_pw c_env pw -> Forall (fun p => forallb (f_encb io) p = true) raw -> f64_arith_ok c_env tr = true ->
  exists L, pipeline_F64 c_env io o raw = Some L /\
    forall pop, pop_ok_okb pop ->
      (exists it, In it (session pop L) /\ exists out k, guesses_of RF c_env L it = Some (out, k) /\ In pw out) /\
      In pw (printed RF c_env pop L).
Proof.
  intros io o raw tr pw Hio Hl. exact (C03_reproduced_F64 c_env c_env_ok io (c_io_env_ok io Hio Hl) o raw tr pw).
Qed.

(* binary64 WITHOUT the computable check: trained with coverage 1.0 (no Markov
   mass) on a list of fewer than 2^53 characters in total, every count and
   every partial sum is an integer below 2^53, hence exact in binary64, and
   f64_arith_ok holds (PipelineF64Bound.f64_arith_ok_cov1) *)
Theorem C03_reproduced_coverage1 :
  forall (io : fileio) (o : options F64) (raw : list Str.str) (tr : trained F64) (pw : Str.str),
  io_ok io -> (forall c, f_encb io c = true -> f_encb io (Detect.lower1 SegCorr.c_lower c) = true) ->
  train c_env o raw = Some tr -> In pw raw -> accepted_pw c_env pw = true -> supported_pw c_env o raw pw = true ->
  case_ok_pw c_env pw -> Forall (fun p => forallb (f_encb io) p = true) raw ->
  (o_cov o : PrimFloat.float) = 1%float -> chars_bound raw ->
  exists L, pipeline_F64 c_env io o raw = Some L /\
    forall pop, pop_ok_okb pop ->
      (exists it, In it (session pop L) /\ exists out k, guesses_of RF c_env L it = Some (out, k) /\ In pw out) /\
      In pw (printed RF c_env pop L).
Proof.
  intros io o raw tr pw Hio Hl. exact (C03_reproduced_F64_cov1 c_env c_env_ok io (c_io_env_ok io Hio Hl) o raw tr pw).
Qed.

(* the same pipeline over exact rationals (ideal disk stage): no arithmetic
   hypothesis at all, any coverage 0 < c <= 1 *)
Theorem C03_reproduced_exact :
  forall (o : options QProb) raw tr pw,
  train c_env o raw = Some tr -> In pw raw -> accepted_pw c_env pw = true -> supported_pw c_env o raw pw = true ->
  case_ok_pw c_env pw -> cov_ok o ->
  exists L, pipeline_Q c_env o raw = Some L /\
    forall pop, pop_ok_okb pop ->
      (exists it, In it (session pop L) /\ exists out k, guesses_of RQ c_env L it = Some (out, k) /\ In pw out) /\
      In pw (printed RQ c_env pop L).
Proof. exact (C03_reproduced_Q c_env c_env_ok). Qed.

(* "the probabilities of all emitted guesses sum to 1": same pipeline, exact
   rationals; each pre-terminal counts for the number of its guesses (the
   product of the sizes of its groups, C04_each_once) *)
Theorem C03_sum_one_Q :
  forall (o : options QProb) raw tr pw,
  train c_env o raw = Some tr -> In pw raw -> accepted_pw c_env pw = true -> supported_pw c_env o raw pw = true ->
  cov_ok o ->
  exists L, pipeline_Q c_env o raw = Some L /\
    forall pop, pop_ok_okb pop ->
      (Qsum (map (fun it : Qitem => iprob it * count_it (sizes_of (l_grammar L)) it)
                 (emitted (run pop (l_rs L) (NextSpec.total (l_rs L)) (start (l_rs L))))) == 1)%Q.
Proof. exact (PipelineQ.C03_sum_one_Q c_env c_env_ok). Qed.

(* ... where that number IS the number of lines the guesser prints: every
   pre-terminal of the session expands without error, and the probabilities of
   all guesses (each guess carries the probability of its pre-terminal) sum to 1 *)
Theorem C03_sum_one_guesses :
  forall (o : options QProb) raw tr pw,
  train c_env o raw = Some tr -> In pw raw -> accepted_pw c_env pw = true -> supported_pw c_env o raw pw = true ->
  cov_ok o ->
  exists L, pipeline_Q c_env o raw = Some L /\
    forall pop, pop_ok_okb pop ->
      (forall it, In it (session pop L) -> exists out, guesses_of RQ c_env L it = Some (out, length out)) /\
      (Qsum (map (fun it : Qitem => iprob it * Qn (nguesses RQ c_env L it))
                 (emitted (run pop (l_rs L) (NextSpec.total (l_rs L)) (start (l_rs L))))) == 1)%Q.
Proof. exact (C03_sum_one_guesses_Q c_env c_env_ok). Qed.

(* the generic statement both are instances of: any probability algebra with
   the trainer's operations, ideal disk; the two arithmetic facts it needs are
   explicit (no division by zero in the loader, the loaded ruleset is wf) *)
Theorem C03_reproduced_generic :
  forall (A : palg) (R : parith A) (E : env), env_ok E ->
  forall (o : options A) raw tr pw,
  train E o raw = Some tr -> In pw raw -> accepted_pw E pw = true -> supported_pw E o raw pw = true ->
  case_ok_pw E pw -> a_eqb R (o_cov o) (a_zero R) = false -> no_zero_div R tr ->
  exists L, load R E (disk_ideal R) (@disk_base_ideal A) (save R tr) = Some L /\
    (wf (l_rs L) -> forall pop, pop_ok_okb pop ->
       (exists it, In it (session pop L) /\ exists out k, guesses_of R E L it = Some (out, k) /\ In pw out) /\
       In pw (printed R E pop L)).
Proof. exact (@reproduced_emitted). Qed.

(* training never stops on an exception of parse(): it completes whenever one line is accepted *)
Theorem C03_train_completes :
  forall (A : palg) (o : options A) raw, (exists pw, In pw raw /\ accepted_pw c_env pw = true) ->
  exists tr, train c_env o raw = Some tr.
Proof.
  intros A o raw (pw & Hin & Hacc).
  apply (PipelineTrain.train_total c_env (ok_aligned _ c_env_ok) (ok_good _ c_env_ok) (ok_min_len _ c_env_ok) (ok_year _ c_env_ok)
           (ok_tlds _ c_env_ok) (ok_min_run _ c_env_ok) o raw (ok_rej_empty _ c_env_ok)).
  intros Hnil. assert (H : In pw (PipelineTrain.train_pws c_env raw)) by (apply filter_In; now split). rewrite Hnil in H. exact H.
Qed.

(* ---- the hypotheses are satisfiable: a concrete list run through the model by vm_compute *)
Open Scope string_scope.
Definition ex_s (x : String.string) : Str.str := Counters.str_of_string x.
Definition ex_raw : list Str.str :=
  [ex_s "PaSSword#1"; ex_s "love2019"; ex_s "love2019"; ex_s "bob@gmail.com"; ex_s "1qaz!"; ex_s ""].
Definition ex_oq : options QProb := {| o_cov := (3 # 5)%Q : P QProb; o_sensitive := false; o_multiword := [] |}.

Example C03_example_exact :
  (exists tr, train c_env ex_oq ex_raw = Some tr) /\
  In (ex_s "PaSSword#1") ex_raw /\ accepted_pw c_env (ex_s "PaSSword#1") = true /\
  supported_pw c_env ex_oq ex_raw (ex_s "PaSSword#1") = true /\ case_ok_pw c_env (ex_s "PaSSword#1") /\ cov_ok ex_oq /\
  supported_pw c_env ex_oq ex_raw (ex_s "bob@gmail.com") = false /\ accepted_pw c_env (ex_s "") = false /\
  option_map (fun L => printed RQ c_env pop_first_max L) (pipeline_Q c_env ex_oq ex_raw)
  = Some [ex_s "love2019"; ex_s "PaSSword#1"; ex_s "1qaz!"].
Proof.
  split; [destruct (train c_env ex_oq ex_raw) as [tr|] eqn:E; [now exists tr|vm_compute in E; discriminate E]|].
  split; [simpl; tauto|]. split; [vm_compute; reflexivity|]. split; [vm_compute; reflexivity|].
  split.
  { unfold case_ok_pw.
    repeat (constructor; [vm_compute; first [intros _; reflexivity | intros H; discriminate H]|]). constructor. }
  split; [split; [reflexivity|discriminate]|]. split; [vm_compute; reflexivity|]. split; [vm_compute; reflexivity|].
  vm_compute. reflexivity.
Qed.

(* binary64 with the real file format: repr / float() as the finite table of
   the three probabilities that occur ('Pass1' twice, 'word' once, coverage 1) *)
Definition ex_io : fileio :=
  io_of [(0x1.5555555555555p-1%float, ex_s "0.6666666666666666"); (0x1.5555555555555p-2%float, ex_s "0.3333333333333333");
         (1%float, ex_s "1.0")]
        [(ex_s "0.6666666666666666", Some 0x1.5555555555555p-1%float); (ex_s "0.3333333333333333", Some 0x1.5555555555555p-2%float);
         (ex_s "1.0", Some 1%float)] [] false.
Definition ex_rawf : list Str.str := [ex_s "Pass1"; ex_s "Pass1"; ex_s "word"].
Definition ex_of : options F64 := {| o_cov := 1%float : P F64; o_sensitive := false; o_multiword := [] |}.

Example C03_example_binary64 :
  match train c_env ex_of ex_rawf with Some tr => f64_arith_ok c_env tr | None => false end = true /\
  supported_pw c_env ex_of ex_rawf (ex_s "Pass1") = true /\ case_ok_pw c_env (ex_s "Pass1") /\
  option_map (fun L => printed RF c_env pop_first_max L) (pipeline_F64 c_env ex_io ex_of ex_rawf)
  = Some [ex_s "Pass1"; ex_s "Word1"; ex_s "pass1"; ex_s "Pass"; ex_s "Word"; ex_s "pass"; ex_s "word1"; ex_s "word"].
Proof.
  split; [vm_compute; reflexivity|]. split; [vm_compute; reflexivity|]. split.
  { unfold case_ok_pw.
    repeat (constructor; [vm_compute; first [intros _; reflexivity | intros H; discriminate H]|]). constructor. }
  vm_compute. reflexivity.
Qed.

Close Scope string_scope.

Print Assumptions C03_reproduced.
Print Assumptions C03_reproduced_coverage1.
Print Assumptions C03_reproduced_exact.
Print Assumptions C03_sum_one_Q.
Print Assumptions C03_sum_one_guesses.
Print Assumptions C03_reproduced_generic.
Print Assumptions C03_train_completes.
Print Assumptions C03_mask_roundtrip.
Print Assumptions C03_sum_Q.
Print Assumptions C03_password_in_expansion.
Print Assumptions C03_every_preterminal_is_emitted.

(* ---- translator tie of the trainer half of the pipeline model (harness/translate_trainer_run.py,
   gen/TrainerRun_gen.v): the whole of run_trainer, translated on every run, with its collaborators
   instantiated by the component models of Pipeline.v (TrainerRunInst.pipe_collab: Reader.read_text over the
   file system of WriterRt.v, Segment.train / Segment.parse, the translated print_statistics / Markov block /
   save_pcfg_data; the OMEN side and the two other writers any functions that do not raise) IS Pipeline.train:
   where the model's trainer stops without a ruleset, run_trainer returns False / None and writes nothing; when
   run_trainer returns True, the model's trainer succeeded on the sequence the reader yields and the ruleset on
   disk is Pipeline.save of what it trained (C06_source_run_trainer_writes_the_model_ruleset) ---- *)
From Pcfg Require Import TextFile Counters WriterRt WriterSpec TrainerRunRt TrainerRunModel TrainerRunInst.
From PcfgGen Require Import TrainerRun_gen.

Theorem C03_source_run_trainer_stops_where_the_model_stops :
  forall (A : palg) (R : parith A) (E : env) (path_of : TextFile.str -> path) (rc : option TextFile.str -> bool -> Reader.rcfg)
         (AGt OTt KSt : Type) ag_new ag_step ag_alpha ot_new ot_step ot_smooth ks_of level_of ks_counter
         (repr : num (ops_of R) -> TextFile.str) (encb : TextFile.str -> N -> bool) (calc : counter (ops_of R) -> counter (ops_of R))
         save_config save_omen (pi : pinfo (ops_of R)) (fs : fsys) (nm text : TextFile.str),
  let PC := @pipe_collab A R E path_of rc AGt OTt KSt ag_new ag_step ag_alpha ot_new ot_step ot_smooth ks_of level_of
                         ks_counter repr encb calc save_config save_omen in
  pi_training_file pi = Some nm -> fs_get (path_of nm) fs = Some text ->
  (ostr_truthy (pi_multiword pi) = true -> exists mnm mtext, pi_multiword pi = Some mnm /\ fs_get (path_of mnm) fs = Some mtext) ->
  (e_mw_threshold E = 5%Z /\ e_mw_min_len E = 4%Z /\ e_mw_max_len E = 21%Z) ->
  reader_agrees E rc ->
  let seq := Reader.out (Reader.read_text (rc (pi_encoding pi) (pi_prefixcount pi)) text) in
  Reader.npw (Reader.read_text (rc (pi_encoding pi) (pi_prefixcount pi)) text) = Z.of_nat (length seq) ->
  forall base : path,
  Pipeline.train E (pipe_options R path_of rc pi fs) seq = None ->
  py_run_trainer PC pi base fs = (Ok (if @Reader.is_nil TextFile.str seq then Some false else None), fs).
Proof.
  intros A R E path_of rc AGt OTt KSt ag_new ag_step ag_alpha ot_new ot_step ot_smooth ks_of level_of ks_counter repr encb calc
         save_config save_omen pi fs nm text PC H1 H2 H3 H4 H5 seq H6 base.
  exact (run_trainer_none R E path_of rc AGt OTt KSt ag_new ag_step ag_alpha ot_new ot_step ot_smooth ks_of level_of
           ks_counter repr encb calc save_config save_omen pi fs nm text H1 H2 H3 H4 H5 H6 base).
Qed.

Theorem C03_source_run_trainer_writes_the_model_ruleset :
  forall (A : palg) (R : parith A) (E : env) (path_of : TextFile.str -> path) (rc : option TextFile.str -> bool -> Reader.rcfg)
         (AGt OTt KSt : Type) ag_new ag_step ag_alpha ot_new ot_step ot_smooth ks_of level_of ks_counter
         (repr : num (ops_of R) -> TextFile.str) (encb : TextFile.str -> N -> bool) (calc : counter (ops_of R) -> counter (ops_of R))
         save_config save_omen (pi : pinfo (ops_of R)) (fs : fsys) (nm text : TextFile.str),
  let PC := @pipe_collab A R E path_of rc AGt OTt KSt ag_new ag_step ag_alpha ot_new ot_step ot_smooth ks_of level_of
                         ks_counter repr encb calc save_config save_omen in
  pi_training_file pi = Some nm -> fs_get (path_of nm) fs = Some text ->
  (ostr_truthy (pi_multiword pi) = true -> exists mnm mtext, pi_multiword pi = Some mnm /\ fs_get (path_of mnm) fs = Some mtext) ->
  (e_mw_threshold E = 5%Z /\ e_mw_min_len E = 4%Z /\ e_mw_max_len E = 21%Z) ->
  reader_agrees E rc ->
  let rd := Reader.read_text (rc (pi_encoding pi) (pi_prefixcount pi)) text in
  Reader.npw rd = Z.of_nat (length (Reader.out rd)) ->
  (forall c, calc c = calc_probs c) -> fs_wf fs ->
  (forall b p f po w, fs_wf w -> fs_wf (snd (save_config b p f po w))) ->
  (forall ot ks lc n b p w, fs_wf w -> fs_wf (snd (save_omen ot ks lc n b p w))) ->
  forall (base : path) (fs' : fsys),
  py_run_trainer PC pi base fs = (Ok (Some true), fs') ->
  exists (t : trained A) (fs2 : fsys) (enc : TextFile.str),
    Pipeline.train E (pipe_options R path_of rc pi fs) (Reader.out rd) = Some t /\
    t_n t = N.of_nat (length (Reader.out rd)) /\ t_cov t = pi_coverage pi /\ t_sens t = pi_save_sensitive pi /\
    pi_encoding pi = Some enc /\
    ruleset_encodable repr encb enc (s_files (Pipeline.save R t)) = true /\
    fs_wf fs2 /\
    fs' = install_all repr base (s_files (Pipeline.save R t)) fs2.
Proof.
  intros A R E path_of rc AGt OTt KSt ag_new ag_step ag_alpha ot_new ot_step ot_smooth ks_of level_of ks_counter repr encb calc
         save_config save_omen pi fs nm text PC H1 H2 H3 H4 H5 rd H6 H7 H8 H9 H10 base fs'.
  exact (run_trainer_writes_pipeline_ruleset R E path_of rc AGt OTt KSt ag_new ag_step ag_alpha ot_new ot_step ot_smooth ks_of level_of
           ks_counter repr encb calc save_config save_omen pi fs nm text H1 H2 H3 H4 H5 H6 H7 H8 H9 H10 base fs').
Qed.

(* the hypotheses hold on a concrete run (TrainerRunExample.v: the environment of the current sources, a
   four-line training file, coverage 0.6): the translated run_trainer returns True and leaves Grammar/grammar.txt *)
From Pcfg Require Import TrainerRunExample.
Theorem C03_source_run_trainer_example :
  fst ex_run = Ok (Some true) /\
  (e_mw_threshold c_env = 5%Z /\ e_mw_min_len c_env = 4%Z /\ e_mw_max_len c_env = 21%Z) /\
  reader_agrees c_env ex_rc /\
  Reader.npw ex_rd = Z.of_nat (length (Reader.out ex_rd)) /\
  fs_wf ex_fs.
Proof.
  split; [exact ex_run_returns_true|]. destruct ex_hypotheses as (Ha & Hb & Hc & _ & Hd). repeat split; assumption.
Qed.

Print Assumptions C03_source_run_trainer_stops_where_the_model_stops.
Print Assumptions C03_source_run_trainer_writes_the_model_ruleset.
Print Assumptions C03_source_run_trainer_example.
