(* C03 - every supported training password is reproduced by the trained
   grammar.  The composition at the level of one password; the component
   statements are C05 (tiling), C06/C07 (values and masks reach the loaded
   groups), C02 (every pre-terminal is emitted), C04 (expansion = denote). *)
From Coq Require Import List Arith Bool NArith Sorting.Permutation.
From Coq Require Import QArith.
From Pcfg Require Import ProbAlg Expand ExpandProofs EndToEnd Next NextSpec NextProofs QProb QSum.
Import ListNotations.

(* storing a word lower-cased with its U/L mask loses nothing on the property's
   domain (letters whose case mapping is one-to-one) *)
Theorem C03_mask_roundtrip :
  forall (lower1 : N -> N) (upper_c : N -> str) (isupper : N -> bool) w,
  case_ok lower1 upper_c isupper w ->
  mask_total upper_c (mask_of isupper w) (lower_word lower1 w) = w.
Proof. exact mask_roundtrip. Qed.

(* if the tiles of the password (C05: they concatenate to it) sit, position by
   position, in the groups chosen by a pre-terminal (C06/C07), the password is
   one of that pre-terminal's guesses ... *)
Theorem C03_password_in_expansion :
  forall (upper_c : N -> str) lower1 isupper tiles segs,
  Forall2 (tile_in upper_c lower1 isupper) tiles segs -> In (concat tiles) (denote upper_c segs).
Proof. exact password_in_denote. Qed.

(* ... which create_guesses prints (C04) ... *)
Theorem C03_expansion_is_printed :
  forall (upper_c : N -> str) (omen : str -> list str) segs,
  segs <> [] -> Forall seg_ok' segs ->
  expand upper_c omen (flat_map slots_of segs) [] None = Some (denote upper_c segs, length (denote upper_c segs)).
Proof. exact C04_expand_is_product. Qed.

(* ... and every pre-terminal of the grammar is popped exactly once (C02) *)
Theorem C03_every_preterminal_is_emitted :
  forall (A : palg) (rs : ruleset A), wf rs -> forall pop, pop_ok_okb pop ->
  forall it, In it (all_preterminals rs) -> In it (emitted (run pop rs (total rs) (start rs))).
Proof.
  intros A rs H pop Hp it Hi. destruct (C02_exactly_once_okb rs H pop Hp) as [P _].
  eapply Permutation_in; [apply Permutation_sym; exact P|exact Hi].
Qed.

(* "the probabilities of all emitted guesses sum to 1", over exact rationals:
   if the lines of every terminal file used sum to 1 (one line per value:
   var_mass) and the base structures kept sum to s (s = 1 without Markov, i.e.
   coverage 1; s = 1 - P(M) rescaled to 1 by skip_brute, see C14), the guesses
   of a complete run carry total probability s *)
Theorem C03_sum_Q :
  forall (rs : Qruleset) (sizes : list (list nat)),
  (forall b, In b (bases rs) -> forall v, In v (brepl b) -> (var_mass rs sizes v == 1)%Q) ->
  forall (s : Q) pop, wf rs -> pop_ok_okb pop ->
  (Qsum (map bprob (bases rs)) == s)%Q ->
  (Qsum (map (fun it : Qitem => (iprob it * count_it sizes it)%Q)
             (emitted (run pop rs (total rs) (start rs)))) == s)%Q.
Proof. exact QSum_emitted. Qed.

Print Assumptions C03_mask_roundtrip.
Print Assumptions C03_sum_Q.
Print Assumptions C03_password_in_expansion.
Print Assumptions C03_every_preterminal_is_emitted.
