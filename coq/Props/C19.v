(* C19 - equivalent encodings of a training list train the same grammar.
   Property theorems only (models: theories/Reader.v, Counters.v; proofs:
   ReaderProofs.v, CollapseProofs.v, IoFacts.v).  cfgR dec encb prefix is the
   reader with the code point classes probed from the running interpreter and
   check_valid's rejected code points extracted from the source; dec / encb are
   the codec oracles (strict decode of a $HEX payload, per-character
   encodability).  `result ps n` = yields ps, num_passwords n, no encoding error.

   The LAST theorems depend on a side condition on the current /repo sources
   (every code point the reader's line iteration splits on is rejected by
   check_valid); they fail to check while R10 (U+2029) is in the tree.
   LBR = the reader's line-break class, extracted from how the source opens the
   training file (codecs.open: every str.splitlines break; builtin open with
   newline='\n': LF only). *)
From Coq Require Import String Ascii.
From Coq Require Import List NArith ZArith Bool Permutation.
From Pcfg Require Import TextFile Counters Reader IoCorr TextFileProofs CountersProofs CollapseProofs ReaderProofs IoFacts.
From PcfgGen Require Import Consts_gen.
Import ListNotations.

(* $HEX[...] of the encoded password reads to the password, whatever it
   contains (given the codec round trip dec (enc p) = Some p) *)
Theorem C19_hex : forall dec encb (enc : str -> list N) p,
  dec (enc p) = Some p -> forallb is_byte (enc p) = true ->
  forallb encb p = true -> accepted p = true ->
  read_text (cfgR dec encb false) (hex_line enc p) = result [p] 1.
Proof. exact hex_inst. Qed.

(* count prefix + hex payload: leading blanks, any decimal digits, one space *)
Theorem C19_prefix_hex : forall dec encb (enc : str -> list N) pad ds p,
  blanks pad -> ds <> [] -> forallb ascii_digit ds = true ->
  dec (enc p) = Some p -> forallb is_byte (enc p) = true -> forallb encb p = true -> accepted p = true ->
  read_text (cfgR dec encb true) (count_line pad ds (hex_body (enc p)) ++ [LF]) =
    result (repeat p (N.to_nat (digits_value ds))) (Z.of_N (digits_value ds)).
Proof. exact prefix_hex_inst. Qed.

(* what is skipped and what is counted *)
Theorem C19_skips : forall dec encb,
  let C := cfgR dec encb false in
  (forall line p n, read_line C line = Yield p n -> accepted p = true /\ forallb encb p = true) /\
  (check_valid_rejects_empty = true -> read_line C [LF] = Skip /\ read_line C [CR; LF] = Skip) /\
  (forall body c, none_of is_crlf body = true -> is_hex_shaped body = false -> In c body ->
                  memN c check_valid_rejected = true ->
                  read_line C (body ++ [LF]) = if forallb encb body then Skip else SkipErr 1) /\
  (forall body, none_of is_crlf body = true -> is_hex_shaped body = false -> forallb encb body = false ->
                read_line C (body ++ [LF]) = SkipErr 1) /\
  (forall body, none_of is_crlf body = true -> is_hex_shaped body = true ->
                (fromhex (hex_payload body) = None \/ exists b, fromhex (hex_payload body) = Some b /\ dec b = None) ->
                read_line C (body ++ [LF]) = SkipErr 1) /\
  (forall ls, out (read_lines C ls) = flat_map (fun l => line_out (read_line C l)) ls /\
              npw (read_lines C ls) = zsum (map (fun l => line_count (read_line C l)) ls) /\
              nerr (read_lines C ls) = zsum (map (fun l => line_err (read_line C l)) ls)).
Proof. exact skips_inst. Qed.

(* TAB and the C0 controls are among the rejected code points of the source *)
Theorem C19_reader_classes_ok : reader_classes_ok = true.
Proof. exact reader_classes_ok_true. Qed.

Theorem C19_tab_and_controls_rejected :
  forallb (fun c => memN c check_valid_rejected) (map N.of_nat (seq 0 32)) = true.
Proof. vm_compute. reflexivity. Qed.

(* the three passes see the same sequence; N of pass 1 is its length when no
   count prefix is negative *)
Theorem C19_three_passes : forall dec encb prefix text,
  let C := cfgR dec encb prefix in
  let '(p1, p2, p3) := three_passes C text in
  out p1 = out p2 /\ out p2 = out p3 /\
  ((forall l, In l (lines_keep LBR text) -> (0 <= line_count (read_line C l))%Z) ->
   npw p1 = Z.of_nat (length (out p2)) /\ npw p1 = Z.of_nat (length (out p3))).
Proof. exact three_passes_inst. Qed.

(* same grammar: (1) files whose lines denote the same (password, count)
   sequence read to the same sequence and the same N ... *)
Theorem C19_same_sequence : forall C, r_lb C LF = true -> forall (ls : list (str * (str * Z))),
  Forall (fun e => no_lb C (fst e) /\ read_line C (fst e ++ [LF]) = Yield (fst (snd e)) (snd (snd e))) ls ->
  out (read_text C (flat_map (fun e => fst e ++ [LF]) ls)) =
    flat_map (fun e => repeat (fst (snd e)) (Z.to_nat (snd (snd e)))) ls /\
  npw (read_text C (flat_map (fun e => fst e ++ [LF]) ls)) = zsum (map (fun e => snd (snd e)) ls) /\
  nerr (read_text C (flat_map (fun e => fst e ++ [LF]) ls)) = 0%Z.
Proof. exact read_text_denotes. Qed.

(* ... (2) collapsing repeats to counts in first-occurrence order leaves every
   counter identical - keys, key order (hence tie order on disk) and counts -
   whatever items a password contributes, and keeps N; (3) any other order
   keeps every count (only the order of ties may change) *)
Theorem C19_same_grammar :
  (forall (f : str -> list str) (A : list str), tally (flat_map f (expand (collapse A))) = tally (flat_map f A)) /\
  (forall A : list str, length (expand (collapse A)) = length A) /\
  (forall A : list str, Permutation (expand (collapse A)) A) /\
  (forall (f : str -> list str) (A B : list str) k n,
     Permutation A B -> In (k, n) (tally (flat_map f A)) -> In (k, n) (tally (flat_map f B))).
Proof.
  exact (conj collapse_same_counter (conj collapse_same_length (conj expand_collapse_perm permuted_same_counts))).
Qed.

(* a reader iterating the file through codecs (as the published trainer does)
   refutes "a line holding a control character is skipped": after a code point
   the codec splits on, the tail is read as a password of its own - with the
   published check_valid (VT) and still after U+2029 is added to it *)
Theorem C19_refuted_tail_after_linebreak :
  memN 11%N rejected_2021 = true /\
  out (read_text (codecs_reader rejected_2021) [97; 98; 11; 99; 100; 10]%N) = [[99; 100]%N] /\
  out (read_text (codecs_reader (8233%N :: rejected_2021)) [97; 98; 8233; 99; 100; 10]%N) = [[99; 100]%N].
Proof. exact refuted_tail_after_linebreak. Qed.

(* with the published check_valid a plain line holding U+2029 reads as two passwords *)
Theorem C19_refuted_plain_2029 :
  check_valid rejected_2021 true [97; 98; 8233; 99; 100]%N = true /\
  out (read_text (codecs_reader rejected_2021) (plain_line [97; 98; 8233; 99; 100]%N)) = [[97; 98; 8233]%N; [99; 100]%N].
Proof. exact refuted_plain_2029. Qed.

(* hypotheses satisfiable: a count-prefixed hex line read by the model *)
Theorem C19_example :
  read_text (cfgR (fun b => Some b) (fun _ => true) true)
            (count_line [32; 32]%N [48; 51]%N (hex_body [32; 112; 32]%N) ++ [LF])
  = result [[32; 112; 32]%N; [32; 112; 32]%N; [32; 112; 32]%N] 3.
Proof. vm_compute. reflexivity. Qed.

Print Assumptions C19_hex.
Print Assumptions C19_prefix_hex.
Print Assumptions C19_skips.
Print Assumptions C19_same_grammar.

(* ---------------------------------------------------------------- depends on the source's check_valid *)

(* check_valid rejects TAB, CR, LF and every code point on which the reader's
   line iteration splits (finite sweep over the regenerated lists) *)
Theorem C19_linebreaks_rejected : reader_linebreaks_rejected = true.
Proof. vm_compute. reflexivity. Qed.

(* a plain line reads to the password *)
Theorem C19_plain : forall dec encb p,
  accepted p = true -> is_hex_shaped p = false -> forallb encb p = true ->
  read_text (cfgR dec encb false) (plain_line p) = result [p] 1.
Proof. exact (plain_inst C19_linebreaks_rejected). Qed.

(* count prefix + plain payload *)
Theorem C19_prefix : forall dec encb pad ds p,
  blanks pad -> ds <> [] -> forallb ascii_digit ds = true ->
  accepted p = true -> is_hex_shaped p = false -> forallb encb p = true ->
  read_text (cfgR dec encb true) (count_line pad ds p ++ [LF]) =
    result (repeat p (N.to_nat (digits_value ds))) (Z.of_N (digits_value ds)).
Proof. exact (prefix_plain_inst C19_linebreaks_rejected). Qed.

(* ---------------------------------------------------------------- translator tie (second tie to the source)

   gen/Reader_gen.v is the line-by-line image of check_valid, TrainerFileInput.__init__ and
   TrainerFileInput.read_password (lib_trainer/trainer_file_input.py), written on every run by
   harness/translate_reader.py over the runtime theories/ReaderRt.v.  The theorems above are about
   the hand-written model Reader.v; the ones below say that the translated source IS that model and
   restate the main theorems over the translated reader itself.
   source_reader cd prefix text = the translated generator run to exhaustion on the object the
   translated __init__ builds for the file whose codecs lines are those of [text] (fuel = length + 1);
   cd = the codec oracle of the training encoding; Some rout = ended normally with these totals. *)
From Pcfg Require Import ReaderRt ReaderGenProofs ReaderGenFacts.
From PcfgGen Require Import Reader_gen.

Theorem C19_source_check_valid_is_model : forall p, py_check_valid p = accepted p.
Proof. exact py_check_valid_is_model. Qed.

(* for every text, codec, --prefixcount setting, file name and every fuel above the number of lines: the
   translated generator ends normally (never out of fuel, no exception escapes) having yielded the model's
   passwords, with the model's num_passwords and num_encoding_errors *)
Theorem C19_source_read_password_is_model : forall name cd prefix text fuel,
  (length (lines_keep LB text) < fuel)%nat ->
  run_reader (py_read_password ENV fuel) (py_init name cd prefix (codecs_lines text)) =
  Some (read_text (cfgR (cd_dec cd) (cd_encb cd) prefix) text).
Proof. exact source_read_password_is_model. Qed.

(* also for a file object whose readline raises UnicodeDecodeError at some calls (RErr): the line-level
   relation Rd (ReaderGenProofs.v) counts one encoding error per such call and goes on *)
Theorem C19_source_read_password_spec : forall cd prefix s fin fuel,
  rinv cd prefix fuel s ->
  Rd LBR (cfgR (cd_dec cd) (cd_encb cd) prefix) (o_file s) (proj s) fin ->
  run_reader (py_read_password ENV fuel) s = Some fin.
Proof. exact read_password_spec. Qed.

Theorem C19_source_reader_is_model : forall cd prefix text,
  source_reader cd prefix text = Some (read_text (cfgR (cd_dec cd) (cd_encb cd) prefix) text).
Proof. exact source_reader_is_model. Qed.

Theorem C19_source_hex : forall cd (enc : str -> list N) p,
  cd_dec cd (enc p) = Some p -> forallb is_byte (enc p) = true ->
  forallb (cd_encb cd) p = true -> py_check_valid p = true ->
  source_reader cd false (hex_line enc p) = Some (result [p] 1).
Proof. exact source_hex. Qed.

Theorem C19_source_plain : forall cd p,
  py_check_valid p = true -> is_hex_shaped p = false -> forallb (cd_encb cd) p = true ->
  source_reader cd false (plain_line p) = Some (result [p] 1).
Proof. exact (source_plain C19_linebreaks_rejected). Qed.

Theorem C19_source_prefix : forall cd pad ds p,
  blanks pad -> ds <> [] -> forallb ascii_digit ds = true ->
  py_check_valid p = true -> is_hex_shaped p = false -> forallb (cd_encb cd) p = true ->
  source_reader cd true (count_line pad ds p ++ [LF]) =
    Some (result (repeat p (N.to_nat (digits_value ds))) (Z.of_N (digits_value ds))).
Proof. exact (source_prefix C19_linebreaks_rejected). Qed.

Theorem C19_source_prefix_hex : forall cd (enc : str -> list N) pad ds p,
  blanks pad -> ds <> [] -> forallb ascii_digit ds = true ->
  cd_dec cd (enc p) = Some p -> forallb is_byte (enc p) = true -> forallb (cd_encb cd) p = true ->
  py_check_valid p = true ->
  source_reader cd true (count_line pad ds (hex_body (enc p)) ++ [LF]) =
    Some (result (repeat p (N.to_nat (digits_value ds))) (Z.of_N (digits_value ds))).
Proof. exact source_prefix_hex. Qed.

(* what the translated reader skips and what it counts *)
Theorem C19_source_skips : forall cd,
  (forall prefix text, let C' := cfgR (cd_dec cd) (cd_encb cd) prefix in
     source_reader cd prefix text =
     Some {| out := flat_map (fun l => line_out (read_line C' l)) (lines_keep LBR text);
             npw := zsum (map (fun l => line_count (read_line C' l)) (lines_keep LBR text));
             nerr := zsum (map (fun l => line_err (read_line C' l)) (lines_keep LBR text)) |}) /\
  (forall prefix text o p, source_reader cd prefix text = Some o -> In p (out o) ->
     py_check_valid p = true /\ forallb (cd_encb cd) p = true) /\
  (py_check_valid [] = false -> source_reader cd false [LF] = Some (result [] 0) /\
                                source_reader cd false [CR; LF] = Some (result [] 0)) /\
  (forall body c, none_of is_crlf body = true -> is_hex_shaped body = false -> In c body -> py_check_valid [c] = false ->
     source_reader cd false (body ++ [LF]) =
     Some {| out := []; npw := 0; nerr := if forallb (cd_encb cd) body then 0 else 1 |}) /\
  (forall body, none_of is_crlf body = true -> is_hex_shaped body = false -> forallb (cd_encb cd) body = false ->
     source_reader cd false (body ++ [LF]) = Some {| out := []; npw := 0; nerr := 1 |}) /\
  (forall body, none_of is_crlf body = true -> is_hex_shaped body = true ->
     (fromhex (hex_payload body) = None \/ exists b, fromhex (hex_payload body) = Some b /\ cd_dec cd b = None) ->
     source_reader cd false (body ++ [LF]) = Some {| out := []; npw := 0; nerr := 1 |}).
Proof. exact source_skips. Qed.

Theorem C19_source_same_sequence : forall cd prefix (ls : list (str * (str * Z))),
  let C := cfgR (cd_dec cd) (cd_encb cd) prefix in
  Forall (fun e => none_of LBR (fst e) = true /\ read_line C (fst e ++ [LF]) = Yield (fst (snd e)) (snd (snd e))) ls ->
  source_reader cd prefix (flat_map (fun e => fst e ++ [LF]) ls) =
    Some {| out := flat_map (fun e => repeat (fst (snd e)) (Z.to_nat (snd (snd e)))) ls;
            npw := zsum (map (fun e => snd (snd e)) ls); nerr := 0 |}.
Proof. exact source_same_sequence. Qed.

(* the translated text runs: a count-prefixed $HEX line, a blank line, a line with a TAB, a line with a
   vertical tab (re-joined from two codecs pieces, then refused) *)
Theorem C19_source_example :
  source_reader codec_id true
    (count_line [32; 32]%N [48; 51]%N (hex_body [32; 112; 32]%N) ++ [LF] ++ [LF] ++ [49; 32; 97; 9; 98; LF]%N
       ++ [50; 32; 120; 11; 121; CR; LF]%N)
  = Some {| out := [[32; 112; 32]%N; [32; 112; 32]%N; [32; 112; 32]%N]; npw := 3; nerr := 0 |}.
Proof. exact source_reader_example. Qed.

Print Assumptions C19_source_check_valid_is_model.
Print Assumptions C19_source_read_password_is_model.
Print Assumptions C19_source_read_password_spec.
Print Assumptions C19_source_hex.
Print Assumptions C19_source_prefix.
Print Assumptions C19_source_skips.
Print Assumptions C19_source_same_sequence.

(* ---------------------------------------------------------------- translator tie of the pass orchestration

   gen/TrainerRun_gen.v holds the line-by-line image of the whole of run_trainer (lib_trainer/run_trainer.py),
   written on every run by harness/translate_trainer_run.py over the runtime theories/TrainerRunRt.v: the
   classes run_trainer instantiates, their methods and the functions it imports are the fields of a record of
   collaborators [collab].  The theorems hold for EVERY instantiation of the collaborators. *)
From Pcfg Require Import WriterRt TrainerRunRt TrainerRunModel TrainerRunProofs TrainerRunGenProofs TrainerRunGenFacts.
From PcfgGen Require Import TrainerRun_gen.

(* the translated run_trainer is the hand-written model: ONE opening and reading of the training file with
   (training_file, encoding, prefixcount) of the run, three folds over the sequence it yields *)
Theorem C19_source_run_trainer_is_model : forall (O : numops) (C : collab O) (pi : pinfo O) (base : path) (w : c_W C),
  py_run_trainer C pi base w = m_run_trainer C pi base w.
Proof. exact py_run_trainer_is_model. Qed.

(* "all three training passes see the same password sequence": in a run that returns True the reader opened
   with the training file, the encoding and the --prefixcount setting of the run yields a sequence seq to its
   end, and the alphabet generator, the multi-word detector (pass 1), the OMEN trainer, the PCFG parser (pass 2)
   and the level evaluation (pass 3) are each the fold of their step over that same seq, in order;
   N = num_passwords of that reader is not 0 *)
Theorem C19_source_three_passes_one_sequence : forall (O : numops) (C : collab O) (pi : pinfo O) (base : path) (w w' : c_W C),
  py_run_trainer C pi base w = (Ok (Some true), w') ->
  exists (seq : list str) (fi0 fiE : c_FI C) (ag0 ag1 : c_AG C) (mw0 mw1 mw2 : c_MW C) (ot0 ot1 ot2 : c_OT C)
         (pp0 pp1 : c_PP C) (lc : list (Z * N)),
    c_TrainerFileInput C (pi_training_file pi) (pi_encoding pi) (pi_prefixcount pi) w = Ok fi0 /\
    c_read_password C fi0 w = (seq, None, fiE) /\
    c_AlphabetGenerator C (pi_alphabet_size pi) (pi_ngram pi) = Ok ag0 /\
    c_MultiWordDetector C 5 4 21 = Ok mw0 /\ pretrain C pi mw0 w = Ok mw1 /\
    fold_res (c_process_password C) seq ag0 = Ok ag1 /\
    fold_res (fun m p => c_mw_train C m p false) seq mw1 = Ok mw2 /\
    c_num_passwords C fiE <> 0%N /\
    c_PCFGPasswordParser C mw2 = Ok pp0 /\
    fold_res (c_ot_parse C) seq ot0 = Ok ot1 /\
    fold_res (c_pp_parse C) seq pp0 = Ok pp1 /\
    c_apply_smoothing C ot1 = Ok ot2 /\
    fold_res (step3 C ot2) seq [] = Ok lc.
Proof. exact (@source_three_passes_one_sequence). Qed.

(* blank / invalid / undecodable lines never abort the training by themselves: unless the three passes completed
   run_trainer returns something else than True and leaves the world as it was (nothing leaks into a ruleset) *)
Theorem C19_source_untouched_without_ruleset : forall (O : numops) (C : collab O) (pi : pinfo O) (base : path) (w : c_W C),
  (exists t, passes C pi w = Ok (inr t)) \/
  (exists r, py_run_trainer C pi base w = (r, w) /\ r <> Ok (Some true)).
Proof. exact (@source_untouched_without_ruleset). Qed.

Print Assumptions C19_source_run_trainer_is_model.
Print Assumptions C19_source_three_passes_one_sequence.
Print Assumptions C19_source_untouched_without_ruleset.
