(* C08: resume loses nothing, repeats only the tied group. *)
From PcfgGen Require Import Consts_gen.

(* Side condition on the regenerated constants: the theorems about the
   restored frontier are proved for the non-strict comparison in
   is_parent_around; the source must use it. *)
Theorem C08_source_parent_test_is_le : parent_around_strict = false.
Proof. reflexivity. Qed.
