(* C08 - resuming a saved session loses nothing and repeats at most the tied
   group.  Property theorems only. *)
From Coq Require Import List Bool Sorting.Permutation Floats.
From Pcfg Require Import ProbAlg F64 Next NextSpec NextProofs NextFacts RestoreProofs RestoreFacts RestoreRefuted.
From PcfgGen Require Import Consts_gen.
From Pcfg Require Import KernelRt KernelGenProofs.
From PcfgGen Require Import Kernel_gen.

(* Side condition on the constant regenerated from the source on every run:
   the theorems below are about the non-strict comparison in is_parent_around;
   the source must use it (it used `<` before the fix, see C08_refuted_lt). *)
Theorem C08_source_parent_test_is_le : parent_around_strict = false.
Proof. reflexivity. Qed.

(* the restore walk rebuilds exactly the frontier of the saved probability *)
Theorem C08_restore_frontier :
  forall (A : palg) (rs : ruleset A), wf rs -> forall m, okb m = true ->
  Permutation (restored_gen false rs m) (filter (frontierb rs m) (all_preterminals rs)).
Proof. exact (fun A rs H m => restore_frontier rs H m). Qed.

(* fuel of the model's walk is never exhausted on a well-formed ruleset *)
Theorem C08_walk_fuel_enough :
  forall (A : palg) (rs : ruleset A) strict m fuel, wf rs ->
  (forall it, restore_fuel rs it <= fuel it) ->
  flat_map (fun it => restore_gen strict (fuel it) rs it m 0) (init_items rs) = restored_gen strict rs m.
Proof. exact (fun A rs strict m fuel H => restore_fuel_enough rs H m strict fuel). Qed.

(* the resumed run = exactly the pre-terminals at or below the saved
   probability, each once, in non-increasing order *)
Theorem C08_resume_exact :
  forall (A : palg) (rs : ruleset A), wf rs -> forall pop m, pop_ok_okb pop -> okb m = true ->
  let SS := filter (below m) (all_preterminals rs) in
  (forall n, nonincreasing (rev (emitted (resumed rs pop m n)))) /\
  (forall n, NoDup (emitted (resumed rs pop m n) ++ pending (resumed rs pop m n))) /\
  (forall n x, In x (emitted (resumed rs pop m n) ++ pending (resumed rs pop m n)) -> In x SS) /\
  (forall n, n <= length SS -> length (emitted (resumed rs pop m n)) = n) /\
  Permutation (emitted (resumed rs pop m (length SS))) SS /\
  pending (resumed rs pop m (length SS)) = nil.
Proof. exact (fun A rs H pop m => resume_exact rs H pop m). Qed.

(* relative to the uninterrupted run U = U1 ++ x :: U2 cut before x *)
Theorem C08_suffix_and_repeats :
  forall (A : palg) (rs : ruleset A), wf rs -> forall pop pop' U1 x U2,
  pop_ok_okb pop -> pop_ok_okb pop' ->
  rev (emitted (run pop rs (total rs) (start rs))) = U1 ++ x :: U2 ->
  let m := iprob x in
  let B := emitted (resumed rs pop' m (length (filter (below m) (all_preterminals rs)))) in
  (forall y, In y (x :: U2) -> In y B) /\
  (forall y, In y B -> ple (iprob y) m = true) /\
  NoDup B /\
  (forall y, In y B -> In y U1 -> peq (iprob y) m = true) /\
  nonincreasing (rev B).
Proof. exact (fun A rs H pop pop' U1 x U2 => resume_suffix_and_repeats rs H pop pop' U1 x U2). Qed.

(* every later quit/resume cycle: the restored state is a function of the
   ruleset and the saved probability only *)
Theorem C08_any_history :
  forall (A : palg) (rs : ruleset A) pop m n,
  resumed rs pop m n = run pop rs n {| emitted := nil; pending := restored_gen false rs m |}.
Proof. exact (fun A rs pop m n => resume_depends_only_on_saved rs pop m n). Qed.

(* the comparison the code used before the fix duplicates a sub-tree *)
Theorem C08_refuted_lt :
  length (restored_gen true rs1 m1) = 2 /\ length (filter (frontierb rs1 m1) (all_preterminals rs1)) = 1.
Proof. exact restore_strict_refuted. Qed.

Theorem C08_hypotheses_satisfiable : wf demo_rs.
Proof. exact demo_wf. Qed.

(* ---- second tie to the source: gen/Kernel_gen.v is the translation of the Python
   text of is_parent_around and _recursive_restore_prob_order (harness/translate_kernel.py,
   redone on every run).  The first theorem no longer holds when the source compares
   with `<` again (it is stated for parent_around_gen false). *)
Theorem C08_source_parent_around_is_model :
  forall (A : palg) (up : P A) (un : var * nat) (rs : ruleset A) (it : item A) (m : P A),
  inrange rs (ipt it) -> py_is_parent_around up un rs it m = parent_around_gen false rs it m.
Proof. exact (fun A up un rs it m => kernel_parent_around_eq up un rs it m). Qed.

(* mn is min_prob, which the model does not have: PcfgQueue passes 0.0 *)
Theorem C08_source_restore_is_model :
  forall (A : palg) (up : P A) (un : var * nat) (rs : ruleset A) (m mn : P A) (fuel : nat) (it : item A) (left : nat),
  inrange rs (ipt it) -> plt (iprob it) mn = false ->
  (forall t, inrange rs t -> plt (find_prob rs t (ibase it)) mn = false) ->
  py_restore up un fuel rs it m mn left = restore_gen false fuel rs it m left.
Proof. exact (fun A up un rs m mn fuel it left => kernel_restore_eq up un rs m mn fuel it left). Qed.

Theorem C08_translated_restore_is_model :
  forall (A : palg) (up : P A) (un : var * nat) (rs : ruleset A), wf rs -> forall m mn : P A,
  (forall p, okb p = true -> ple mn p = true) ->
  kernel_restored up un rs m mn = restored_gen false rs m.
Proof. exact (fun A up un rs H m mn => kernel_restored_eq up un rs H m mn). Qed.

Theorem C08_restore_frontier_translated :
  forall (A : palg) (up : P A) (un : var * nat) (rs : ruleset A), wf rs -> forall m mn : P A,
  okb m = true -> (forall p, okb p = true -> ple mn p = true) ->
  Permutation (kernel_restored up un rs m mn) (filter (frontierb rs m) (all_preterminals rs)).
Proof. exact (fun A up un rs H m mn => kernel_restore_frontier up un rs H m mn). Qed.

Theorem C08_translated_restore_binary64 :
  forall (up : P F64) (un : var * nat) (rs : ruleset F64) (m : P F64), wf rs ->
  kernel_restored up un rs m 0%float = restored_gen false rs m.
Proof. exact kernel_restored_eq_F64. Qed.

Print Assumptions C08_restore_frontier_translated.

Print Assumptions C08_restore_frontier.
Print Assumptions C08_resume_exact.
Print Assumptions C08_suffix_and_repeats.
Print Assumptions C08_refuted_lt.
