(* C08 - resuming a saved session loses nothing and repeats at most the tied
   group.  Property theorems only. *)
From Coq Require Import List Bool Sorting.Permutation Floats.
From Pcfg Require Import ProbAlg F64 Next NextSpec NextProofs NextFacts RestoreProofs RestoreFacts RestoreRefuted.
From PcfgGen Require Import Consts_gen.
From Pcfg Require Import KernelRt KernelGenProofs.
From PcfgGen Require Import Kernel_gen.

(* Side condition on the constant regenerated from the source on every run:
   the theorems below are about the non-strict comparison in is_parent_around;
   the source must use it (it used `<` before the fix, see C08_refuted_lt). *)
Theorem C08_source_parent_test_is_le : parent_around_strict = false.
Proof. reflexivity. Qed.

(* the restore walk rebuilds exactly the frontier of the saved probability *)
Theorem C08_restore_frontier :
  forall (A : palg) (rs : ruleset A), wf rs -> forall m, okb m = true ->
  Permutation (restored_gen false rs m) (filter (frontierb rs m) (all_preterminals rs)).
Proof. exact (fun A rs H m => restore_frontier rs H m). Qed.

(* fuel of the model's walk is never exhausted on a well-formed ruleset *)
Theorem C08_walk_fuel_enough :
  forall (A : palg) (rs : ruleset A) strict m fuel, wf rs ->
  (forall it, restore_fuel rs it <= fuel it) ->
  flat_map (fun it => restore_gen strict (fuel it) rs it m 0) (init_items rs) = restored_gen strict rs m.
Proof. exact (fun A rs strict m fuel H => restore_fuel_enough rs H m strict fuel). Qed.

(* the resumed run = exactly the pre-terminals at or below the saved
   probability, each once, in non-increasing order *)
Theorem C08_resume_exact :
  forall (A : palg) (rs : ruleset A), wf rs -> forall pop m, pop_ok_okb pop -> okb m = true ->
  let SS := filter (below m) (all_preterminals rs) in
  (forall n, nonincreasing (rev (emitted (resumed rs pop m n)))) /\
  (forall n, NoDup (emitted (resumed rs pop m n) ++ pending (resumed rs pop m n))) /\
  (forall n x, In x (emitted (resumed rs pop m n) ++ pending (resumed rs pop m n)) -> In x SS) /\
  (forall n, n <= length SS -> length (emitted (resumed rs pop m n)) = n) /\
  Permutation (emitted (resumed rs pop m (length SS))) SS /\
  pending (resumed rs pop m (length SS)) = nil.
Proof. exact (fun A rs H pop m => resume_exact rs H pop m). Qed.

(* relative to the uninterrupted run U = U1 ++ x :: U2 cut before x *)
Theorem C08_suffix_and_repeats :
  forall (A : palg) (rs : ruleset A), wf rs -> forall pop pop' U1 x U2,
  pop_ok_okb pop -> pop_ok_okb pop' ->
  rev (emitted (run pop rs (total rs) (start rs))) = U1 ++ x :: U2 ->
  let m := iprob x in
  let B := emitted (resumed rs pop' m (length (filter (below m) (all_preterminals rs)))) in
  (forall y, In y (x :: U2) -> In y B) /\
  (forall y, In y B -> ple (iprob y) m = true) /\
  NoDup B /\
  (forall y, In y B -> In y U1 -> peq (iprob y) m = true) /\
  nonincreasing (rev B).
Proof. exact (fun A rs H pop pop' U1 x U2 => resume_suffix_and_repeats rs H pop pop' U1 x U2). Qed.

(* every later quit/resume cycle: the restored state is a function of the
   ruleset and the saved probability only *)
Theorem C08_any_history :
  forall (A : palg) (rs : ruleset A) pop m n,
  resumed rs pop m n = run pop rs n {| emitted := nil; pending := restored_gen false rs m |}.
Proof. exact (fun A rs pop m n => resume_depends_only_on_saved rs pop m n). Qed.

(* the comparison the code used before the fix duplicates a sub-tree *)
Theorem C08_refuted_lt :
  length (restored_gen true rs1 m1) = 2 /\ length (filter (frontierb rs1 m1) (all_preterminals rs1)) = 1.
Proof. exact restore_strict_refuted. Qed.

Theorem C08_hypotheses_satisfiable : wf demo_rs.
Proof. exact demo_wf. Qed.

(* ---- second tie to the source: gen/Kernel_gen.v is the translation of the Python
   text of is_parent_around and _recursive_restore_prob_order (harness/translate_kernel.py,
   redone on every run).  The first theorem no longer holds when the source compares
   with `<` again (it is stated for parent_around_gen false). *)
Theorem C08_source_parent_around_is_model :
  forall (A : palg) (up : P A) (un : var * nat) (rs : ruleset A) (it : item A) (m : P A),
  inrange rs (ipt it) -> py_is_parent_around up un rs it m = parent_around_gen false rs it m.
Proof. exact (fun A up un rs it m => kernel_parent_around_eq up un rs it m). Qed.

(* mn is min_prob, which the model does not have: PcfgQueue passes 0.0 *)
Theorem C08_source_restore_is_model :
  forall (A : palg) (up : P A) (un : var * nat) (rs : ruleset A) (m mn : P A) (fuel : nat) (it : item A) (left : nat),
  inrange rs (ipt it) -> plt (iprob it) mn = false ->
  (forall t, inrange rs t -> plt (find_prob rs t (ibase it)) mn = false) ->
  py_restore up un fuel rs it m mn left = restore_gen false fuel rs it m left.
Proof. exact (fun A up un rs m mn fuel it left => kernel_restore_eq up un rs m mn fuel it left). Qed.

Theorem C08_translated_restore_is_model :
  forall (A : palg) (up : P A) (un : var * nat) (rs : ruleset A), wf rs -> forall m mn : P A,
  (forall p, okb p = true -> ple mn p = true) ->
  kernel_restored up un rs m mn = restored_gen false rs m.
Proof. exact (fun A up un rs H m mn => kernel_restored_eq up un rs H m mn). Qed.

Theorem C08_restore_frontier_translated :
  forall (A : palg) (up : P A) (un : var * nat) (rs : ruleset A), wf rs -> forall m mn : P A,
  okb m = true -> (forall p, okb p = true -> ple mn p = true) ->
  Permutation (kernel_restored up un rs m mn) (filter (frontierb rs m) (all_preterminals rs)).
Proof. exact (fun A up un rs H m mn => kernel_restore_frontier up un rs H m mn). Qed.

Theorem C08_translated_restore_binary64 :
  forall (up : P F64) (un : var * nat) (rs : ruleset F64) (m : P F64), wf rs ->
  kernel_restored up un rs m 0%float = restored_gen false rs m.
Proof. exact kernel_restored_eq_F64. Qed.

Print Assumptions C08_restore_frontier_translated.

Print Assumptions C08_restore_frontier.
Print Assumptions C08_resume_exact.
Print Assumptions C08_suffix_and_repeats.
Print Assumptions C08_refuted_lt.

(* ---- third tie to the source: gen/Queue_gen.v is the translation of the Python text of the
   priority-queue OBJECT (lib_guesser/priority_queue.py: PcfgQueue.__init__ with a save_config,
   restore_base_item, insert_queue, next, update_save_config, QueueItem's comparison methods) and of
   PcfgGrammar.restore_prob_order (harness/translate_queue.py, redone on every run).  heapq is not
   translated: push / pop are arbitrary functions meeting its contract for the translated __lt__.
   The config object holds the floats whose str() is stored (float(str(p)) = p is trusted).
   up / un / ui: the undefined values; flit: the meaning of a float literal (the identity for
   binary64); fuel: the depth the recursive walk may reach. ---- *)
From Coq Require Import NArith.
From Pcfg Require Import QueueRt QueueModel QueueProofs QueueGenProofs.
From PcfgGen Require Import Queue_gen.

(* restore_prob_order starts the recursive walk at left_index 0 with the callback and returns True *)
Theorem C08_source_restore_entry_is_model :
  forall (A : palg) (up : P A) (un : var * nat) (fuel : nat) (rs : ruleset A) (it : item A) (m mn : P A),
  py_restore_prob_order up un fuel rs it m mn = (true, py_restore up un fuel rs it m mn 0).
Proof. exact (fun A up un fuel rs it m mn => queue_restore_prob_order_eq up un fuel rs it m mn). Qed.

(* ... after raising CPython's recursion limit to at least 10^6 (deep restores must work) *)
Theorem C08_source_recursion_limit_raised : (1000000 <=? py_restore_prob_order_recursion_limit)%N = true.
Proof. vm_compute. reflexivity. Qed.

(* what update_save_config writes is what the constructor reads back: max for max, min for min *)
Theorem C08_source_save_config_is_model :
  forall (A : palg) (q : pcfg_queue A) (cfg : config A) (d : P A),
  cfg_max d (py_PcfgQueue_update_save_config q cfg) = max_probability q /\
  cfg_min d (py_PcfgQueue_update_save_config q cfg) = min_probability q.
Proof. exact (fun A q cfg d => queue_save_reads q cfg d). Qed.

(* PcfgQueue(pcfg, save_config) = the model's restored object: per base item (none skipped, in order) the
   items the walk saves are pushed; max / min probability are the saved ones *)
Theorem C08_source_init_restore_is_model :
  forall (A : palg) (up : P A) (un : var * nat) (flit : float -> P A) (push : heap A -> item A -> heap A)
         (fuel : nat) (rs : ruleset A) (cfg : config A),
  py_PcfgQueue_init up un flit push fuel rs (Some cfg) =
  q_restored push 50000%N (py_initalize_base_structures up rs) (fun it m mn => py_restore up un fuel rs it m mn 0)
             (cfg_max up cfg) (cfg_min up cfg).
Proof. exact (fun A up un flit push fuel rs cfg => queue_init_restore_eq up un flit push fuel rs cfg). Qed.

Theorem C08_translated_init_restore_is_model :
  forall (A : palg) (up : P A) (un : var * nat) (flit : float -> P A) (rs : ruleset A), wf rs ->
  forall (push : heap A -> item A -> heap A) (fuel : nat) (cfg : config A),
  (forall p, okb p = true -> ple (cfg_min up cfg) p = true) ->
  (forall it, In it (init_items rs) -> restore_fuel rs it <= fuel) ->
  py_PcfgQueue_init up un flit push fuel rs (Some cfg) = q_resume push 50000%N rs (cfg_max up cfg) (cfg_min up cfg).
Proof. exact (fun A up un flit rs H push fuel cfg => queue_init_restore_model up un flit rs H push fuel cfg). Qed.

(* the heap right after the constructor is the frontier of the saved probability *)
Theorem C08_restore_frontier_queue_translated :
  forall (A : palg) (up : P A) (un : var * nat) (flit : float -> P A) (rs : ruleset A), wf rs ->
  forall (push : heap A -> item A -> heap A), push_ok push -> forall (fuel : nat) (cfg : config A),
  (forall p, okb p = true -> ple (cfg_min up cfg) p = true) ->
  (forall it, In it (init_items rs) -> restore_fuel rs it <= fuel) ->
  okb (cfg_max up cfg) = true ->
  Permutation (p_queue (py_PcfgQueue_init up un flit push fuel rs (Some cfg)))
              (filter (frontierb rs (cfg_max up cfg)) (all_preterminals rs)) /\
  max_probability (py_PcfgQueue_init up un flit push fuel rs (Some cfg)) = cfg_max up cfg.
Proof. exact (fun A up un flit rs H push Hpush fuel cfg => queue_restore_frontier up un flit rs H push Hpush fuel cfg). Qed.

(* the resumed session over the translated object returns exactly the pre-terminals at or below the saved
   probability, each once, in non-increasing order, and then the heap is empty *)
Theorem C08_resume_exact_queue_translated :
  forall (A : palg) (up : P A) (un : var * nat) (ui : item A) (flit : float -> P A) (rs : ruleset A), wf rs ->
  forall (push : heap A -> item A -> heap A) (pop : heap A -> option (item A * heap A)),
  push_ok push -> heap_ok py_QueueItem_lt pop -> forall (fuel : nat) (cfg : config A),
  (forall p, okb p = true -> ple (cfg_min up cfg) p = true) ->
  (forall it, In it (init_items rs) -> restore_fuel rs it <= fuel) ->
  okb (cfg_max up cfg) = true ->
  let SS := filter (below (cfg_max up cfg)) (all_preterminals rs) in
  let s := fun n => py_session up un ui flit push pop fuel rs (Some cfg) n in
  (forall n, nonincreasing (rev (fst (s n)))) /\
  (forall n, NoDup (fst (s n) ++ p_queue (snd (s n)))) /\
  (forall n x, In x (fst (s n) ++ p_queue (snd (s n))) -> In x SS) /\
  (forall n, n <= length SS -> length (fst (s n)) = n) /\
  Permutation (fst (s (length SS))) SS /\
  p_queue (snd (s (length SS))) = nil.
Proof.
  exact (fun A up un ui flit rs H push pop Hpush Hpop fuel cfg =>
           queue_resume_exact up un ui flit rs H push pop Hpush (proj1 (queue_heap_contract pop) Hpop) fuel cfg).
Qed.

(* the property's sentence over two translated objects: session 1 (new) is quit when its k-th call of next
   has returned x and update_save_config writes cfg; session 2 (another heap allowed) is constructed from cfg *)
Theorem C08_suffix_and_repeats_queue_translated :
  forall (A : palg) (up : P A) (un : var * nat) (ui : item A) (flit : float -> P A) (rs : ruleset A)
         (push push' : heap A -> item A -> heap A) (pop pop' : heap A -> option (item A * heap A))
         (fuel fuel' : nat) (cfg0 : config A) (k : nat) (U1 : list (item A)) (x : item A) (U2 : list (item A)),
  wf rs -> push_ok push -> push_ok push' -> heap_ok py_QueueItem_lt pop -> heap_ok py_QueueItem_lt pop' ->
  (forall p, okb p = true -> ple (flit 0%float) p = true) ->
  (forall it, In it (init_items rs) -> restore_fuel rs it <= fuel') ->
  rev (fst (py_session up un ui flit push pop fuel rs None (total rs))) = U1 ++ x :: U2 ->
  fst (py_session up un ui flit push pop fuel rs None k) = x :: rev U1 ->
  let cfg := py_PcfgQueue_update_save_config (snd (py_session up un ui flit push pop fuel rs None k)) cfg0 in
  let m := iprob x in
  let B := fst (py_session up un ui flit push' pop' fuel' rs (Some cfg) (length (filter (below m) (all_preterminals rs)))) in
  (forall y, In y (x :: U2) -> In y B) /\
  (forall y, In y B -> ple (iprob y) m = true) /\
  NoDup B /\
  (forall y, In y B -> In y U1 -> peq (iprob y) m = true) /\
  nonincreasing (rev B).
Proof.
  exact (fun A up un ui flit rs push push' pop pop' fuel fuel' cfg0 k U1 x U2 Hwf Hpush Hpush' Hpop Hpop' =>
           queue_suffix_and_repeats up un ui flit rs push push' pop pop' fuel fuel' cfg0 k U1 x U2 Hwf Hpush Hpush'
             (proj1 (queue_heap_contract pop) Hpop) (proj1 (queue_heap_contract pop') Hpop')).
Qed.

(* binary64: float literals are themselves and 0.0 (the min_probability __init__ sets) is below every ok double *)
Theorem C08_binary64_min_probability_below_ok : forall p : P F64, okb p = true -> @ple F64 0%float p = true.
Proof. exact queue_binary64_min_probability. Qed.

(* ... hence the sentence for binary64 objects (flit = the identity) without a hypothesis on the literals *)
Theorem C08_suffix_and_repeats_queue_binary64 :
  forall (up : P F64) (un : var * nat) (ui : item F64) (rs : ruleset F64)
         (push push' : heap F64 -> item F64 -> heap F64) (pop pop' : heap F64 -> option (item F64 * heap F64))
         (fuel fuel' : nat) (cfg0 : config F64) (k : nat) (U1 : list (item F64)) (x : item F64) (U2 : list (item F64)),
  wf rs -> push_ok push -> push_ok push' -> pop_ok_okb pop -> pop_ok_okb pop' ->
  (forall it, In it (init_items rs) -> restore_fuel rs it <= fuel') ->
  rev (fst (@py_session F64 up un ui (fun f => f) push pop fuel rs None (total rs))) = U1 ++ x :: U2 ->
  fst (@py_session F64 up un ui (fun f => f) push pop fuel rs None k) = x :: rev U1 ->
  let cfg := py_PcfgQueue_update_save_config (snd (@py_session F64 up un ui (fun f => f) push pop fuel rs None k)) cfg0 in
  let m := iprob x in
  let B := fst (@py_session F64 up un ui (fun f => f) push' pop' fuel' rs (Some cfg)
                            (length (filter (below m) (all_preterminals rs)))) in
  (forall y, In y (x :: U2) -> In y B) /\
  (forall y, In y B -> ple (iprob y) m = true) /\
  NoDup B /\
  (forall y, In y B -> In y U1 -> peq (iprob y) m = true) /\
  nonincreasing (rev B).
Proof. exact queue_suffix_and_repeats_F64. Qed.

(* non-vacuity: the demo ruleset, a list heap; a session quit after 7 pops, saved, restored, run *)
Theorem C08_queue_hypotheses_satisfiable :
  wf demo_rs /\ push_ok (@list_push F64) /\ pop_ok_okb (@pop_first_max F64) /\
  (forall it, In it (init_items demo_rs) -> restore_fuel demo_rs it <= 20) /\
  length (fst (demo_session None 44)) = 44 /\
  (let cfg := py_PcfgQueue_update_save_config (snd (demo_session None 7)) nil in
   length (fst (demo_session (Some cfg) 60)) = 41 /\ @okb F64 (@cfg_max F64 nan cfg) = true).
Proof. exact queue_hypotheses_satisfiable. Qed.

Print Assumptions C08_suffix_and_repeats_queue_translated.
Print Assumptions C08_resume_exact_queue_translated.
Print Assumptions C08_source_recursion_limit_raised.
(* ---- translator tie of the command line / save-file glue (task T17): gen/Cli_gen.v is the
   translation of pcfg_guesser.py (main, parse_command_line, create_save_config, load_save;
   harness/translate_cli.py, redone on every run); see Props/C14.v for the equalities of the other
   translated functions with the model CliModel.v *)
From Coq Require Import String ZArith.
From Pcfg Require Import CliModel CliModelProofs CliRt CliGenProofs.
From PcfgGen Require Import Cli_gen.
Import ListNotations.

Theorem C08_source_main_is_model : forall E, run_main (py_main E) world0 = m_main E gen_version.
Proof. exact main_eq. Qed.

(* "A session is refused when the ruleset's UUID differs from the one saved": for every argv that
   restores a session, every save file load_save accepts and every ruleset, main builds the grammar
   and then runs the session only when the saved uuid equals the ruleset's - with load_session True,
   the save file name <script dir>/<session>.sav and the loaded configuration, unchanged (it holds
   the saved min/max probability the queue is rebuilt from) *)
Theorem C08_uuid_decides_resume : forall E o c rule sb sc e log u,
  m_parse (e_int_of E) (e_argv E) = Some (true, o) -> resumes o = true ->
  m_load_save (e_fs E (save_name E o)) = LOk c rule sb sc ->
  cfg_lookup k_rule_info (lit "uuid") c = Some u ->
  run_main (py_main E) world0 = (e, log) ->
  exists g, log = EGrammar g :: match e_grammar E g with
                               | None => []
                               | Some u' =>
                                 if py_eqb (VStr u) u' then
                                   [ECrackRun {| cs_pcfg := {| g_call := g; g_uuid := u' |}; cs_save_config := VCfg c;
                                                 cs_save_filename := VStr (save_name E o) |} (VBool true) (v_limit (o_limit o))]
                                 else []
                               end.
Proof. exact source_uuid. Qed.

(* a save file that is missing, unparsable or lacks one of the five options restores nothing *)
Theorem C08_unusable_save_file : forall E o,
  m_parse (e_int_of E) (e_argv E) = Some (true, o) -> resumes o = true ->
  match m_load_save (e_fs E (save_name E o)) with
  | LFail => run_main (py_main E) world0 = (MDone, [])
  | LCrash e => run_main (py_main E) world0 = (MRaise e, [])
  | LOk _ _ _ _ => True
  end.
Proof. exact source_load_failure. Qed.

(* what a session writes is read back: rule name and flags of the saved session (round trip) *)
Theorem C08_save_load_round_trip : forall now rule sb sc uuid stamp guessing,
  m_load_save (FCfg (set_guessing guessing
     (cfg_set_in k_session_info (lit "last_updated") stamp
        (cfg_set_in k_rule_info (lit "uuid") uuid (m_create_save_config now rule sb sc))))) =
  LOk (set_guessing guessing
     (cfg_set_in k_session_info (lit "last_updated") stamp
        (cfg_set_in k_rule_info (lit "uuid") uuid (m_create_save_config now rule sb sc)))) rule sb sc.
Proof. exact session_file_round_trip. Qed.

(* non-vacuity: the resumed run of CliGenProofs.ex_env (saved uuid = ruleset uuid) *)
Theorem C08_source_cli_example :
  run_main (py_main ex_env) world0 =
  (MDone,
   let g := {| gc_rule_name := VStr (lit "R"); gc_base_directory := VStr (lit "/x/Rules/R"); gc_version := gen_version;
               gc_save_file := VStr (lit "/x/s1.sav"); gc_skip_brute := VBool false; gc_skip_case := VBool true;
               gc_debug := VBool false |} in
   [EGrammar g;
    ECrackRun {| cs_pcfg := {| g_call := g; g_uuid := VStr (lit "u-1") |}; cs_save_config := VCfg ex_saved;
                 cs_save_filename := VStr (lit "/x/s1.sav") |} (VBool true) (VInt 5%Z)]).
Proof. exact ex_resume_run. Qed.

Print Assumptions C08_source_main_is_model.
Print Assumptions C08_uuid_decides_resume.
Print Assumptions C08_save_load_round_trip.
