(* C20 - edit_rules only removes base structures, and only those that fail the
   filter.  Theorems only (model and proofs in EditRules.v). *)
From Coq Require Import List Arith Bool NArith.
From Pcfg Require Import EditRules EditCorr SmallGenProofsEdit.
From PcfgGen Require Import Small_edit_gen.
Import ListNotations.

(* for lines as the trainer writes them (structure = concatenation of its
   labels, probability text without upper-case letters) the edited list is the
   original list filtered by [keep]: order, structure text and probability text
   of the survivors unchanged; [keep] is the conjunction of the requested tests *)
Theorem C20_filter :
  forall (re_search : str -> str -> bool) c ls,
  Forall well_formed ls -> Forall (fun l => total_len (tokens (gstruct l)) <> None) ls ->
  edit re_search c ls = Ok (filter (keep re_search c) ls).
Proof. exact edit_is_filter. Qed.

(* the two hypotheses as a computable test: the check evaluates [check_wf] on the lines of every
   grammar.txt the real trainer writes during a run (correspondence obligation trainer-lines) *)
Theorem C20_filter_checked :
  forall (re_search : str -> str -> bool) c ls,
  check_wf ls = true ->
  edit re_search c (mk_lines ls) = Ok (filter (keep re_search c) (mk_lines ls)).
Proof. exact edit_is_filter_checked. Qed.

(* label arithmetic of a kept structure under bounds *)
Theorem C20_length_bound_labels :
  forall (re_search : str -> str -> bool) c l n,
  keep re_search c l = true -> max_length c <> 0 -> total_len (tokens (gstruct l)) = Some n ->
  n = 0 \/ (min_length c <= n /\ n <= max_length c).
Proof. exact kept_length_bounds. Qed.

(* non-vacuity and the known finding: "A8X1" counts as 9 and is kept under
   --max_length 9, although the context strings behind X1 have 2-4 characters *)
Example C20_refuted_context_label :
  let l := {| gstruct := [65;56;88;49]%N; gprob := [48;46;53]%N |} in
  well_formed l /\ total_len (tokens (gstruct l)) = Some 9 /\
  keep (fun _ _ => true) {| min_length := 0; max_length := 9; terminal_set := None; regexes := [] |} l = true.
Proof. vm_compute. repeat split; discriminate. Qed.

(* ---- translator tie: the Python text of check_regex, edit_terminal_set, edit_length
   and of the run of passes in edit_rules, translated on every run into
   gen/Small_edit_gen.v, IS the model the theorems above are about.  The Python
   works on the text of Grammar/grammar.txt; [render ls] is the text of the lines
   ls (structure TAB probability LF), [line_ok]: no TAB / LF inside the two fields
   and a probability text str.strip() leaves alone.  For every regex oracle,
   isspace predicate and value of a subscript that raises in Python. ---- *)
Theorem C20_source_check_regex_is_model :
  forall (re_search : str -> str -> bool) (isspace : N -> bool) (undef_str : str) rs ls,
  Forall (line_ok isspace) ls ->
  py_check_regex re_search isspace undef_str (render ls) rs = render (filter (regex_keeps re_search rs) ls).
Proof. exact small_check_regex_eq. Qed.

Theorem C20_source_edit_terminal_set_is_model :
  forall (re_search : str -> str -> bool) (isspace : N -> bool) (undef_str : str) set ls,
  Forall (line_ok isspace) ls ->
  py_edit_terminal_set re_search isspace undef_str (render ls) set = render (opt_filter (edit_set_line set) ls).
Proof. exact small_edit_terminal_set_eq. Qed.

Theorem C20_source_edit_length_is_model :
  forall (re_search : str -> str -> bool) (isspace : N -> bool) (undef_str : str) mn mx ls,
  Forall (line_ok isspace) ls ->
  py_edit_length re_search isspace undef_str (render ls) mn mx =
  match map_res (edit_length_line mn mx) ls with Ok ls' => Ok (render ls') | Raise => Raise end.
Proof. exact small_edit_length_eq. Qed.

(* config.get('terminal_set') is a non-empty list or False (parse_command_line) *)
Theorem C20_source_edit_passes_is_model :
  forall (re_search : str -> str -> bool) (isspace : N -> bool) (undef_str : str) c ls,
  Forall (line_ok isspace) ls -> terminal_set c <> Some [] ->
  py_edit_passes re_search isspace undef_str c (render ls) =
  match edit re_search c ls with Ok ls' => Ok (render ls') | Raise => Raise end.
Proof. exact small_edit_passes_eq. Qed.

(* the main statement transported to the source: the text edit_rules writes back
   is the text of the original lines filtered by [keep], nothing else changed *)
Theorem C20_source_filter :
  forall (re_search : str -> str -> bool) (isspace : N -> bool) (undef_str : str) c ls,
  Forall (line_ok isspace) ls -> terminal_set c <> Some [] ->
  Forall well_formed ls -> Forall (fun l => total_len (tokens (gstruct l)) <> None) ls ->
  py_edit_passes re_search isspace undef_str c (render ls) = Ok (render (filter (keep re_search c) ls)).
Proof. exact small_edit_passes_filter. Qed.

Example C20_source_filter_example :
  Forall (line_ok ex_isspace) ex_lines /\ terminal_set ex_config <> Some [] /\
  Forall well_formed ex_lines /\ Forall (fun l => total_len (tokens (gstruct l)) <> None) ex_lines /\
  py_edit_passes (fun _ _ => true) ex_isspace [] ex_config (render ex_lines)
  = Ok (render [ {| gstruct := [65; 52; 68; 50]%N; gprob := [48; 46; 53]%N |} ]).
Proof. exact small_edit_example. Qed.

Print Assumptions C20_filter.
Print Assumptions C20_filter_checked.
Print Assumptions C20_source_edit_passes_is_model.
Print Assumptions C20_source_filter.
Print Assumptions C20_length_bound_labels.
