(* C20 - edit_rules only removes base structures, and only those that fail the
   filter.  Theorems only (model and proofs in EditRules.v). *)
From Coq Require Import List Arith Bool NArith.
From Pcfg Require Import EditRules.
Import ListNotations.

(* for lines as the trainer writes them (structure = concatenation of its
   labels, probability text without upper-case letters) the edited list is the
   original list filtered by [keep]: order, structure text and probability text
   of the survivors unchanged; [keep] is the conjunction of the requested tests *)
Theorem C20_filter :
  forall (re_search : str -> str -> bool) c ls,
  Forall well_formed ls -> Forall (fun l => total_len (tokens (gstruct l)) <> None) ls ->
  edit re_search c ls = Ok (filter (keep re_search c) ls).
Proof. exact edit_is_filter. Qed.

(* label arithmetic of a kept structure under bounds *)
Theorem C20_length_bound_labels :
  forall (re_search : str -> str -> bool) c l n,
  keep re_search c l = true -> max_length c <> 0 -> total_len (tokens (gstruct l)) = Some n ->
  n = 0 \/ (min_length c <= n /\ n <= max_length c).
Proof. exact kept_length_bounds. Qed.

(* non-vacuity and the known finding: "A8X1" counts as 9 and is kept under
   --max_length 9, although the context strings behind X1 have 2-4 characters *)
Example C20_refuted_context_label :
  let l := {| gstruct := [65;56;88;49]%N; gprob := [48;46;53]%N |} in
  well_formed l /\ total_len (tokens (gstruct l)) = Some 9 /\
  keep (fun _ _ => true) {| min_length := 0; max_length := 9; terminal_set := None; regexes := [] |} l = true.
Proof. vm_compute. repeat split; discriminate. Qed.

Print Assumptions C20_filter.
Print Assumptions C20_length_bound_labels.
