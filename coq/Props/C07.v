(* placeholder while the harness is built *)
From Coq Require Import List NArith.
From Pcfg Require Import TextFile.
Theorem C07_placeholder : 1 = 1. Proof. reflexivity. Qed.
