(* C07 - a saved ruleset means the same thing to every tool that loads it.
   Property theorems only (models: theories/TextFile.v, Counters.v; proofs:
   TextFileProofs.v, IoFacts.v).  LB / WS / IWS / DZ are the code point classes
   probed from the running interpreter, check_valid_rejected the code points
   extracted from lib_trainer/trainer_file_input.py (gen/Consts_gen.v).

   The LAST TWO theorems are side conditions on the current /repo sources; they
   are stated as the property demands and fail to check while the defects R10
   (check_valid accepts U+2029) and R11 (OmenScorer ignores the ruleset
   encoding) are in the tree.  Everything above them checks independently. *)
From Coq Require Import String Ascii.
From Coq Require Import List NArith ZArith Bool Floats.
From Pcfg Require Import ProbAlg F64 TextFile Counters Reader IoCorr TextFileProofs IoFacts.
From PcfgGen Require Import Consts_gen.
From Pcfg Require Import LoaderRt LoaderGenProofs.
From PcfgGen Require Import Loader_gen.
From Pcfg Require Import WriterRt WriterSpec WriterGenProofs WriterGenProofsConfig WriterGenInst SmallGenProofsProbs.
From PcfgGen Require Import Writer_gen WriterConfig_gen Small_probs_gen.
Import ListNotations.

(* the classes probed from this interpreter have the shape the proofs rely on
   (LF, CR break lines, TAB does not, LF is stripped, float characters / digits /
   the $HEX alphabet are neither white space nor line breaks, int() reads ASCII digits) *)
Theorem C07_probed_classes_ok : classes_ok = true.
Proof. exact classes_ok_true. Qed.

(* guesser: _load_from_file returns the written (value, probability) list,
   grouped by consecutive equal probability, no value lost, order kept - also
   for values with leading/trailing blanks, non-ASCII, non-BMP characters:
   only TAB and line-break code points are excluded (safe) *)
Theorem C07_roundtrip_guesser :
  forall (repr : float -> str) (pfloat : str -> option float) (encb : N -> bool) (onfail : enc_fail)
         (l : list (str * float)),
    Forall (fun it => safe (fst it) = true /\ float_ok repr pfloat (snd it)) l ->
    Forall (fun it => forallb encb (write_line repr it) = true) l ->
    Forall (fun it => okbF (snd it) = true) l ->
    load_guesser LB WS pfloat encb onfail (write_file repr l) = Some (group_by_prob l)
    /\ flat_map gvals (group_by_prob l) = map fst l.
Proof. exact roundtrip_guesser_inst. Qed.

Theorem C07_roundtrip_scorer :
  forall (repr : float -> str) (pfloat : str -> option float) (encb : N -> bool) (onfail : enc_fail)
         (l : list (str * float)),
    Forall (fun it => safe (fst it) = true /\ float_ok repr pfloat (snd it)) l ->
    Forall (fun it => forallb encb (write_line repr it) = true) l ->
    NoDup (map fst l) ->
    load_scorer LB WS pfloat encb onfail (write_file repr l) = (true, l).
Proof. exact roundtrip_scorer_inst. Qed.

(* OMEN IP.level / EP.level / CP.level through the guesser's loader ... *)
Theorem C07_roundtrip_omen_guesser : forall l : list (Z * str), Forall level_item_ok l ->
  omen_guesser_items LB IWS DZ (write_levels l) = Some l.
Proof. exact roundtrip_omen_guesser_inst. Qed.

(* ... and through OmenScorer (opened the way the source opens it), given the
   text it decodes is the text that was written: see the side condition
   C07_omen_scorer_reads_ruleset_encoding at the end *)
Theorem C07_roundtrip_omen_scorer : forall l : list (Z * str), Forall level_item_ok l ->
  omen_scorer_items omen_scorer_codecs_open LB IWS DZ (write_levels l) = Some l.
Proof. exact roundtrip_omen_scorer_inst. Qed.

Theorem C07_roundtrip_omen_alphabet : forall a : list str, Forall (fun c => safe c = true) a ->
  load_alphabet LB (write_alphabet a) = a.
Proof. exact roundtrip_alphabet_inst. Qed.

(* config.ini names exactly the files written, section by section; file names
   are distinct for distinct keys; what the folders held before is irrelevant *)
Theorem C07_config_lists_exact : forall (O : numops) (P : pcounters) sens (cov : num O) n sec names,
  In (sec, names) (config_lists O P) ->
  exists dir files, In (sec, dir) config_dirs /\ In (dir, files) (save_pcfg_data O P sens cov n) /\
                    map fst files = names.
Proof. exact config_lists_exact. Qed.

Theorem C07_file_names_distinct : forall (O : numops) old (cs : list (str * counter O)),
  NoDup (map fst cs) -> NoDup (map fst (save_indexed old cs)).
Proof. exact CountersProofs.save_indexed_names_nodup. Qed.

(* ---- translator tie (harness/translate_writer.py; gen/Writer_gen.v, gen/WriterConfig_gen.v): the Python
   text of save_indexed_counters / save_pcfg_data (lib_trainer/save_pcfg_data.py) and of
   create_filename_list / add_* / create_config_file (lib_trainer/config_file.py), translated on every
   run, over the file system of WriterRt.v (a map from paths to text, os.walk + os.unlink) ---- *)

(* the folder is emptied at every depth, then holds Counters.save_indexed of the counters *)
Theorem C07_source_save_indexed_counters_is_model :
  forall (O : numops) (repr : num O -> str) (encb : str -> N -> bool) (nmul : num O -> num O -> num O) (ud : str * num O)
         (folder : path) (cl : list (pykey * counter O)) (enc : str) (fs : fsys),
  fs_wf fs ->
  (all_encodable repr encb enc cl = true ->
   py_save_indexed_counters repr encb (py_calculate_probabilities nmul ud) folder cl enc fs =
   (Ok true, fs_install folder (folder_texts repr (save_indexed [] (str_keys cl))) fs)) /\
  (all_encodable repr encb enc cl = false ->
   exists fs', py_save_indexed_counters repr encb (py_calculate_probabilities nmul ud) folder cl enc fs = (Ok false, fs')).
Proof. exact (@source_save_indexed_eq). Qed.

Theorem C07_source_save_pcfg_data_is_model :
  forall (O : numops) (repr : num O -> str) (encb : str -> N -> bool) (nmul : num O -> num O -> num O) (ud : str * num O)
         (base : path) (P : pcounters) (sens : bool) (cov : num O) (n : N) (enc : str) (fs : fsys),
  fs_wf fs ->
  let pp := parser_of O P (with_markov cov n (of_counts (sc_base (pc_structs P)))) in
  (ruleset_encodable repr encb enc (save_pcfg_data O P sens cov n) = true ->
   py_save_pcfg_data repr encb (py_calculate_probabilities nmul ud) base pp enc sens fs =
   (Ok true, install_all repr base (save_pcfg_data O P sens cov n) fs)) /\
  (ruleset_encodable repr encb enc (save_pcfg_data O P sens cov n) = false ->
   exists fs', py_save_pcfg_data repr encb (py_calculate_probabilities nmul ud) base pp enc sens fs = (Ok false, fs')).
Proof. exact (@source_save_pcfg_data_cases). Qed.

(* binary64: the text of a file is TextFile.write_file, the writer of the round trips above *)
Theorem C07_source_text_is_write_file : forall (repr : float -> str) (l : list (str * float)),
  @write_text FNum repr l = write_file repr l.
Proof. exact write_text_F64. Qed.

Theorem C07_source_create_filename_list_is_model : forall (O : numops) (d : list (pykey * counter O)),
  py_create_filename_list O d = Ok (name_list d) /\ map py_str (name_list d) = filename_list (str_keys d).
Proof. exact (fun O d => conj (config_filename_list_eq O d) (name_list_strs d)). Qed.

(* the sections the translated create_config_file builds: their `filenames` and `directory` entries are
   the model's config_lists / config_dirs and START -> grammar.txt in Grammar, in any order *)
Theorem C07_source_create_config_file_is_model : forall (O : numops) (pp : parser_obj O),
  exists cfg, py_create_config_file O tt tt pp = Ok cfg /\
    (forall sec names, In (sec, names) (cfg_names cfg) <-> In (sec, names) (expected_names pp)) /\
    (forall sec dir, In (sec, dir) (cfg_dirs cfg) <-> In (sec, dir) expected_dirs).
Proof. exact config_create_eq. Qed.

Theorem C07_source_expected_names_are_config_lists : forall (O : numops) (P : pcounters) (base : counter O),
  map (fun sn => (fst sn, map py_str (snd sn))) (tl (expected_names (parser_of O P base))) = config_lists O P.
Proof. exact expected_names_model. Qed.

(* C07_file_names_distinct over the translated writer: one file per key, named str(key).txt, distinct
   names for distinct keys; afterwards the folder holds nothing else, whatever it held before *)
Theorem C07_source_file_names_distinct :
  forall (O : numops) (repr : num O -> str) (encb : str -> N -> bool) (nmul : num O -> num O -> num O) (ud : str * num O)
         (folder : path) (cl : list (pykey * counter O)) (enc : str) (fs : fsys),
  fs_wf fs -> all_encodable repr encb enc cl = true -> NoDup (map (fun kc => py_str (fst kc)) cl) ->
  let fs' := snd (py_save_indexed_counters repr encb (py_calculate_probabilities nmul ud) folder cl enc fs) in
  fs_list folder fs' = folder_texts repr (save_indexed [] (str_keys cl)) /\
  map fst (fs_list folder fs') = map (fun kc => file_name (py_str (fst kc))) cl /\
  NoDup (map fst (fs_list folder fs')) /\ fs_wf fs'.
Proof. exact (@source_file_names_distinct). Qed.

(* C07_config_lists_exact over the translated functions: after the translated save_pcfg_data has run on
   ANY disk, every section of the configuration the translated create_config_file builds names exactly
   the files of its directory (START names grammar.txt, which is in Grammar) *)
Theorem C07_source_config_lists_exact :
  forall (O : numops) (repr : num O -> str) (encb : str -> N -> bool) (nmul : num O -> num O -> num O) (ud : str * num O)
         (base : path) (P : pcounters) (sens : bool) (cov : num O) (n : N) (enc : str) (fs : fsys),
  fs_wf fs -> pcounters_wf P -> ruleset_encodable repr encb enc (save_pcfg_data O P sens cov n) = true ->
  let pp := parser_of O P (with_markov cov n (of_counts (sc_base (pc_structs P)))) in
  exists cfg fs',
    py_create_config_file O tt tt pp = Ok cfg /\
    py_save_pcfg_data repr encb (py_calculate_probabilities nmul ud) base pp enc sens fs = (Ok true, fs') /\
    fs_wf fs' /\
    (forall sec names, In (sec, names) (cfg_names cfg) -> sec <> str_of_string "START" ->
       exists dir, In (sec, dir) (cfg_dirs cfg) /\ map fst (fs_list (path_join base dir) fs') = map py_str names) /\
    (In (str_of_string "START", [KStr (str_of_string "grammar.txt")]) (cfg_names cfg) /\
     In (str_of_string "START", str_of_string "Grammar") (cfg_dirs cfg) /\
     In (str_of_string "grammar.txt") (map fst (fs_list (path_join base (str_of_string "Grammar")) fs'))).
Proof. exact (@source_config_lists_exact). Qed.

(* the hypotheses are satisfiable and the generated functions run (two digit lengths -> 2.txt, 1.txt) *)
Example C07_source_config_example :
  let pp : parser_obj QNum :=
    parser_of QNum {| pc_keyboard := []; pc_emails := []; pc_email_providers := []; pc_website_urls := [];
                      pc_website_hosts := []; pc_website_prefixes := []; pc_years := []; pc_context := [];
                      pc_alpha := [(4, [([112;97;115;115], 1)])]%N; pc_masks := [(4, [([76;76;76;76], 1)])]%N;
                      pc_digits := [(2, [([49;50], 1)]); (1, [([55], 2)])]%N; pc_other := [];
                      pc_structs := {| sc_base := []; sc_raw := []; sc_prince := [] |} |} [] in
  exists cfg, py_create_config_file QNum tt tt pp = Ok cfg /\
    In (str_of_string "BASE_D", [KStr (str_of_string "2.txt"); KStr (str_of_string "1.txt")]) (cfg_names cfg) /\
    In (str_of_string "BASE_D", str_of_string "Digits") (cfg_dirs cfg).
Proof. exact config_example. Qed.

Print Assumptions C07_source_save_indexed_counters_is_model.
Print Assumptions C07_source_save_pcfg_data_is_model.
Print Assumptions C07_source_create_filename_list_is_model.
Print Assumptions C07_source_create_config_file_is_model.
Print Assumptions C07_source_file_names_distinct.
Print Assumptions C07_source_config_lists_exact.

(* the published check_valid (C0 controls, U+0085, U+2028) accepts U+2029, on
   which the line iteration splits: a value holding it is lost by the guesser,
   fails the scorer's load and fails the OMEN loader *)
Theorem C07_refuted_2029 :
  check_valid rejected_2021 true [97; 98; 99; 8233]%N = true /\ LB 8233%N = true /\
  load_guesser LB WS pf1 (fun _ => true) EncSkip (write_file rp1 [([8233]%N, 0.5%float)]) = Some [] /\
  fst (load_scorer LB WS pf1 (fun _ => true) EncSkip (write_file rp1 [([8233]%N, 0.5%float)])) = false /\
  omen_guesser_items LB IWS DZ (write_levels [(3%Z, [97; 98; 8233]%N)]) = None.
Proof. exact refuted_2029. Qed.

(* hypotheses satisfiable: a written two-line file with a blank-padded value *)
Theorem C07_example :
  load_guesser LB WS pf1 (fun _ => true) EncSkip (write_file rp1 [([32; 97; 32]%N, 0.5%float); ([233; 128512]%N, 0.5%float)])
  = Some [{| gvals := [[32; 97; 32]%N; [233; 128512]%N]; gprob := 0.5%float |}].
Proof. vm_compute. reflexivity. Qed.

(* ---- second tie to the source: gen/Loader_gen.v is the translation of the Python text of
   lib_guesser/grammar_io.py _load_from_file (harness/translate_loader.py, redone on every run).
   Called on an empty list it returns what the model reader the theorems above are about returns:
   for every file (the lines the iteration yields: [copen] is codecs.open + line iteration, None =
   IOError), every whitespace class, float() and codec (encodes the characters [encb] holds for,
   reports [reason] otherwise).  [agrees r m]: r = Done (the model's groups, True), or r = Done
   (what was read so far, False) where the model's load fails; an exception never escapes. *)
Theorem C07_source_load_from_file_is_model :
  forall (ws : N -> bool) (pfloat : pstr -> option float) (encb : N -> bool) (reason : pstr)
         (copen : pstr -> pstr -> option pstr -> option (list pstr)) (lb : N -> bool) (filename encoding : pstr) (text : str),
  copen filename encoding (Some surrogateescape) = Some (lines_keep lb text) ->
  agrees (py_load_from_file F64ops ws pfloat (LoaderGenProofs.enc_of encb reason) copen [] filename encoding)
         (load_guesser lb ws pfloat encb (onfail_of_reason reason) text).
Proof. exact load_from_file_is_load_guesser. Qed.

Theorem C07_source_load_from_file_no_file :
  forall (ws : N -> bool) (pfloat : pstr -> option float) (encb : N -> bool) (reason : pstr)
         (copen : pstr -> pstr -> option pstr -> option (list pstr)) gs (filename encoding : pstr),
  copen filename encoding (Some surrogateescape) = None ->
  py_load_from_file F64ops ws pfloat (LoaderGenProofs.enc_of encb reason) copen gs filename encoding = Done (gs, false).
Proof. exact load_from_file_no_file. Qed.

Theorem C07_source_load_from_file_never_raises :
  forall (ws : N -> bool) (pfloat : pstr -> option float) (encb : N -> bool) (reason : pstr)
         (copen : pstr -> pstr -> option pstr -> option (list pstr)) (filename encoding : pstr),
  exists gs b, py_load_from_file F64ops ws pfloat (LoaderGenProofs.enc_of encb reason) copen [] filename encoding = Done (gs, b).
Proof. exact load_from_file_total. Qed.

(* C07_roundtrip_guesser restated over the translated function *)
Theorem C07_roundtrip_guesser_translated :
  forall (repr : float -> str) (pfloat : str -> option float) (encb : N -> bool) (reason : pstr)
         (copen : pstr -> pstr -> option pstr -> option (list pstr)) (filename encoding : pstr) (l : list (str * float)),
    Forall (fun it => safe (fst it) = true /\ float_ok repr pfloat (snd it)) l ->
    Forall (fun it => forallb encb (write_line repr it) = true) l ->
    Forall (fun it => okbF (snd it) = true) l ->
    copen filename encoding (Some surrogateescape) = Some (lines_keep LB (write_file repr l)) ->
    py_load_from_file F64ops WS pfloat (LoaderGenProofs.enc_of encb reason) copen [] filename encoding
      = Done (map item_of (group_by_prob l), true)
    /\ flat_map (@it_values float) (map item_of (group_by_prob l)) = map fst l.
Proof. exact roundtrip_guesser_translated. Qed.

(* the scorer's reader (lib_scorer/grammar_io.py _load_from_file), translated the same way, returns
   exactly what the model reader returns: the counter as filled so far and True / False *)
Theorem C07_source_scorer_load_from_file_is_model :
  forall (ws : N -> bool) (pfloat : pstr -> option float) (encb : N -> bool) (reason : pstr)
         (copen : pstr -> pstr -> option pstr -> option (list pstr)) (lb : N -> bool) (filename encoding : pstr) (text : str),
  copen filename encoding (Some surrogateescape) = Some (lines_keep lb text) ->
  py_scorer_load_from_file F64ops ws pfloat (LoaderGenProofs.enc_of encb reason) copen [] filename encoding =
  Done (snd (load_scorer lb ws pfloat encb (onfail_of_reason reason) text),
        fst (load_scorer lb ws pfloat encb (onfail_of_reason reason) text)).
Proof. exact scorer_load_from_file_is_load_scorer. Qed.

Theorem C07_source_scorer_load_from_file_no_file :
  forall (ws : N -> bool) (pfloat : pstr -> option float) (encb : N -> bool) (reason : pstr)
         (copen : pstr -> pstr -> option pstr -> option (list pstr)) d (filename encoding : pstr),
  copen filename encoding (Some surrogateescape) = None ->
  py_scorer_load_from_file F64ops ws pfloat (LoaderGenProofs.enc_of encb reason) copen d filename encoding = Done (d, false).
Proof. exact scorer_load_from_file_no_file. Qed.

(* C07_roundtrip_scorer restated over the translated function *)
Theorem C07_roundtrip_scorer_translated :
  forall (repr : float -> str) (pfloat : str -> option float) (encb : N -> bool) (reason : pstr)
         (copen : pstr -> pstr -> option pstr -> option (list pstr)) (filename encoding : pstr) (l : list (str * float)),
    Forall (fun it => safe (fst it) = true /\ float_ok repr pfloat (snd it)) l ->
    Forall (fun it => forallb encb (write_line repr it) = true) l ->
    NoDup (map fst l) ->
    copen filename encoding (Some surrogateescape) = Some (lines_keep LB (write_file repr l)) ->
    py_scorer_load_from_file F64ops WS pfloat (LoaderGenProofs.enc_of encb reason) copen [] filename encoding = Done (l, true).
Proof. exact roundtrip_scorer_translated. Qed.

(* the guesser's reader of Omen/omen_keyspace.txt (load_omen_keyspace), translated: rstrip, split on
   TAB, int() of the first two fields, the dict filled in file order, nothing caught *)
Theorem C07_source_load_omen_keyspace_is_spec :
  forall (ws : N -> bool) (pint : pstr -> option Z) (sopen : pstr -> pstr -> option pstr -> option (list pstr))
         (pjoin : list pstr -> pstr) (dir encoding : pstr),
  py_load_omen_keyspace ws pint sopen pjoin dir encoding =
  match sopen (pjoin [dir; omen_dir; omen_keyspace_txt]) encoding None with
  | Some lines => keyspace_items ws pint lines []
  | None => Fail EIO
  end.
Proof. exact load_omen_keyspace_eq. Qed.

(* hypotheses satisfiable: the two-line file of C07_example through the translated reader *)
Theorem C07_source_example :
  py_load_from_file F64ops WS pf1 (LoaderGenProofs.enc_of (fun _ => true) []) (fun _ _ _ => Some (lines_keep LB (write_file rp1 [([32; 97; 32]%N, 0.5%float); ([233; 128512]%N, 0.5%float)]))) [] [] []
  = Done ([{| it_values := [[32; 97; 32]%N; [233; 128512]%N]; it_prob := 0.5%float |}], true).
Proof. vm_compute. reflexivity. Qed.

Print Assumptions C07_roundtrip_guesser.
Print Assumptions C07_source_load_from_file_is_model.
Print Assumptions C07_roundtrip_guesser_translated.
Print Assumptions C07_source_scorer_load_from_file_is_model.
Print Assumptions C07_roundtrip_scorer_translated.
Print Assumptions C07_roundtrip_scorer.
Print Assumptions C07_roundtrip_omen_guesser.
Print Assumptions C07_roundtrip_omen_scorer.
Print Assumptions C07_config_lists_exact.

(* ---------------------------------------------------------------- side conditions on the sources *)

(* "No password accepted for training can put a value on disk that the
   line-oriented format cannot return unchanged": check_valid rejects TAB and
   every code point str.splitlines / codecs line iteration split on.
   Finite sweep over the probed list, re-checked on every run. *)
Theorem C07_linebreaks_rejected : linebreaks_rejected = true.
Proof. vm_compute. reflexivity. Qed.

(* lifted: every segment of an accepted password is a safe value *)
Theorem C07_accepted_values_safe :
  forall p pre s post, accepted p = true -> p = (pre ++ s ++ post)%list -> safe s = true.
Proof. exact (accepted_values_safe C07_linebreaks_rejected). Qed.

(* OmenScorer decodes IP.level / CP.level with the ruleset encoding *)
Theorem C07_omen_scorer_reads_ruleset_encoding : omen_scorer_uses_ruleset_encoding = true.
Proof. reflexivity. Qed.

(* ---------------------------------------------------------------- translator tie (second tie to the source)

   py_check_valid (gen/Reader_gen.v) is the line-by-line image of check_valid in
   lib_trainer/trainer_file_input.py, written on every run by harness/translate_reader.py;
   the side condition above and its lifting, restated over the translated function itself *)
From Pcfg Require Import ReaderRt ReaderGenProofs ReaderGenFacts.
From PcfgGen Require Import Reader_gen.

Theorem C07_source_check_valid_is_model : forall p, py_check_valid p = accepted p.
Proof. exact py_check_valid_is_model. Qed.

(* no password the translated check_valid accepts holds TAB or a code point str.splitlines / the codecs line
   iteration split on *)
Theorem C07_source_linebreaks_rejected :
  forall c, In c (TAB :: py_linebreaks) -> forall p, In c p -> py_check_valid p = false.
Proof. exact (source_linebreaks_rejected C07_linebreaks_rejected). Qed.

Theorem C07_source_accepted_values_safe :
  forall p pre s post, py_check_valid p = true -> p = (pre ++ s ++ post)%list -> safe s = true.
Proof. exact (source_accepted_values_safe C07_linebreaks_rejected). Qed.

Print Assumptions C07_source_check_valid_is_model.
Print Assumptions C07_source_linebreaks_rejected.

(* ---------------------------------------------------------------- translator tie of the OMEN readers (T19)

   gen/Loader2_gen.v is the translation of the Python text of lib_guesser/omen/input_file_io.py (load_rules,
   _load_config, _load_alphabet, _load_ngrams, _load_length) and of lib_scorer/omen_scorer.py
   (OmenScorer.__init__, _load_omen), redone on every run by harness/translate_loader2.py over the
   dynamically typed runtime theories/Loader2Rt.v.  For EVERY world W (what configparser, int(), os.path.join
   and the two ways of opening a file return: any line lists, any exceptions) the translated functions
   compute the hand-written models of theories/Loader2Model.v, which read a level file line by line the way
   TextFile.level_items / ln_levels / cp_dict do (C07_source_omen_lines_are_level_items ...). *)
From Pcfg Require Loader2Rt Loader2Model Loader2GenProofs Loader2OmenFacts.
From PcfgGen Require Loader2_gen.

(* load_rules called on an empty dict: True and the dict of Loader2Model.enc_omen_tables (alphabet_encoding,
   ngram, max_level = 10, alphabet, ip / ln as {0..10: list}, ep, cp as nested dicts in file order) when every
   file reads, else False (when the exception is one `except Exception` catches; the runtime's own
   XUnmodelled would escape) *)
Theorem C07_source_omen_load_rules_is_model :
  forall (fo : fops) (C S : Type) (W : Loader2Rt.world fo C S) (iws : N -> bool) (dz : list N),
  (forall s, Loader2Rt.w_pint W s = parse_int iws dz s) -> forall dir : pstr,
  match Loader2Model.omen_guesser_load fo W iws dz dir with
  | inl t => Loader2_gen.py_omen_load_rules fo W (Loader2Rt.VStr dir) (Loader2Rt.VDict []) =
             Loader2Rt.XDone (Loader2Model.enc_omen_tables t, Loader2Rt.VBool true)
  | inr e => exists g', Loader2_gen.py_omen_load_rules fo W (Loader2Rt.VStr dir) (Loader2Rt.VDict []) =
                        if Loader2Rt.x_isa (Loader2Rt.XC LoaderRt.CException) e
                        then Loader2Rt.XDone (g', Loader2Rt.VBool false) else Loader2Rt.XFail e
  end.
Proof. exact (@Loader2GenProofs.omen_load_rules_cases). Qed.

(* OmenScorer(base_directory, encoding, max_omen_level) on a fresh instance: the object with the attributes of
   Loader2Model.enc_scorer (ip / cp as dicts in file order, a later line of the same n-gram overwrites; ln with
   the leading '10'; ngram = the length of the n-gram of the first CP line, -1 without one; max_len), or the
   exception of the first line that does not read *)
Theorem C07_source_omen_scorer_init_is_model :
  forall (fo : fops) (C S : Type) (W : Loader2Rt.world fo C S) (iws : N -> bool) (dz : list N),
  (forall s, Loader2Rt.w_pint W s = parse_int iws dz s) ->
  forall (base enc : pstr) (vmax : Loader2Rt.pyval (F fo) C S),
  Loader2_gen.py_omen_scorer_init fo W (Loader2Rt.VObj []) (Loader2Rt.VStr base) (Loader2Rt.VStr enc) vmax =
  match Loader2Model.omen_scorer_load fo W iws dz base enc with
  | inl t => Loader2Rt.XDone (Loader2Model.enc_scorer (Loader2Rt.VStr enc) vmax t, Loader2Rt.VNone)
  | inr e => Loader2Rt.XFail e
  end.
Proof. exact (@Loader2GenProofs.omen_scorer_init_eq). Qed.

(* the line-by-line models read what the readers of TextFile.v (the models of the round trips above and of the
   correspondence) read *)
Theorem C07_source_omen_lines_are_level_items : forall (iws : N -> bool) (dz : list N) maxlvl lines,
  level_items iws dz maxlvl lines =
  match Loader2Model.level_lines iws dz maxlvl lines with inl its => Some its | inr _ => None end.
Proof. exact Loader2OmenFacts.level_lines_items. Qed.

Theorem C07_source_omen_lines_are_ln_levels : forall (iws : N -> bool) (dz : list N) maxlvl lines,
  ln_levels iws dz maxlvl lines =
  match Loader2Model.ln_lines iws dz maxlvl lines with inl ls => Some ls | inr _ => None end.
Proof. exact Loader2OmenFacts.ln_lines_levels. Qed.

Theorem C07_source_omen_cp_lines_are_cp_dict : forall (iws : N -> bool) (dz : list N) maxlvl lines,
  match Loader2Model.cp_lines iws dz maxlvl lines [] with
  | inl d => exists its, level_items iws dz maxlvl lines = Some its /\ cp_dict its = Some d
  | inr _ => match level_items iws dz maxlvl lines with Some its => cp_dict its = None | None => True end
  end.
Proof. exact Loader2OmenFacts.cp_lines_is_cp_dict. Qed.

Print Assumptions C07_source_omen_load_rules_is_model.
Print Assumptions C07_source_omen_scorer_init_is_model.
Print Assumptions C07_source_omen_cp_lines_are_cp_dict.

(* ---- C07 round trips of the OMEN files over the TRANSLATED per-file readers of the guesser: the text the OMEN
   writer model produces (write_levels / write_alphabet / write_ln: OmenTrainer.level_text ... are these, see
   the C07_source_omen_writer_text theorems below), read through codecs.open / open, gives the written tables back *)
From Pcfg Require Loader2RoundTrip Loader2GrammarGenProofs.
From PcfgGen Require Loader2Grammar_gen.

Theorem C07_roundtrip_omen_ip_translated :
  forall (fo : fops) (C S : Type) (W : Loader2Rt.world fo C S),
  (forall s, Loader2Rt.w_pint W s = parse_int IWS DZ s) ->
  forall (dir file : pstr) (g : list (Loader2Rt.pyval (F fo) C S * Loader2Rt.pyval (F fo) C S)) (enc : pstr) (l : list (Z * str)),
  Loader2Rt.dfind (Loader2Rt.VStr Loader2Model.k_alphabet_encoding) g = Some (Loader2Rt.VStr enc) ->
  Loader2Rt.dfind (Loader2Rt.VStr Loader2Model.k_max_level) g = Some (Loader2Rt.VInt 10) ->
  Forall level_item_ok l ->
  Loader2Rt.w_codecs_open W (Loader2Rt.w_path_join W [dir; file]) (Some enc) (Some Loader2Model.k_strict) =
    Loader2Rt.XDone (lines_keep LB (write_levels l)) ->
  Loader2_gen.py_omen_load_ngrams fo W (Loader2Rt.VStr dir) (Loader2Rt.VStr file) (Loader2Rt.VDict g) (Loader2Rt.VStr Loader2Model.k_ip) =
  Loader2Rt.XDone (Loader2Rt.VDict (Loader2Rt.dput (Loader2Rt.VStr Loader2Model.k_ip)
                     (Loader2Model.enc_buckets Loader2Model.enc_strs (ip_buckets l)) g), Loader2Rt.VNone).
Proof. exact (@Loader2RoundTrip.roundtrip_omen_ip_translated). Qed.

Theorem C07_roundtrip_omen_ep_translated :
  forall (fo : fops) (C S : Type) (W : Loader2Rt.world fo C S),
  (forall s, Loader2Rt.w_pint W s = parse_int IWS DZ s) ->
  forall (dir file : pstr) (g : list (Loader2Rt.pyval (F fo) C S * Loader2Rt.pyval (F fo) C S)) (enc : pstr) (l : list (Z * str)),
  Loader2Rt.dfind (Loader2Rt.VStr Loader2Model.k_alphabet_encoding) g = Some (Loader2Rt.VStr enc) ->
  Loader2Rt.dfind (Loader2Rt.VStr Loader2Model.k_max_level) g = Some (Loader2Rt.VInt 10) ->
  Forall level_item_ok l ->
  Loader2Rt.w_codecs_open W (Loader2Rt.w_path_join W [dir; file]) (Some enc) (Some Loader2Model.k_strict) =
    Loader2Rt.XDone (lines_keep LB (write_levels l)) ->
  Loader2_gen.py_omen_load_ngrams fo W (Loader2Rt.VStr dir) (Loader2Rt.VStr file) (Loader2Rt.VDict g) (Loader2Rt.VStr Loader2Model.k_ep) =
  Loader2Rt.XDone (Loader2Rt.VDict (Loader2Rt.dput (Loader2Rt.VStr Loader2Model.k_ep) (Loader2Model.enc_ep (ep_dict l)) g), Loader2Rt.VNone).
Proof. exact (@Loader2RoundTrip.roundtrip_omen_ep_translated). Qed.

Theorem C07_roundtrip_omen_cp_translated :
  forall (fo : fops) (C S : Type) (W : Loader2Rt.world fo C S),
  (forall s, Loader2Rt.w_pint W s = parse_int IWS DZ s) ->
  forall (dir file : pstr) (g : list (Loader2Rt.pyval (F fo) C S * Loader2Rt.pyval (F fo) C S)) (enc : pstr) (l : list (Z * str)),
  Loader2Rt.dfind (Loader2Rt.VStr Loader2Model.k_alphabet_encoding) g = Some (Loader2Rt.VStr enc) ->
  Loader2Rt.dfind (Loader2Rt.VStr Loader2Model.k_max_level) g = Some (Loader2Rt.VInt 10) ->
  Forall level_item_ok l -> Forall (fun it => snd it <> []) l ->
  Loader2Rt.w_codecs_open W (Loader2Rt.w_path_join W [dir; file]) (Some enc) (Some Loader2Model.k_strict) =
    Loader2Rt.XDone (lines_keep LB (write_levels l)) ->
  exists d, cp_dict l = Some d /\
    Loader2_gen.py_omen_load_ngrams fo W (Loader2Rt.VStr dir) (Loader2Rt.VStr file) (Loader2Rt.VDict g) (Loader2Rt.VStr Loader2Model.k_cp) =
    Loader2Rt.XDone (Loader2Rt.VDict (Loader2Rt.dput (Loader2Rt.VStr Loader2Model.k_cp) (Loader2Model.enc_cp d) g), Loader2Rt.VNone).
Proof. exact (@Loader2RoundTrip.roundtrip_omen_cp_translated). Qed.

Theorem C07_roundtrip_omen_alphabet_translated :
  forall (fo : fops) (C S : Type) (W : Loader2Rt.world fo C S)
         (dir file : pstr) (g : list (Loader2Rt.pyval (F fo) C S * Loader2Rt.pyval (F fo) C S)) (enc : pstr) (a : list str),
  Loader2Rt.dfind (Loader2Rt.VStr Loader2Model.k_alphabet_encoding) g = Some (Loader2Rt.VStr enc) ->
  Forall (fun c => safe c = true) a ->
  Loader2Rt.w_codecs_open W (Loader2Rt.w_path_join W [dir; file]) (Some enc) (Some Loader2Model.k_strict) =
    Loader2Rt.XDone (lines_keep LB (write_alphabet a)) ->
  Loader2_gen.py_omen_load_alphabet fo W (Loader2Rt.VStr dir) (Loader2Rt.VStr file) (Loader2Rt.VDict g) =
  Loader2Rt.XDone (Loader2Rt.VDict (Loader2Rt.dput (Loader2Rt.VStr Loader2Model.k_alphabet) (Loader2Model.enc_strs a) g), Loader2Rt.VNone).
Proof. exact (@Loader2RoundTrip.roundtrip_omen_alphabet_translated). Qed.

Theorem C07_roundtrip_omen_ln_translated :
  forall (fo : fops) (C S : Type) (W : Loader2Rt.world fo C S),
  (forall s, Loader2Rt.w_pint W s = parse_int IWS DZ s) ->
  forall (dir file : pstr) (g : list (Loader2Rt.pyval (F fo) C S * Loader2Rt.pyval (F fo) C S)) (n : Z) (l : list Z),
  Loader2Rt.dfind (Loader2Rt.VStr Loader2Model.k_max_level) g = Some (Loader2Rt.VInt 10) ->
  Forall (fun z => (0 <= z <= 10)%Z) l ->
  Loader2Rt.w_open W (Loader2Rt.w_path_join W [dir; file]) None None = Loader2Rt.XDone (lines_text (TextFile.write_ln l)) ->
  Loader2_gen.py_omen_load_length fo W (Loader2Rt.VStr dir) (Loader2Rt.VStr file) (Loader2Rt.VDict g) (Loader2Rt.VStr Loader2Model.k_ln) (Loader2Rt.VInt n) =
  Loader2Rt.XDone (Loader2Rt.VDict (Loader2Rt.dput (Loader2Rt.VStr Loader2Model.k_ln)
                     (Loader2Model.enc_buckets Loader2Model.enc_ints (ln_guesser n l)) g), Loader2Rt.VNone).
Proof. exact (@Loader2RoundTrip.roundtrip_omen_ln_translated). Qed.

(* the whole Omen directory: the translated load_rules, called on an empty dict over the five files the writer
   model produces (config.txt names the encoding and the n-gram size), returns True and exactly the written
   tables: writer model -> reader = identity on the tables *)
Theorem C07_roundtrip_omen_directory_translated :
  forall (fo : fops) (C S : Type) (W : Loader2Rt.world fo C S),
  (forall s, Loader2Rt.w_pint W s = parse_int IWS DZ s) ->
  forall (dir : pstr) (c : C) (enc ntext : pstr) (n : Z) (a : list str) (ip ep cp : list (Z * str)) (lv : list Z),
  let pj := Loader2Rt.w_path_join W in
  Loader2Rt.cp_read (Loader2Rt.w_cfg W) (pj [dir; Loader2Model.n_config_txt]) = Loader2Rt.XDone c ->
  Loader2Rt.cp_get (Loader2Rt.w_cfg W) c Loader2Model.k_training_settings Loader2Model.k_encoding = Loader2Rt.XDone enc ->
  Loader2Rt.cp_get (Loader2Rt.w_cfg W) c Loader2Model.k_training_settings Loader2Model.k_ngram = Loader2Rt.XDone ntext ->
  parse_int IWS DZ ntext = Some n ->
  Forall (fun ch => safe ch = true) a -> Forall level_item_ok ip -> Forall level_item_ok ep -> Forall level_item_ok cp ->
  Forall (fun it => snd it <> []) cp -> Forall (fun z => (0 <= z <= 10)%Z) lv ->
  Loader2Rt.w_codecs_open W (pj [dir; Loader2Model.n_alphabet_txt]) (Some enc) (Some Loader2Model.k_strict) = Loader2Rt.XDone (lines_keep LB (write_alphabet a)) ->
  Loader2Rt.w_codecs_open W (pj [dir; Loader2Model.n_ip_level]) (Some enc) (Some Loader2Model.k_strict) = Loader2Rt.XDone (lines_keep LB (write_levels ip)) ->
  Loader2Rt.w_codecs_open W (pj [dir; Loader2Model.n_ep_level]) (Some enc) (Some Loader2Model.k_strict) = Loader2Rt.XDone (lines_keep LB (write_levels ep)) ->
  Loader2Rt.w_codecs_open W (pj [dir; Loader2Model.n_cp_level]) (Some enc) (Some Loader2Model.k_strict) = Loader2Rt.XDone (lines_keep LB (write_levels cp)) ->
  Loader2Rt.w_open W (pj [dir; Loader2Model.n_ln_level]) None None = Loader2Rt.XDone (lines_text (TextFile.write_ln lv)) ->
  exists d, cp_dict cp = Some d /\
    Loader2_gen.py_omen_load_rules fo W (Loader2Rt.VStr dir) (Loader2Rt.VDict []) =
    Loader2Rt.XDone (Loader2Model.enc_omen_tables
                       {| Loader2Model.ot_encoding := enc; Loader2Model.ot_ngram := n; Loader2Model.ot_alphabet := a;
                          Loader2Model.ot_ip := ip_buckets ip; Loader2Model.ot_ep := ep_dict ep; Loader2Model.ot_cp := d;
                          Loader2Model.ot_ln := ln_guesser n lv |}, Loader2Rt.VBool true).
Proof. exact (@Loader2RoundTrip.roundtrip_omen_directory_translated). Qed.

(* ... and the translated OmenScorer constructor on IP / CP / LN.level of the same directory (builtin open) *)
Theorem C07_roundtrip_omen_scorer_translated :
  forall (fo : fops) (C S : Type) (W : Loader2Rt.world fo C S),
  (forall s, Loader2Rt.w_pint W s = parse_int IWS DZ s) ->
  forall (base enc : pstr) (vmax : Loader2Rt.pyval (F fo) C S) (ip cp : list (Z * str)) (lv : list Z),
  let pj := Loader2Rt.w_path_join W in
  Forall level_item_ok ip -> Forall level_item_ok cp -> Forall (fun z => (0 <= z <= 10)%Z) lv ->
  Loader2Rt.w_open W (pj [base; Loader2Model.n_omen; Loader2Model.n_ip_level]) (Some enc) None = Loader2Rt.XDone (lines_text (write_levels ip)) ->
  Loader2Rt.w_open W (pj [base; Loader2Model.n_omen; Loader2Model.n_cp_level]) (Some enc) None = Loader2Rt.XDone (lines_text (write_levels cp)) ->
  Loader2Rt.w_open W (pj [base; Loader2Model.n_omen; Loader2Model.n_ln_level]) None None = Loader2Rt.XDone (lines_text (TextFile.write_ln lv)) ->
  Loader2_gen.py_omen_scorer_init fo W (Loader2Rt.VObj []) (Loader2Rt.VStr base) (Loader2Rt.VStr enc) vmax =
  Loader2Rt.XDone (Loader2Model.enc_scorer (Loader2Rt.VStr enc) vmax
                     {| Loader2Model.st_ip := ep_dict ip; Loader2Model.st_cp := ep_dict cp; Loader2Model.st_ln := lv;
                        Loader2Model.st_ngram := match cp with it :: _ => Z.of_nat (length (snd it)) | [] => (-1)%Z end |},
                   Loader2Rt.VNone).
Proof. exact (@Loader2RoundTrip.roundtrip_omen_scorer_translated). Qed.

(* the texts of the OMEN writer model (what the translated save_omen_rules_to_disk of C11 puts on disk) are the
   texts of the round trips *)
Theorem C07_source_omen_writer_text_levels : forall ls, OmenTrainer.level_text ls = write_levels (Loader2RoundTrip.zitems ls).
Proof. exact Loader2RoundTrip.level_text_is_write_levels. Qed.
Theorem C07_source_omen_writer_text_alphabet : forall a, OmenTrainer.alphabet_text a = write_alphabet (map (fun c => [c]) a).
Proof. exact Loader2RoundTrip.alphabet_text_is_write_alphabet. Qed.
Theorem C07_source_omen_writer_text_ln : forall ls, OmenTrainer.ln_text ls = TextFile.write_ln (map Z.of_nat ls).
Proof. exact Loader2RoundTrip.ln_text_is_write_ln. Qed.

(* ---- the walk over config.ini, translated (gen/Loader2Grammar_gen.v): which file of which section becomes which
   key of the guesser's grammar / which Counter of the scorer *)
Theorem C07_source_load_from_multiple_files_is_model :
  forall (fo : fops) (C S : Type) (W : Loader2Rt.world fo C S) (s : S) (dir name : pstr) (files : list pstr) (base enc : pstr)
         (g : list (Loader2Rt.pyval (F fo) C S * Loader2Rt.pyval (F fo) C S)),
  Loader2Model.sect_wf fo W s dir name files ->
  Loader2Grammar_gen.py_load_from_multiple_files fo W (Loader2Rt.VDict g) (Loader2Rt.VSect s) (Loader2Rt.VStr base) (Loader2Rt.VStr enc) =
  Loader2Model.multi_files fo W base dir name enc files g.
Proof. exact (@Loader2GrammarGenProofs.load_from_multiple_files_eq). Qed.

Theorem C07_source_scorer_load_from_multiple_files_is_model :
  forall (fo : fops) (C S : Type) (W : Loader2Rt.world fo C S) (s : S) (dir name : pstr) (files : list pstr) (base enc : pstr)
         (gc : list (Loader2Rt.pyval (F fo) C S * Loader2Rt.pyval (F fo) C S)),
  Loader2Model.sect_wf fo W s dir name files ->
  Loader2Grammar_gen.py_scorer_load_from_multiple_files fo W (Loader2Rt.VDict gc) (Loader2Rt.VSect s) (Loader2Rt.VStr base) (Loader2Rt.VStr enc) =
  Loader2Model.smulti_files fo W base dir enc files gc.
Proof. exact (@Loader2GrammarGenProofs.scorer_load_from_multiple_files_eq). Qed.

(* _load_config of the guesser: version check on the major versions as strings, encoding, uuid; IOError and
   configparser.Error give False *)
Theorem C07_source_load_config_is_model :
  forall (fo : fops) (C S : Type) (W : Loader2Rt.world fo C S)
         (ri : list (Loader2Rt.pyval (F fo) C S * Loader2Rt.pyval (F fo) C S)) (base ver : pstr),
  Loader2Rt.dfind (Loader2Rt.VStr Loader2Model.k_version) ri = Some (Loader2Rt.VStr ver) ->
  Loader2Grammar_gen.py_load_config fo W (Loader2Rt.VDict ri) (Loader2Rt.VStr base) Loader2Rt.VCfgNew =
  Loader2Model.load_config_model fo W ri base ver.
Proof. exact (@Loader2GrammarGenProofs.load_config_eq). Qed.

(* load_grammar of the guesser: config, terminals, base structures in this order, `raise Exception` on the first
   False, the result is (grammar, base_structures, ruleset_info) *)
Theorem C07_source_load_grammar_is_model :
  forall (fo : fops) (C S : Type) (W : Loader2Rt.world fo C S) (rn base ver sb sc folder : Loader2Rt.pyval (F fo) C S),
  Loader2Grammar_gen.py_load_grammar fo W rn base ver sb sc folder =
  Loader2Model.load_grammar_seq fo W (Loader2Grammar_gen.py_load_config fo W) (Loader2Grammar_gen.py_load_terminals fo W)
    rn base ver sb sc folder.
Proof. exact (@Loader2GrammarGenProofs.load_grammar_eq). Qed.

(* load_grammar of the scorer on the object PCFGPasswordScorer.__init__ creates: encoding, then Years/1.txt,
   Context/1.txt, Grammar/grammar.txt (always ASCII), then the sections BASE_K, BASE_A, CAPITALIZATION, BASE_D,
   BASE_O into the matching count_* attribute *)
Theorem C07_source_scorer_load_grammar_is_model :
  forall (fo : fops) (C S : Type) (W : Loader2Rt.world fo C S) (v : Loader2Model.sviews) (base : pstr),
  (forall c, Loader2Rt.cp_read_file (Loader2Rt.w_cfg W) (Loader2Rt.w_path_join W [base; Loader2Model.n_config_ini]) = Loader2Rt.XDone c ->
             Loader2GrammarGenProofs.sviews_ok fo W c v) ->
  Loader2Grammar_gen.py_scorer_load_grammar fo W (Loader2Rt.VObj (Loader2GrammarGenProofs.scorer_obj0 fo)) (Loader2Rt.VStr base) =
  Loader2Model.scorer_grammar_model fo W v (Loader2GrammarGenProofs.scorer_obj0 fo) base.
Proof. exact (@Loader2GrammarGenProofs.scorer_load_grammar_eq). Qed.

Print Assumptions C07_roundtrip_omen_directory_translated.
Print Assumptions C07_roundtrip_omen_scorer_translated.
Print Assumptions C07_roundtrip_omen_cp_translated.
Print Assumptions C07_roundtrip_omen_ln_translated.
Print Assumptions C07_source_load_from_multiple_files_is_model.
Print Assumptions C07_source_scorer_load_grammar_is_model.
Print Assumptions C07_source_load_grammar_is_model.
