(* C17 - PRINCE-LING: most probable first, each once, at most --size words. *)
From Coq Require Import List Arith Sorting.Permutation.
From Pcfg Require Import ProbAlg Next NextSpec NextProofs Session SessionProofs.
From Pcfg Require Import KernelRt KernelGenProofs.
From PcfgGen Require Import Consts_gen Kernel_gen.
Import ListNotations.

(* side condition on the source: the remaining size is handed to create_guesses *)
Theorem C17_source_passes_remaining_size : prince_passes_remaining_size = true.
Proof. reflexivity. Qed.

Theorem C17_size_exact : forall pts n, prince true pts 0 (Some n) = firstn n (concat pts).
Proof. exact C17_size_exact. Qed.
Theorem C17_unbounded : forall b pts, prince b pts 0 None = concat pts.
Proof. exact C17_size_none. Qed.

(* the wordlist loop as it was found only compares between groups *)
Theorem C17_refuted_overshoot :
  prince false [[1;2;3];[4;5;6]] 0 (Some 4) = [1;2;3;4;5;6] /\
  length (prince false [[1;2;3];[4;5;6]] 0 (Some 4)) = 6 /\ 6 > 4 /\
  prince true [[1;2;3];[4;5;6]] 0 (Some 4) = [1;2;3;4].
Proof. exact C17_refuted_overshoot. Qed.

(* order and once-only: PRINCE-LING runs the same `next` over the Prince base
   list, so C01 / C02 apply to it verbatim *)
Theorem C17_sorted_once :
  forall (A : palg) (rs : ruleset A), wf rs -> forall pop, pop_ok_okb pop ->
    (forall n, nonincreasing (rev (emitted (run pop rs n (start rs))))) /\
    Permutation (emitted (run pop rs (total rs) (start rs))) (all_preterminals rs).
Proof.
  exact (fun A rs H pop Hp => conj (fun n => proj1 (C01_sorted_okb rs H pop n Hp))
                                   (proj1 (C02_exactly_once_okb rs H pop Hp))).
Qed.

(* the `next` kernel PRINCE-LING runs is the translated source of find_children /
   _are_you_my_child (regenerated on every run), equal to the model above *)
Theorem C17_source_find_children_is_model :
  forall (A : palg) (up : P A) (un : var * nat) (rs : ruleset A) (it : item A),
  inrange rs (ipt it) -> py_find_children up un rs it = find_children rs it.
Proof. exact (fun A up un rs it => kernel_find_children_eq up un rs it). Qed.

Print Assumptions C17_size_exact.
Print Assumptions C17_sorted_once.
