(* C17 - PRINCE-LING: most probable first, each once, at most --size words. *)
From Coq Require Import List Arith Sorting.Permutation.
From Pcfg Require Import ProbAlg Next NextSpec NextProofs Session SessionProofs.
From Pcfg Require Import KernelRt KernelGenProofs.
From PcfgGen Require Import Consts_gen Kernel_gen.
From Coq Require Import ZArith NArith.
From Pcfg Require Import Expand ExpandProofs ExpandRt ExpandGenProofs.
From PcfgGen Require Import Expand_gen.
From Pcfg Require Import SessionRt SessionPrinceGenProofs.
From PcfgGen Require Import SessionPrince_gen.
Import ListNotations.

(* side condition on the source: the remaining size is handed to create_guesses *)
Theorem C17_source_passes_remaining_size : prince_passes_remaining_size = true.
Proof. reflexivity. Qed.

Theorem C17_size_exact : forall pts n, prince true pts 0 (Some n) = firstn n (concat pts).
Proof. exact C17_size_exact. Qed.
Theorem C17_unbounded : forall b pts, prince b pts 0 None = concat pts.
Proof. exact C17_size_none. Qed.

(* the wordlist loop as it was found only compares between groups *)
Theorem C17_refuted_overshoot :
  prince false [[1;2;3];[4;5;6]] 0 (Some 4) = [1;2;3;4;5;6] /\
  length (prince false [[1;2;3];[4;5;6]] 0 (Some 4)) = 6 /\ 6 > 4 /\
  prince true [[1;2;3];[4;5;6]] 0 (Some 4) = [1;2;3;4].
Proof. exact C17_refuted_overshoot. Qed.

(* order and once-only: PRINCE-LING runs the same `next` over the Prince base
   list, so C01 / C02 apply to it verbatim *)
Theorem C17_sorted_once :
  forall (A : palg) (rs : ruleset A), wf rs -> forall pop, pop_ok_okb pop ->
    (forall n, nonincreasing (rev (emitted (run pop rs n (start rs))))) /\
    Permutation (emitted (run pop rs (total rs) (start rs))) (all_preterminals rs).
Proof.
  exact (fun A rs H pop Hp => conj (fun n => proj1 (C01_sorted_okb rs H pop n Hp))
                                   (proj1 (C02_exactly_once_okb rs H pop Hp))).
Qed.

(* the `next` kernel PRINCE-LING runs is the translated source of find_children /
   _are_you_my_child (regenerated on every run), equal to the model above *)
Theorem C17_source_find_children_is_model :
  forall (A : palg) (up : P A) (un : var * nat) (rs : ruleset A) (it : item A),
  inrange rs (ipt it) -> py_find_children up un rs it = find_children rs it.
Proof. exact (fun A up un rs it => kernel_find_children_eq up un rs it). Qed.

(* ---- the expansion PRINCE-LING runs (pcfg.create_guesses(pt, limit = remaining)) is the
   translated source of create_guesses / _recursive_guesses (gen/Expand_gen.v, regenerated on
   every run by harness/translate_expand.py), equal to the model Expand.v *)
Theorem C17_source_recursive_guesses_is_model :
  forall (upper_c : N -> pstr) (gv : pstr -> Z -> option (list pstr)) (py_int : pstr -> Z) (mcr : Z -> list pstr)
         (pt : list pnode) (slots : list slot),
  resolve gv pt = Some slots ->
  forall (fuel : nat) (cur : str) (l : lim), length pt < fuel ->
  py_recursive_guesses upper_c gv py_int mcr false fuel cur pt (zlim l) =
  lift (expand upper_c (omen_of py_int mcr) slots cur l).
Proof. exact recursive_guesses_eq. Qed.

(* what [prince true] assumes of each group (firstn (n - generated) gs): the translated
   create_guesses with limit = remaining >= 1 writes exactly the first `remaining` words
   of the pre-terminal and reports their number *)
Theorem C17_source_size_inside_preterminal :
  forall (upper_c : N -> pstr) (gv : pstr -> Z -> option (list pstr)) (py_int : pstr -> Z) (mcr : Z -> list pstr)
         (honey : pstr -> list pnode -> option Z -> res (list pstr * Z))
         (segs : list seg) (pt : list pnode) (fuel remaining : nat),
  segs <> [] -> Forall seg_ok' segs -> remaining >= 1 ->
  resolve gv pt = Some (flat_map slots_of segs) -> length pt < fuel ->
  py_create_guesses upper_c gv py_int mcr false honey fuel pt false (Some (Z.of_nat remaining)) =
  Ok (firstn remaining (denote upper_c segs), Z.of_nat (Nat.min remaining (length (denote upper_c segs)))).
Proof. exact source_create_guesses_limit. Qed.

Theorem C17_source_example :
  resolve gv_ex pt_ex = Some (flat_map slots_of segs_ex) /\
  (segs_ex <> [] /\ Forall seg_ok' segs_ex /\ length pt_ex < 5) /\
  py_create_guesses up_ascii gv_ex int_ex mcr_ex false honey_ex 5 pt_ex false (Some 5%Z) =
    Ok (firstn 5 (denote up_ascii segs_ex), 5%Z).
Proof. exact (conj source_example_resolves (conj source_example_wellformed source_example_limit)). Qed.


(* ---- translator tie of the wordlist loop itself: gen/SessionPrince_gen.v is the translation of
   the Python text of lib_princeling/wordlist_generation.py create_prince_wordlist
   (harness/translate_session.py, redone on every run).  In EVERY world in which the queue
   hands out the pre-terminals [pending] one by one and create_guesses meets the contract
   proved of it above (the first `limit` guesses of the pre-terminal's expansion, all of them
   for None / 0, and their number), for every --size (None or n) and fuel above the number
   of pre-terminals, the translated function writes exactly what the model [prince true]
   writes - the loop test `num_generated_guesses < max_size`, the remaining size
   `max_size - num_generated_guesses` handed to create_guesses and the returned count added
   are the source's *)
Theorem C17_source_create_prince_wordlist_is_model :
  forall (W Item Pt : Type) (new_queue : W -> W) (queue_next : W -> option Item * W) (item_pt : Item -> Pt)
         (create_guesses : Pt -> bool -> option Z -> W -> sres Z * list nat * W)
         (pending : W -> list Item) (expansion : Pt -> list nat),
  queue_contract queue_next pending -> create_guesses_contract create_guesses pending expansion ->
  forall (size : option nat) (fuel : nat) (w : W), length (pending (new_queue w)) < fuel ->
  exists w', py_create_prince_wordlist new_queue queue_next item_pt create_guesses fuel (zsize size) w =
             (SOk tt, prince true (groups item_pt pending expansion (new_queue w)) 0 size, w').
Proof. exact (@prince_eq). Qed.

(* C17_size_exact transported to the source: at most --size words, exactly the first n of
   the stream the queue order and the expansions define *)
Theorem C17_source_size_exact :
  forall (W Item Pt : Type) (new_queue : W -> W) (queue_next : W -> option Item * W) (item_pt : Item -> Pt)
         (create_guesses : Pt -> bool -> option Z -> W -> sres Z * list nat * W)
         (pending : W -> list Item) (expansion : Pt -> list nat),
  queue_contract queue_next pending -> create_guesses_contract create_guesses pending expansion ->
  forall (n fuel : nat) (w : W), length (pending (new_queue w)) < fuel ->
  snd (fst (py_create_prince_wordlist new_queue queue_next item_pt create_guesses fuel (Some (Z.of_nat n)) w))
  = firstn n (concat (groups item_pt pending expansion (new_queue w))).
Proof. exact (@source_size_exact). Qed.

(* the hypotheses are satisfiable (the world of Session.v: the queue is a list of groups) and
   the translated function computes *)
Theorem C17_source_prince_example :
  queue_contract lw_next (fun w => w) /\ create_guesses_contract lw_create (fun w => w) (fun gs => gs) /\
  py_create_prince_wordlist (fun w => w) lw_next (fun gs => gs) lw_create 4 (Some 4%Z) [[1;2;3];[4;5;6];[7]]
  = (SOk tt, [1;2;3;4], [[7]]).
Proof. exact (conj list_world_queue (conj list_world_create (proj1 list_world_example))). Qed.

Print Assumptions C17_size_exact.
Print Assumptions C17_sorted_once.
Print Assumptions C17_source_recursive_guesses_is_model.
Print Assumptions C17_source_size_inside_preterminal.
Print Assumptions C17_source_create_prince_wordlist_is_model.
Print Assumptions C17_source_size_exact.
