(* C15: an interrupted Markov level resumes at the very next guess. *)
From Coq Require Import List Bool NArith ZArith Sorting.Permutation.
From Pcfg Require Import OmenSpec Omen OmenCorr OmenProofs OmenProofs2 OmenProofs3 OmenProofs4 OmenProofs5.
From Coq Require Import Floats.
From Pcfg Require Import ProbAlg F64 Next NextSpec NextProofs Expand MarkovSession MarkovSessionProofs MarkovSessionFacts.
From PcfgGen Require Import Consts_gen.
From Pcfg Require Session SessionRt SessionModel SessionModelProofs SessionGenProofs.
From PcfgGen Require Session_gen.
Import ListNotations.

Theorem C15_source_first_object_range : omen_first_object_extra <= 1.
Proof. unfold omen_first_object_extra. repeat constructor. Qed.

(* save_session / load_session (pickle = identity, trusted) *)
Theorem C15_state_roundtrip : forall st : mc_state, mc_started st = true -> mc_load (mc_save st) = st.
Proof. exact state_roundtrip. Qed.

(* the state after the (j+1)-th guess of a level (whatever the session's cache
   held), saved and loaded into a new cracker and run with ANY sound cache -- in
   particular the empty one of the new process -- emits exactly the remaining
   strings of the level, none repeated, none skipped, and then None *)
Theorem C15_continuation : forall G T c c2 j starts l o st c1,
  cache_ok (cp_fast G) (og_max_level G) c -> cache_ok (cp_fast G) (og_max_level G) c2 ->
  mc_starts (ip_at G) (ln_at G) (og_max_level G) omen_first_object_extra = Some starts ->
  j < length (level_strings G T) ->
  m_enumerate G (cp_fast G) (S j) c T = Some (l, o, st, c1) ->
  l = firstn (S j) (level_strings G T) /\
  mc_load (mc_save st) = st /\
  exists st' c',
    mc_run (ip_at G) (cp_fast G) (ln_at G) (og_max_level G) omen_optimizer_max_length
           (S (length (skipn (S j) (level_strings G T)))) (mc_fuel (ip_at G) (ln_at G) (og_max_level G))
           starts c2 (mc_load (mc_save st)) =
    (skipn (S j) (level_strings G T), Done, st', c').
Proof.
  exact (fun G => continuation G omen_optimizer_max_length omen_first_object_extra C15_source_first_object_range).
Qed.

Theorem C15_empty_cache_is_sound : forall cpf maxl, cache_ok cpf maxl cempty.
Proof. exact cache_ok_empty. Qed.

(* no-replay requirement: once the restored level has run to its end (including
   a quit flag raised during its exhausting next_guess call, omen_exit false),
   a later save followed by a resume must not restore it again.  It holds iff
   the code removes guessing_info/omen_guess_number unless omen_exit is set. *)
Theorem C15_no_replay : omen_number_cleared = true -> forall cfg n s oe,
  fst (sess_restore omen_number_cleared
         (sess_quit (snd (sess_restore omen_number_cleared cfg false)) false n s) oe) = None.
Proof. intros ->. exact no_replay_when_cleared. Qed.

Theorem C15_requit_inside_restores_new : omen_number_cleared = true -> forall n1 s1 n s oe,
  fst (sess_restore omen_number_cleared
         (sess_quit (snd (sess_restore omen_number_cleared (sess_quit sess_empty true n1 s1) true)) true n s) oe) = Some s.
Proof. intros ->. exact requit_inside_restores_new. Qed.

(* R7: as first coded the option was never removed and the stale .omn was restored again *)
Theorem C15_refuted_stale : omen_number_cleared = false -> forall n1 s1 n2 s2 oe oe',
  fst (sess_restore omen_number_cleared
         (sess_quit (snd (sess_restore omen_number_cleared (sess_quit sess_empty true n1 s1) oe)) false n2 s2) oe') = Some s1.
Proof. intros ->. exact stale_replay_when_not_cleared. Qed.

(* R18: a quit seen inside the last pre-terminal of the run is never saved *)
Theorem C15_refuted_last_preterminal : loop_saves false true = false.
Proof. exact last_preterminal_not_saved. Qed.

(* the hypotheses of C15_continuation are satisfiable on a non-trivial instance
   (level 2 of Gex, cut after its 2nd guess, 3 strings remain) *)
Theorem C15_example_hypotheses :
  mc_starts (ip_at (Gex 10)) (ln_at (Gex 10)) 10 0 = Some (0, 0) /\
  1 < length (level_strings (Gex 10) 2%Z).
Proof. exact (conj (proj1 Gex_continuation) (proj1 (proj2 Gex_continuation))). Qed.

(* ================================================================== *)
(* "... and then continues with the rest of the run" and the tied-level
   corner, over the combined session model MarkovSession.v (a Markov
   pre-terminal inside Next.v's priority-queue run; what _save_session writes
   and the order in which run(load_session=True) restores it are transcribed
   in that file's header).

   Common situation of the two theorems: the uninterrupted run (any queue
   meeting the heap contract) pops U1, then the Markov pre-terminal x of level
   T, then y, then U2.  The quit is seen after guess j+1 of the level.  The
   code pops y BEFORE it checks the quit flag, so the saved max_probability is
   y's, and y has not been guessed.  pop' is the queue of the new process,
   c / c2 the Optimizer memo tables of the two processes (any sound ones). *)

Theorem C15_source_parent_test_is_le : parent_around_strict = false.
Proof. reflexivity. Qed.

(* control-flow facts re-extracted from the source on every run
   (harness/consts/p2_markov_session.py); the first two are parameters of the
   model, the theorems below are stated WITH the extracted values and proved for
   the values the code has: *)
(* the session loop pops first and tests the quit flag afterwards *)
Theorem C15_source_quit_check_after_pop : session_quit_check_after_pop = true.
Proof. reflexivity. Qed.
(* run(load_session=True) calls restore_omen before the loop *)
Theorem C15_source_omen_restored_before_loop : session_omen_restored_before_loop = true.
Proof. reflexivity. Qed.
(* PcfgQueue.next stores the popped item's probability in max_probability *)
Theorem C15_source_next_records_popped_probability : queue_next_records_popped_probability = true.
Proof. reflexivity. Qed.

(* C15_then_rest: the interrupted session printed everything before the level
   and the first j+1 strings of the level and saved y's probability; the
   resumed session prints exactly the remaining strings of the level and then
   the guesses of the pre-terminals B, where B is, up to the order inside groups
   of equal probability, every pre-terminal the uninterrupted run emits after
   the level (y :: U2) plus exactly those emitted up to the level whose
   probability EQUALS the saved one; each once, in non-increasing order, and
   the resumed queue is then empty. *)
Theorem C15_then_rest :
  forall (A : palg) (upper_c : N -> str) (g : sgram A)
         (pop pop' : queue A -> option (item A * queue A))
         (U1 : list (item A)) (x y : item A) (U2 : list (item A)) (T : Z) (j : nat)
         (c c2 : cache) (starts : nat * nat) (cleared : bool) (calls n : nat),
  wf (sg_rs g) -> pop_ok_okb pop -> pop_ok_okb pop' ->
  pops pop g (total (sg_rs g)) = U1 ++ x :: y :: U2 ->
  markov_level g (ipt x) = Some T ->
  j < length (level_strings (sg_omen g) T) ->
  cache_ok (cp_fast (sg_omen g)) (og_max_level (sg_omen g)) c ->
  cache_ok (cp_fast (sg_omen g)) (og_max_level (sg_omen g)) c2 ->
  mc_starts (ip_at (sg_omen g)) (ln_at (sg_omen g)) (og_max_level (sg_omen g)) omen_first_object_extra = Some starts ->
  length (skipn (S j) (level_strings (sg_omen g) T)) < calls ->
  length (filter (below (iprob y)) (all_preterminals (sg_rs g))) <= n ->
  exists f r,
    interrupted upper_c omen_optimizer_max_length omen_first_object_extra session_quit_check_after_pop pop g (length U1) (S j) c =
      Saved (stream upper_c g U1 ++ firstn (S j) (level_strings (sg_omen g) T)) f /\
    sf_max_prob f = iprob y /\
    resumed_session omen_optimizer_max_length omen_first_object_extra parent_around_strict cleared
                    pop' g f calls c2 n = Some r /\
    resumed_out upper_c session_omen_restored_before_loop g r =
      skipn (S j) (level_strings (sg_omen g) T) ++ stream upper_c g (resumed_pops r) /\
    Permutation (resumed_pops r)
                (filter (fun z => peq (iprob z) (iprob y)) (U1 ++ [x]) ++ y :: U2) /\
    nonincreasing (resumed_pops r) /\ NoDup (resumed_pops r) /\
    pending (rr_queue r) = [].
Proof.
  exact (fun A up g pop pop' U1 x y U2 T j c c2 starts cleared calls n Hwf Hp Hp' HU HT Hj Hc Hc2 Hs =>
           then_rest up omen_optimizer_max_length omen_first_object_extra C15_source_first_object_range
                     g Hwf pop pop' Hp Hp' U1 x y U2 HU T HT j Hj c c2 Hc Hc2 starts Hs cleared calls n).
Qed.

(* C15_tied_level_repeats: what the code does with the interrupted level's OWN
   pre-terminal x.  The restore walk treats the 'M' base structure like any
   other, and the saved probability is y's: x is popped again by the resumed
   run iff its probability equals y's (it is then in the tied group of C08).
   In that case it is popped exactly once and its level is printed once more IN
   FULL after the remainder; otherwise never.  And that is the only repetition
   of its strings: a string that no other pre-terminal of the grammar produces
   occurs in (interrupted output ++ resumed output) exactly as often as in the
   level, twice that when tied. *)
Theorem C15_tied_level_repeats :
  forall (A : palg) (upper_c : N -> str) (g : sgram A)
         (pop pop' : queue A -> option (item A * queue A))
         (U1 : list (item A)) (x y : item A) (U2 : list (item A)) (T : Z) (j : nat)
         (c c2 : cache) (starts : nat * nat) (cleared : bool) (calls n : nat),
  wf (sg_rs g) -> pop_ok_okb pop -> pop_ok_okb pop' ->
  pops pop g (total (sg_rs g)) = U1 ++ x :: y :: U2 ->
  markov_level g (ipt x) = Some T ->
  j < length (level_strings (sg_omen g) T) ->
  cache_ok (cp_fast (sg_omen g)) (og_max_level (sg_omen g)) c ->
  cache_ok (cp_fast (sg_omen g)) (og_max_level (sg_omen g)) c2 ->
  mc_starts (ip_at (sg_omen g)) (ln_at (sg_omen g)) (og_max_level (sg_omen g)) omen_first_object_extra = Some starts ->
  length (skipn (S j) (level_strings (sg_omen g) T)) < calls ->
  length (filter (below (iprob y)) (all_preterminals (sg_rs g))) <= n ->
  let L := level_strings (sg_omen g) T in
  exists f r,
    interrupted upper_c omen_optimizer_max_length omen_first_object_extra session_quit_check_after_pop pop g (length U1) (S j) c =
      Saved (stream upper_c g U1 ++ firstn (S j) L) f /\
    resumed_session omen_optimizer_max_length omen_first_object_extra parent_around_strict cleared
                    pop' g f calls c2 n = Some r /\
    (In x (resumed_pops r) <-> peq (iprob x) (iprob y) = true) /\
    (peq (iprob x) (iprob y) = true ->
       exists B1 B2, resumed_pops r = B1 ++ x :: B2 /\ ~ In x B1 /\ ~ In x B2 /\
         resumed_out upper_c session_omen_restored_before_loop g r =
           skipn (S j) L ++ stream upper_c g B1 ++ L ++ stream upper_c g B2) /\
    (peq (iprob x) (iprob y) = false -> ~ In x (resumed_pops r)) /\
    (forall s, (forall z, In z (all_preterminals (sg_rs g)) -> z <> x -> ~ In s (pt_out upper_c g (ipt z))) ->
       count_occ str_eq_dec ((stream upper_c g U1 ++ firstn (S j) L) ++
                             resumed_out upper_c session_omen_restored_before_loop g r) s =
       count_occ str_eq_dec L s + (if peq (iprob x) (iprob y) then count_occ str_eq_dec L s else 0)).
Proof.
  exact (fun A up g pop pop' U1 x y U2 T j c c2 starts cleared calls n Hwf Hp Hp' HU HT Hj Hc Hc2 Hs =>
           tied_level_repeats up omen_optimizer_max_length omen_first_object_extra C15_source_first_object_range
                     g Hwf pop pop' Hp Hp' U1 x y U2 HU T HT j Hj c c2 Hc Hc2 starts Hs cleared calls n).
Qed.

(* R18 inside the combined model: when the interrupted level is the last
   pre-terminal of the run, the pop that follows returns None and nothing is
   saved (the clause above needs a following pre-terminal y) *)
Theorem C15_last_level_not_saved :
  forall (A : palg) (upper_c : N -> str) (g : sgram A) pop (U1 : list (item A)) (x : item A) T j c starts,
  wf (sg_rs g) -> pop_ok_okb pop ->
  pops pop g (total (sg_rs g)) = U1 ++ [x] ->
  markov_level g (ipt x) = Some T ->
  j < length (level_strings (sg_omen g) T) ->
  cache_ok (cp_fast (sg_omen g)) (og_max_level (sg_omen g)) c ->
  mc_starts (ip_at (sg_omen g)) (ln_at (sg_omen g)) (og_max_level (sg_omen g)) omen_first_object_extra = Some starts ->
  interrupted upper_c omen_optimizer_max_length omen_first_object_extra session_quit_check_after_pop pop g (length U1) (S j) c =
    NotSaved (stream upper_c g U1 ++ firstn (S j) (level_strings (sg_omen g) T)).
Proof.
  exact (fun A up => last_level_not_saved up omen_optimizer_max_length omen_first_object_extra C15_source_first_object_range).
Qed.

(* Why the pop comes first (the mechanism named in the property: "the following
   pop supplies the saved max probability so the interrupted level is not
   regenerated"): with the quit flag tested at the TOP of the loop
   (check_after_pop = false) the saved probability is the level's own, and the
   resumed session ALWAYS pops the level's pre-terminal again and prints the
   whole level once more after its remainder, tied with anything or not. *)
Theorem C15_refuted_check_before_pop :
  forall (A : palg) (upper_c : N -> str) (g : sgram A)
         (pop pop' : queue A -> option (item A * queue A))
         (U1 : list (item A)) (x y : item A) (U2 : list (item A)) (T : Z) (j : nat)
         (c c2 : cache) (starts : nat * nat) (cleared : bool) (calls n : nat),
  wf (sg_rs g) -> pop_ok_okb pop -> pop_ok_okb pop' ->
  pops pop g (total (sg_rs g)) = U1 ++ x :: y :: U2 ->
  markov_level g (ipt x) = Some T ->
  j < length (level_strings (sg_omen g) T) ->
  cache_ok (cp_fast (sg_omen g)) (og_max_level (sg_omen g)) c ->
  cache_ok (cp_fast (sg_omen g)) (og_max_level (sg_omen g)) c2 ->
  mc_starts (ip_at (sg_omen g)) (ln_at (sg_omen g)) (og_max_level (sg_omen g)) omen_first_object_extra = Some starts ->
  length (skipn (S j) (level_strings (sg_omen g) T)) < calls ->
  length (filter (below (iprob x)) (all_preterminals (sg_rs g))) <= n ->
  let L := level_strings (sg_omen g) T in
  exists f r,
    interrupted upper_c omen_optimizer_max_length omen_first_object_extra false pop g (length U1) (S j) c =
      Saved (stream upper_c g U1 ++ firstn (S j) L) f /\
    sf_max_prob f = iprob x /\
    resumed_session omen_optimizer_max_length omen_first_object_extra parent_around_strict cleared
                    pop' g f calls c2 n = Some r /\
    exists B1 B2, resumed_pops r = B1 ++ x :: B2 /\
      resumed_out upper_c true g r = skipn (S j) L ++ stream upper_c g B1 ++ L ++ stream upper_c g B2.
Proof.
  exact (fun A up g pop pop' U1 x y U2 T j c c2 starts cleared calls n Hwf Hp Hp' HU HT Hj Hc Hc2 Hs =>
           check_before_pop_regenerates up omen_optimizer_max_length omen_first_object_extra C15_source_first_object_range
                     g Hwf pop pop' Hp Hp' U1 x y U2 HU T HT j Hj c c2 Hc Hc2 starts Hs cleared calls n).
Qed.

(* ... and concretely, on the NOT tied instance: the level's pre-terminal (0,0)
   comes first in the resumed run and its 5 strings are printed again *)
Theorem C15_refuted_check_before_pop_witness :
  ex_sessions false 0x1p-1%float omen_first_object_extra =
  Some ([[49%N]; [50%N]] ++ firstn 2 ex_L,
        skipn 2 ex_L ++ ex_L ++ skipn (2 + length ex_L) (session_out ex_up pop_first_max (ex_g 0x1p-1%float)),
        [[(0, 0)]; [(1, 1)]; [(0, 1)]; [(2, 0)]]).
Proof. exact (ex_check_before_pop_regenerates omen_first_object_extra C15_source_first_object_range). Qed.

(* "later quit/resume cycles do not replay that remainder again", inside the
   combined model: the resumed session above ran the restored level to its end
   (omen_exit false), so it carries on the save config
   snd (sess_restore cleared cfg false); whatever probability m' a later quit
   saves with it, the next run(load_session=True) restores no OMEN level.  Needs
   the R7 repair (omen_number_cleared = true), like C15_no_replay. *)
Theorem C15_later_resume_no_replay : omen_number_cleared = true ->
  forall (A : palg) strict pop (g : sgram A) (f : session_file A) (m' : P A) calls c n r,
  resumed_session omen_optimizer_max_length omen_first_object_extra strict omen_number_cleared pop g
                  (mk_sfile m' (snd (sess_restore omen_number_cleared (sf_omen f) false))) calls c n = Some r ->
  rr_rest r = [].
Proof.
  intros ->. exact (fun A strict => later_resume_no_replay omen_optimizer_max_length omen_first_object_extra strict true).
Qed.

(* the queue the correspondence runs the model with (it follows the order in
   which the implementation popped) meets the heap contract for every order,
   so the theorems above apply to every run the correspondence makes *)
Theorem C15_follow_pop_ok :
  forall (A : palg) (K : Type) (matches : item A -> K -> bool) (order : list K),
  pop_ok_okb (pop_follow matches order).
Proof. exact (fun A K => @pop_follow_ok A K). Qed.

(* the hypotheses of C15_then_rest / C15_tied_level_repeats hold on concrete
   binary64 instances (MarkovSessionFacts.ex_g: base structures M, D, E over the
   OMEN model Gex; cut after the 2nd of the 5 strings of level 2, with
   pre-terminals before and after the level), once WITHOUT and once WITH a tie
   between the level and the pre-terminal popped after it *)
Theorem C15_session_hypotheses_satisfiable :
  ex_hypotheses 0x1p-1%float false /\ ex_hypotheses 1%float true.
Proof. exact (conj ex_not_tied ex_tied). Qed.

(* and the tied corner is real: the kernel runs both sessions of the model on
   the tied instance; after the 3 remaining strings the level's pre-terminal
   (0,0) is popped again and all 5 strings of the level are printed once more *)
Theorem C15_tied_level_witness :
  ex_sessions session_quit_check_after_pop 1%float omen_first_object_extra =
  Some ([[49%N]; [50%N]] ++ firstn 2 ex_L,
        skipn 2 ex_L ++ ex_L ++ skipn (2 + length ex_L) (session_out ex_up pop_first_max (ex_g 1%float)),
        [[(0, 0)]; [(2, 0)]; [(1, 1)]; [(0, 1)]]).
Proof. exact (ex_tied_level_regenerated omen_first_object_extra C15_source_first_object_range). Qed.

Theorem C15_not_tied_witness :
  ex_sessions session_quit_check_after_pop 0x1p-1%float omen_first_object_extra =
  Some ([[49%N]; [50%N]] ++ firstn 2 ex_L,
        skipn 2 ex_L ++ skipn (2 + length ex_L) (session_out ex_up pop_first_max (ex_g 0x1p-1%float)),
        [[(1, 1)]; [(0, 1)]; [(2, 0)]]).
Proof. exact (ex_not_tied_sessions omen_first_object_extra C15_source_first_object_range). Qed.

(* What is now proved / what remains.
   PROVED over one model (MarkovSession.v = Next.v run + Expand.v expansion +
   Omen.v generator and save/load + the session file): C15_then_rest,
   C15_tied_level_repeats (both for every ruleset, level, cut j, any two queues
   meeting the heap contract, any sound memo tables), C15_last_level_not_saved
   (R18), C15_later_resume_no_replay; the correspondence shards "session:" run
   exactly these definitions against the real CrackingSession on every recorded
   cut.
   REMAINS outside the theorems: (1) a SECOND quit seen inside the restored
   remainder is composed only at the level of the session file
   (C15_requit_inside_restores_new) and of the generator (C15_continuation holds
   for the state after any number of guesses), not as one multi-cycle theorem
   over the combined model; (2) --limit together with --load (restore_omen
   ignores the limit) is not modelled; (3) that a non-Markov pre-terminal's
   output equals the product of its groups is C04's theorem about the same
   Expand.expand, not restated here; (4) configparser / pickle round trips and
   the heap's choice inside a group of equal probability are trusted / quantified
   over (every pop meeting pop_ok_okb). *)


(* ---- translator tie of the session-level bookkeeping: gen/Session_gen.v is the translation of
   the Python text of CrackingSession._save_session and CrackingSession.run
   (harness/translate_session.py, redone on every run).  The statements are made in the world
   of Session.v (SessionModel.sworld: sw_cfg_omen = guessing_info/omen_guess_number of the
   save configuration, sw_om = the .omn file as (level, guess number), read as a generator
   state by an arbitrary [st]; sw_saves = the log of save-file writes) ---- *)

(* for every world and every choice of the collaborators the translated _save_session is the
   model SessionModel.m_save: queue position and - iff omen_exit - the OMEN guess number go
   into the configuration, which is then written; an OSError of the write gives False *)
Theorem C15_source_save_session_is_model :
  forall (W G : Type) (queue_update_save_config : W -> W) (get_omen_exit : W -> bool) (get_omen_guess_num : W -> Z)
         (cfg_set_omen_number : Z -> W -> W) (write_save_file : W -> SessionRt.sres unit * W) (w : W),
  Session_gen.py_save_session (G := G) queue_update_save_config get_omen_exit get_omen_guess_num cfg_set_omen_number
                              write_save_file w =
  (fst (SessionModel.m_save queue_update_save_config get_omen_exit get_omen_guess_num cfg_set_omen_number write_save_file w),
   [],
   snd (SessionModel.m_save queue_update_save_config get_omen_exit get_omen_guess_num cfg_set_omen_number write_save_file w)).
Proof. exact (@SessionGenProofs.save_session_eq). Qed.

(* the translated _save_session is sess_quit *)
Theorem C15_source_save_is_sess_quit :
  forall (st : nat * nat -> saved) (w : SessionModel.sworld) (state : saved),
  (SessionModel.sw_omen_exit w = true -> option_map st (SessionModel.sw_om w) = Some state) ->
  fst (fst (SessionGenProofs.src_save w)) = SessionRt.SOk true /\
  snd (fst (SessionGenProofs.src_save w)) = [] /\
  SessionModelProofs.sv_of st (snd (SessionGenProofs.src_save w)) =
  sess_quit (SessionModelProofs.sv_of st w) (SessionModel.sw_omen_exit w) (SessionModel.sw_omen_num w) state.
Proof. exact SessionGenProofs.source_save_is_sess_quit. Qed.

(* the translated run(load_session = True) of a resumed session (its restored queue empty, so
   that the main loop returns at once and what is left is the prologue) is sess_restore with
   cleared = true: restore_omen runs exactly when the configuration holds a guess number - on
   the level named in the .omn file, from that number on - and the number is removed afterwards
   unless the user quit inside the restored level again *)
Theorem C15_source_resume_is_sess_restore :
  forall (sch : Session.schedule) (fresh restored : list Session.pterm) (level_rest : nat -> nat -> list nat)
         (st : nat * nat -> saved) (l : option Z) (fuel : nat) (w : SessionModel.sworld),
  restored = [] -> (forall n, SessionModel.sw_cfg_omen w = Some n -> SessionModel.sw_om w <> None) ->
  let '(r, o, w') := SessionGenProofs.src_run sch fresh restored level_rest (S fuel) true l w in
  r = SessionRt.SOk tt /\
  SessionModel.sw_cfg_omen w' =
    sv_number (snd (sess_restore true (SessionModelProofs.sv_of st w) (SessionModel.sw_omen_exit w'))) /\
  match fst (sess_restore true (SessionModelProofs.sv_of st w) (SessionModel.sw_omen_exit w')),
        SessionModel.sw_cfg_omen w, SessionModel.sw_om w with
  | Some s, Some n, Some (p, j) =>
      s = st (p, j) /\
      o = fst (fst (fst (Session.emit_markov sch (SessionModel.sw_t w) (SessionModel.sw_h w) (level_rest p n) n)))
  | None, None, _ => o = []
  | _, _, _ => False
  end.
Proof. exact SessionGenProofs.source_resume_is_sess_restore. Qed.

(* and the no-replay requirement on the source: after such a resume whose restored level ran
   to its end (omen_exit false) the configuration no longer holds a guess number *)
Theorem C15_source_no_replay :
  forall (sch : Session.schedule) (fresh restored : list Session.pterm) (level_rest : nat -> nat -> list nat)
         (st : nat * nat -> saved) (l : option Z) (fuel : nat) (w : SessionModel.sworld),
  restored = [] -> (forall n, SessionModel.sw_cfg_omen w = Some n -> SessionModel.sw_om w <> None) ->
  let w' := snd (SessionGenProofs.src_run sch fresh restored level_rest (S fuel) true l w) in
  SessionModel.sw_omen_exit w' = false -> SessionModel.sw_cfg_omen w' = None.
Proof. exact SessionGenProofs.source_no_replay. Qed.

(* one iteration of the translated main loop saves exactly when loop_saves says so (R18: a
   quit seen when the queue is empty is not saved) *)
Theorem C15_source_iteration_saves_is_loop_saves :
  forall (sch : Session.schedule) (fresh restored : list Session.pterm) (level_rest : nat -> nat -> list nat)
         (l : option Z) (w : SessionModel.sworld), SessionModel.sw_cfg_omen w = None ->
  length (SessionModel.sw_saves (snd (SessionGenProofs.src_run sch fresh restored level_rest 1 true l w))) =
  length (SessionModel.sw_saves w) +
  (if loop_saves (match restored with [] => false | _ :: _ => true end)
                 (Session.should_exit (Session.h_steps (SessionModel.sw_h w) (sch (SessionModel.sw_t w)))) then 1 else 0).
Proof. exact SessionGenProofs.source_iteration_saves_is_loop_saves. Qed.

Print Assumptions C15_continuation.
Print Assumptions C15_state_roundtrip.
Print Assumptions C15_refuted_stale.
Print Assumptions C15_then_rest.
Print Assumptions C15_tied_level_repeats.
Print Assumptions C15_last_level_not_saved.
Print Assumptions C15_follow_pop_ok.
Print Assumptions C15_session_hypotheses_satisfiable.
Print Assumptions C15_tied_level_witness.
Print Assumptions C15_later_resume_no_replay.
Print Assumptions C15_refuted_check_before_pop.

(* ================================================================== *)
From Pcfg Require Import OmenGenRt OmenGenRtProofs OmenGenOptProofs OmenGenGsProofs OmenGenGsNextProofs OmenGenMcProofs
     OmenGenGenProofs.
From PcfgGen Require Import Consts_gen OmenGen_opt_gen OmenGen_gs_gen OmenGen_mc_gen.
(* Translator tie: C15_continuation over the code translated from the Python text
   of optimizer.py / guess_structure.py / markov_cracker.py on every run
   (gen/OmenGen_*_gen.v; equalities in theories/OmenGen*Proofs.v).  The object
   load_session leaves for the pickled state (mk_py: target level, cursors, a
   GuessStructure built from the cursors holding the pickled parse tree and
   first_guess), driven by the translated next_guess with ANY sound Optimizer,
   emits exactly the rest of the level and then None.  save_session /
   load_session themselves (pickle I/O) are not translated. *)
Theorem C15_source_continuation : forall G T c c2 o2 j s_ip s_len l out st c1 fuel,
  cache_ok (cp_fast G) (og_max_level G) c ->
  oinv G omen_optimizer_max_length o2 c2 ->
  mc_starts (ip_at G) (ln_at G) (og_max_level G) omen_first_object_extra = Some (s_ip, s_len) ->
  j < length (level_strings G T) ->
  enumerate (ip_at G) (cp_fast G) (ln_at G) (og_max_level G) omen_optimizer_max_length omen_first_object_extra (S j) c T =
    Some (l, out, st, c1) ->
  fuel >= omen_fuel G ->
  exists m2 o3 c3,
    py_mc_run (S (length (skipn (S j) (level_strings G T)))) fuel
              (mk_py (ip_at G) (ln_at G) (build_cp (og_cp G)) (og_max_level G) (Z.of_nat (og_ngram G)) s_ip s_len
                     (mc_load (mc_save st))) o2 =
      Ok (skipn (S j) (level_strings G T), true, m2, o3) /\
    oinv G omen_optimizer_max_length o3 c3.
Proof. exact (fun G => continuation_translated G omen_optimizer_max_length C15_source_first_object_range). Qed.

(* the Optimizer of the new process (translated constructor) is sound *)
Theorem C15_source_new_optimizer_is_sound : forall G fuel,
  exists o, py_opt_init fuel (Z.of_nat omen_optimizer_max_length) = Ok o /\ oinv G omen_optimizer_max_length o cempty.
Proof. exact (fun G => opt_init_translated G omen_optimizer_max_length). Qed.

(* save_session / load_session are pickle I/O and not translated; what the model says about them
   (mc_save = (target_level, cur_ip, cur_len, parse_tree, first_guess), mc_load puts them back) is
   pinned to the source: the order of the pickle.dump calls and of the pickle.load assignments
   (codes 1..5 in that order; harness/consts/zz_omen_gen.py also checks that load_session rebuilds
   the GuessStructure from the loaded cursors with the constructor call _increase_ip_for_target
   uses, then overwrites parse_tree and first_guess) *)
Theorem C15_source_pickle_field_order :
  omen_save_order = [1; 2; 3; 4; 5]%N /\ omen_load_order = [1; 2; 3; 4; 5]%N.
Proof. split; reflexivity. Qed.

Print Assumptions C15_source_continuation.
Print Assumptions C15_source_save_is_sess_quit.
Print Assumptions C15_source_resume_is_sess_restore.
Print Assumptions C15_source_iteration_saves_is_loop_saves.
