(* C15: an interrupted Markov level resumes at the very next guess (work in progress). *)
From Coq Require Import List Bool NArith ZArith.
From Pcfg Require Import OmenSpec Omen OmenCorr.
From PcfgGen Require Import Consts_gen.
Import ListNotations.

Theorem C15_state_roundtrip :
  forall st : mc_state, mc_started st = true -> mc_load (mc_save st) = st.
Proof. intros [T s l i t f] H; simpl in *; subst; reflexivity. Qed.
Print Assumptions C15_state_roundtrip.
