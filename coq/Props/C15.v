(* C15: an interrupted Markov level resumes at the very next guess. *)
From Coq Require Import List Bool NArith ZArith.
From Pcfg Require Import OmenSpec Omen OmenCorr OmenProofs OmenProofs2 OmenProofs3 OmenProofs4 OmenProofs5.
From PcfgGen Require Import Consts_gen.
Import ListNotations.

Theorem C15_source_first_object_range : omen_first_object_extra <= 1.
Proof. unfold omen_first_object_extra. repeat constructor. Qed.

(* save_session / load_session (pickle = identity, trusted) *)
Theorem C15_state_roundtrip : forall st : mc_state, mc_started st = true -> mc_load (mc_save st) = st.
Proof. exact state_roundtrip. Qed.

(* the state after the (j+1)-th guess of a level (whatever the session's cache
   held), saved and loaded into a new cracker and run with ANY sound cache -- in
   particular the empty one of the new process -- emits exactly the remaining
   strings of the level, none repeated, none skipped, and then None *)
Theorem C15_continuation : forall G T c c2 j starts l o st c1,
  cache_ok (cp_fast G) (og_max_level G) c -> cache_ok (cp_fast G) (og_max_level G) c2 ->
  mc_starts (ip_at G) (ln_at G) (og_max_level G) omen_first_object_extra = Some starts ->
  j < length (level_strings G T) ->
  m_enumerate G (cp_fast G) (S j) c T = Some (l, o, st, c1) ->
  l = firstn (S j) (level_strings G T) /\
  mc_load (mc_save st) = st /\
  exists st' c',
    mc_run (ip_at G) (cp_fast G) (ln_at G) (og_max_level G) omen_optimizer_max_length
           (S (length (skipn (S j) (level_strings G T)))) (mc_fuel (ip_at G) (ln_at G) (og_max_level G))
           starts c2 (mc_load (mc_save st)) =
    (skipn (S j) (level_strings G T), Done, st', c').
Proof.
  exact (fun G => continuation G omen_optimizer_max_length omen_first_object_extra C15_source_first_object_range).
Qed.

Theorem C15_empty_cache_is_sound : forall cpf maxl, cache_ok cpf maxl cempty.
Proof. exact cache_ok_empty. Qed.

(* no-replay requirement: once the restored level has run to its end (including
   a quit flag raised during its exhausting next_guess call, omen_exit false),
   a later save followed by a resume must not restore it again.  It holds iff
   the code removes guessing_info/omen_guess_number unless omen_exit is set. *)
Theorem C15_no_replay : omen_number_cleared = true -> forall cfg n s oe,
  fst (sess_restore omen_number_cleared
         (sess_quit (snd (sess_restore omen_number_cleared cfg false)) false n s) oe) = None.
Proof. intros ->. exact no_replay_when_cleared. Qed.

Theorem C15_requit_inside_restores_new : omen_number_cleared = true -> forall n1 s1 n s oe,
  fst (sess_restore omen_number_cleared
         (sess_quit (snd (sess_restore omen_number_cleared (sess_quit sess_empty true n1 s1) true)) true n s) oe) = Some s.
Proof. intros ->. exact requit_inside_restores_new. Qed.

(* R7: as first coded the option was never removed and the stale .omn was restored again *)
Theorem C15_refuted_stale : omen_number_cleared = false -> forall n1 s1 n2 s2 oe oe',
  fst (sess_restore omen_number_cleared
         (sess_quit (snd (sess_restore omen_number_cleared (sess_quit sess_empty true n1 s1) oe)) false n2 s2) oe') = Some s1.
Proof. intros ->. exact stale_replay_when_not_cleared. Qed.

(* R18: a quit seen inside the last pre-terminal of the run is never saved *)
Theorem C15_refuted_last_preterminal : loop_saves false true = false.
Proof. exact last_preterminal_not_saved. Qed.

(* the hypotheses of C15_continuation are satisfiable on a non-trivial instance
   (level 2 of Gex, cut after its 2nd guess, 3 strings remain) *)
Theorem C15_example_hypotheses :
  mc_starts (ip_at (Gex 10)) (ln_at (Gex 10)) 10 0 = Some (0, 0) /\
  1 < length (level_strings (Gex 10) 2%Z).
Proof. exact (conj (proj1 Gex_continuation) (proj1 (proj2 Gex_continuation))). Qed.

(* NOT PROVED here (outside the OMEN model; exercised by the oracle of
   harness/props/C15.py on the real session only):

   C15_then_rest_partial -- full statement: after the remainder of the level the
   resumed session continues with the queue restored from the probability of
   the pop that followed the level, i.e. emits every pre-terminal of the
   uninterrupted run after the level, repeating only pre-terminals whose
   probability equals the saved one (this is C08's restore theorem applied to
   the saved max_probability; Next.v / RestoreProofs.v are its model).

   C15_tied_level_repeats_partial -- full statement: if the pop that follows the
   level has exactly the level's probability, the level's own pre-terminal is
   in that tied group and is generated once more in full after its remainder,
   and this is the only repetition of its strings.  The oracle classifies such
   cuts ("cuts_tied" in the evidence) and checks that the level is regenerated
   ONLY then. *)

Print Assumptions C15_continuation.
Print Assumptions C15_state_roundtrip.
Print Assumptions C15_refuted_stale.

(* ================================================================== *)
From Pcfg Require Import OmenGenRt OmenGenRtProofs OmenGenOptProofs OmenGenGsProofs OmenGenGsNextProofs OmenGenMcProofs
     OmenGenGenProofs.
From PcfgGen Require Import Consts_gen OmenGen_opt_gen OmenGen_gs_gen OmenGen_mc_gen.
(* Translator tie: C15_continuation over the code translated from the Python text
   of optimizer.py / guess_structure.py / markov_cracker.py on every run
   (gen/OmenGen_*_gen.v; equalities in theories/OmenGen*Proofs.v).  The object
   load_session leaves for the pickled state (mk_py: target level, cursors, a
   GuessStructure built from the cursors holding the pickled parse tree and
   first_guess), driven by the translated next_guess with ANY sound Optimizer,
   emits exactly the rest of the level and then None.  save_session /
   load_session themselves (pickle I/O) are not translated. *)
Theorem C15_source_continuation : forall G T c c2 o2 j s_ip s_len l out st c1 fuel,
  cache_ok (cp_fast G) (og_max_level G) c ->
  oinv G omen_optimizer_max_length o2 c2 ->
  mc_starts (ip_at G) (ln_at G) (og_max_level G) omen_first_object_extra = Some (s_ip, s_len) ->
  j < length (level_strings G T) ->
  enumerate (ip_at G) (cp_fast G) (ln_at G) (og_max_level G) omen_optimizer_max_length omen_first_object_extra (S j) c T =
    Some (l, out, st, c1) ->
  fuel >= omen_fuel G ->
  exists m2 o3 c3,
    py_mc_run (S (length (skipn (S j) (level_strings G T)))) fuel
              (mk_py (ip_at G) (ln_at G) (build_cp (og_cp G)) (og_max_level G) (Z.of_nat (og_ngram G)) s_ip s_len
                     (mc_load (mc_save st))) o2 =
      Ok (skipn (S j) (level_strings G T), true, m2, o3) /\
    oinv G omen_optimizer_max_length o3 c3.
Proof. exact (fun G => continuation_translated G omen_optimizer_max_length C15_source_first_object_range). Qed.

(* the Optimizer of the new process (translated constructor) is sound *)
Theorem C15_source_new_optimizer_is_sound : forall G fuel,
  exists o, py_opt_init fuel (Z.of_nat omen_optimizer_max_length) = Ok o /\ oinv G omen_optimizer_max_length o cempty.
Proof. exact (fun G => opt_init_translated G omen_optimizer_max_length). Qed.

(* save_session / load_session are pickle I/O and not translated; what the model says about them
   (mc_save = (target_level, cur_ip, cur_len, parse_tree, first_guess), mc_load puts them back) is
   pinned to the source: the order of the pickle.dump calls and of the pickle.load assignments
   (codes 1..5 in that order; harness/consts/zz_omen_gen.py also checks that load_session rebuilds
   the GuessStructure from the loaded cursors with the constructor call _increase_ip_for_target
   uses, then overwrites parse_tree and first_guess) *)
Theorem C15_source_pickle_field_order :
  omen_save_order = [1; 2; 3; 4; 5]%N /\ omen_load_order = [1; 2; 3; 4; 5]%N.
Proof. split; reflexivity. Qed.

Print Assumptions C15_source_continuation.
