(* C15: an interrupted Markov level resumes at the very next guess. *)
From Coq Require Import List Bool NArith ZArith.
From Pcfg Require Import OmenSpec Omen OmenCorr OmenProofs OmenProofs2 OmenProofs3 OmenProofs4 OmenProofs5.
From PcfgGen Require Import Consts_gen.
From Pcfg Require Session SessionRt SessionModel SessionModelProofs SessionGenProofs.
From PcfgGen Require Session_gen.
Import ListNotations.

Theorem C15_source_first_object_range : omen_first_object_extra <= 1.
Proof. unfold omen_first_object_extra. repeat constructor. Qed.

(* save_session / load_session (pickle = identity, trusted) *)
Theorem C15_state_roundtrip : forall st : mc_state, mc_started st = true -> mc_load (mc_save st) = st.
Proof. exact state_roundtrip. Qed.

(* the state after the (j+1)-th guess of a level (whatever the session's cache
   held), saved and loaded into a new cracker and run with ANY sound cache -- in
   particular the empty one of the new process -- emits exactly the remaining
   strings of the level, none repeated, none skipped, and then None *)
Theorem C15_continuation : forall G T c c2 j starts l o st c1,
  cache_ok (cp_fast G) (og_max_level G) c -> cache_ok (cp_fast G) (og_max_level G) c2 ->
  mc_starts (ip_at G) (ln_at G) (og_max_level G) omen_first_object_extra = Some starts ->
  j < length (level_strings G T) ->
  m_enumerate G (cp_fast G) (S j) c T = Some (l, o, st, c1) ->
  l = firstn (S j) (level_strings G T) /\
  mc_load (mc_save st) = st /\
  exists st' c',
    mc_run (ip_at G) (cp_fast G) (ln_at G) (og_max_level G) omen_optimizer_max_length
           (S (length (skipn (S j) (level_strings G T)))) (mc_fuel (ip_at G) (ln_at G) (og_max_level G))
           starts c2 (mc_load (mc_save st)) =
    (skipn (S j) (level_strings G T), Done, st', c').
Proof.
  exact (fun G => continuation G omen_optimizer_max_length omen_first_object_extra C15_source_first_object_range).
Qed.

Theorem C15_empty_cache_is_sound : forall cpf maxl, cache_ok cpf maxl cempty.
Proof. exact cache_ok_empty. Qed.

(* no-replay requirement: once the restored level has run to its end (including
   a quit flag raised during its exhausting next_guess call, omen_exit false),
   a later save followed by a resume must not restore it again.  It holds iff
   the code removes guessing_info/omen_guess_number unless omen_exit is set. *)
Theorem C15_no_replay : omen_number_cleared = true -> forall cfg n s oe,
  fst (sess_restore omen_number_cleared
         (sess_quit (snd (sess_restore omen_number_cleared cfg false)) false n s) oe) = None.
Proof. intros ->. exact no_replay_when_cleared. Qed.

Theorem C15_requit_inside_restores_new : omen_number_cleared = true -> forall n1 s1 n s oe,
  fst (sess_restore omen_number_cleared
         (sess_quit (snd (sess_restore omen_number_cleared (sess_quit sess_empty true n1 s1) true)) true n s) oe) = Some s.
Proof. intros ->. exact requit_inside_restores_new. Qed.

(* R7: as first coded the option was never removed and the stale .omn was restored again *)
Theorem C15_refuted_stale : omen_number_cleared = false -> forall n1 s1 n2 s2 oe oe',
  fst (sess_restore omen_number_cleared
         (sess_quit (snd (sess_restore omen_number_cleared (sess_quit sess_empty true n1 s1) oe)) false n2 s2) oe') = Some s1.
Proof. intros ->. exact stale_replay_when_not_cleared. Qed.

(* R18: a quit seen inside the last pre-terminal of the run is never saved *)
Theorem C15_refuted_last_preterminal : loop_saves false true = false.
Proof. exact last_preterminal_not_saved. Qed.

(* the hypotheses of C15_continuation are satisfiable on a non-trivial instance
   (level 2 of Gex, cut after its 2nd guess, 3 strings remain) *)
Theorem C15_example_hypotheses :
  mc_starts (ip_at (Gex 10)) (ln_at (Gex 10)) 10 0 = Some (0, 0) /\
  1 < length (level_strings (Gex 10) 2%Z).
Proof. exact (conj (proj1 Gex_continuation) (proj1 (proj2 Gex_continuation))). Qed.

(* NOT PROVED here (outside the OMEN model; exercised by the oracle of
   harness/props/C15.py on the real session only):

   C15_then_rest_partial -- full statement: after the remainder of the level the
   resumed session continues with the queue restored from the probability of
   the pop that followed the level, i.e. emits every pre-terminal of the
   uninterrupted run after the level, repeating only pre-terminals whose
   probability equals the saved one (this is C08's restore theorem applied to
   the saved max_probability; Next.v / RestoreProofs.v are its model).

   C15_tied_level_repeats_partial -- full statement: if the pop that follows the
   level has exactly the level's probability, the level's own pre-terminal is
   in that tied group and is generated once more in full after its remainder,
   and this is the only repetition of its strings.  The oracle classifies such
   cuts ("cuts_tied" in the evidence) and checks that the level is regenerated
   ONLY then. *)


(* ---- translator tie of the session-level bookkeeping: gen/Session_gen.v is the translation of
   the Python text of CrackingSession._save_session and CrackingSession.run
   (harness/translate_session.py, redone on every run).  The statements are made in the world
   of Session.v (SessionModel.sworld: sw_cfg_omen = guessing_info/omen_guess_number of the
   save configuration, sw_om = the .omn file as (level, guess number), read as a generator
   state by an arbitrary [st]; sw_saves = the log of save-file writes) ---- *)

(* for every world and every choice of the collaborators the translated _save_session is the
   model SessionModel.m_save: queue position and - iff omen_exit - the OMEN guess number go
   into the configuration, which is then written; an OSError of the write gives False *)
Theorem C15_source_save_session_is_model :
  forall (W G : Type) (queue_update_save_config : W -> W) (get_omen_exit : W -> bool) (get_omen_guess_num : W -> Z)
         (cfg_set_omen_number : Z -> W -> W) (write_save_file : W -> SessionRt.sres unit * W) (w : W),
  Session_gen.py_save_session (G := G) queue_update_save_config get_omen_exit get_omen_guess_num cfg_set_omen_number
                              write_save_file w =
  (fst (SessionModel.m_save queue_update_save_config get_omen_exit get_omen_guess_num cfg_set_omen_number write_save_file w),
   [],
   snd (SessionModel.m_save queue_update_save_config get_omen_exit get_omen_guess_num cfg_set_omen_number write_save_file w)).
Proof. exact (@SessionGenProofs.save_session_eq). Qed.

(* the translated _save_session is sess_quit *)
Theorem C15_source_save_is_sess_quit :
  forall (st : nat * nat -> saved) (w : SessionModel.sworld) (state : saved),
  (SessionModel.sw_omen_exit w = true -> option_map st (SessionModel.sw_om w) = Some state) ->
  fst (fst (SessionGenProofs.src_save w)) = SessionRt.SOk true /\
  snd (fst (SessionGenProofs.src_save w)) = [] /\
  SessionModelProofs.sv_of st (snd (SessionGenProofs.src_save w)) =
  sess_quit (SessionModelProofs.sv_of st w) (SessionModel.sw_omen_exit w) (SessionModel.sw_omen_num w) state.
Proof. exact SessionGenProofs.source_save_is_sess_quit. Qed.

(* the translated run(load_session = True) of a resumed session (its restored queue empty, so
   that the main loop returns at once and what is left is the prologue) is sess_restore with
   cleared = true: restore_omen runs exactly when the configuration holds a guess number - on
   the level named in the .omn file, from that number on - and the number is removed afterwards
   unless the user quit inside the restored level again *)
Theorem C15_source_resume_is_sess_restore :
  forall (sch : Session.schedule) (fresh restored : list Session.pterm) (level_rest : nat -> nat -> list nat)
         (st : nat * nat -> saved) (l : option Z) (fuel : nat) (w : SessionModel.sworld),
  restored = [] -> (forall n, SessionModel.sw_cfg_omen w = Some n -> SessionModel.sw_om w <> None) ->
  let '(r, o, w') := SessionGenProofs.src_run sch fresh restored level_rest (S fuel) true l w in
  r = SessionRt.SOk tt /\
  SessionModel.sw_cfg_omen w' =
    sv_number (snd (sess_restore true (SessionModelProofs.sv_of st w) (SessionModel.sw_omen_exit w'))) /\
  match fst (sess_restore true (SessionModelProofs.sv_of st w) (SessionModel.sw_omen_exit w')),
        SessionModel.sw_cfg_omen w, SessionModel.sw_om w with
  | Some s, Some n, Some (p, j) =>
      s = st (p, j) /\
      o = fst (fst (fst (Session.emit_markov sch (SessionModel.sw_t w) (SessionModel.sw_h w) (level_rest p n) n)))
  | None, None, _ => o = []
  | _, _, _ => False
  end.
Proof. exact SessionGenProofs.source_resume_is_sess_restore. Qed.

(* and the no-replay requirement on the source: after such a resume whose restored level ran
   to its end (omen_exit false) the configuration no longer holds a guess number *)
Theorem C15_source_no_replay :
  forall (sch : Session.schedule) (fresh restored : list Session.pterm) (level_rest : nat -> nat -> list nat)
         (st : nat * nat -> saved) (l : option Z) (fuel : nat) (w : SessionModel.sworld),
  restored = [] -> (forall n, SessionModel.sw_cfg_omen w = Some n -> SessionModel.sw_om w <> None) ->
  let w' := snd (SessionGenProofs.src_run sch fresh restored level_rest (S fuel) true l w) in
  SessionModel.sw_omen_exit w' = false -> SessionModel.sw_cfg_omen w' = None.
Proof. exact SessionGenProofs.source_no_replay. Qed.

(* one iteration of the translated main loop saves exactly when loop_saves says so (R18: a
   quit seen when the queue is empty is not saved) *)
Theorem C15_source_iteration_saves_is_loop_saves :
  forall (sch : Session.schedule) (fresh restored : list Session.pterm) (level_rest : nat -> nat -> list nat)
         (l : option Z) (w : SessionModel.sworld), SessionModel.sw_cfg_omen w = None ->
  length (SessionModel.sw_saves (snd (SessionGenProofs.src_run sch fresh restored level_rest 1 true l w))) =
  length (SessionModel.sw_saves w) +
  (if loop_saves (match restored with [] => false | _ :: _ => true end)
                 (Session.should_exit (Session.h_steps (SessionModel.sw_h w) (sch (SessionModel.sw_t w)))) then 1 else 0).
Proof. exact SessionGenProofs.source_iteration_saves_is_loop_saves. Qed.

Print Assumptions C15_continuation.
Print Assumptions C15_state_roundtrip.
Print Assumptions C15_refuted_stale.
Print Assumptions C15_source_save_is_sess_quit.
Print Assumptions C15_source_resume_is_sess_restore.
Print Assumptions C15_source_iteration_saves_is_loop_saves.
