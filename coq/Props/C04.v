(* C04 - a pre-terminal expands to exactly the product of its terminal groups.
   Property theorems only (proofs in ExpandProofs.v). *)
From Coq Require Import List Arith NArith.
From Pcfg Require Import Expand ExpandProofs.
Import ListNotations.

(* well-formed pre-terminal (every C_n follows an A_n, words and masks have n > 0
   characters, no empty group): the printed lines are the product, in structure
   order, with each mask applied to the word before it; the count is their number *)
Theorem C04_expand_is_product :
  forall (upper_c : N -> str) (omen : str -> list str) segs cur,
  segs <> [] -> Forall seg_ok' segs ->
  expand upper_c omen (flat_map slots_of segs) cur None =
    Some (map (app cur) (denote upper_c segs), length (denote upper_c segs)).
Proof. exact (fun u o segs cur => C04_expand_is_product_cur u o segs cur). Qed.

(* zero-length alpha groups are excluded for a reason: cur[:-0] is "" in Python *)
Theorem C04_refuted_zero_length_alpha :
  forall (upper_c : N -> str) (omen : str -> list str),
  segs_refute <> [] /\ Forall seg_ok segs_refute /\
  expand upper_c omen (flat_map slots_of segs_refute) [] None <>
    Some (denote upper_c segs_refute, length (denote upper_c segs_refute)).
Proof.
  intros u o. destruct (C04_expand_is_product_refuted u o) as (H1 & H2 & _ & _ & H5).
  exact (conj H1 (conj H2 H5)).
Qed.

(* the count the guesser reports is the number of lines it wrote, for ANY parse tree *)
Theorem C04_count_is_lines :
  forall (upper_c : N -> str) (omen : str -> list str) pt cur l out k,
  expand upper_c omen pt cur l = Some (out, k) -> k = length out.
Proof. exact C04_count_is_lines. Qed.

(* --limit N inside a pre-terminal: exactly the first N lines *)
Theorem C04_limit :
  forall (upper_c : N -> str) (omen : str -> list str) segs cur n,
  segs <> [] -> Forall seg_ok' segs -> n >= 1 ->
  expand upper_c omen (flat_map slots_of segs) cur (Some n) =
    Some (firstn n (map (app cur) (denote upper_c segs)), Nat.min n (length (denote upper_c segs))).
Proof. exact (fun u o segs cur n => C04_limit u o segs cur n). Qed.

Theorem C04_limit_zero_means_unlimited :
  forall (upper_c : N -> str) (omen : str -> list str) pt cur,
  expand upper_c omen pt cur (Some 0) = expand upper_c omen pt cur None.
Proof. exact C04_limit_zero_is_none. Qed.

(* every combination once: the product has the product of the group sizes,
   an alpha segment contributes |words| * |masks| choices *)
Theorem C04_each_once :
  forall (upper_c : N -> str) segs,
  length (denote upper_c segs) = fold_right Nat.mul 1 (map (fun s => length (seg_choices upper_c s)) segs).
Proof. exact C04_each_once. Qed.
Theorem C04_alpha_choices :
  forall (upper_c : N -> str) ws ms, length (seg_choices upper_c (SegAlpha ws ms)) = length ws * length ms.
Proof. exact C04_alpha_choices. Qed.

(* a Markov pre-terminal prints the strings of its level (first value of the
   group only - which is why the loader must keep one level per group) *)
Theorem C04_markov :
  forall (upper_c : N -> str) (omen : str -> list str) lv more cur l,
  expand upper_c omen [{| scat := CatM; svals := lv :: more |}] cur l =
    Some (omen_emit omen lv l, length (omen_emit omen lv l)).
Proof. exact C04_markov. Qed.

(* non-vacuity: 2 x (2 words x 2 masks) x 3 = 24 guesses, by computation *)
Theorem C04_example : expand up_ascii (fun _ => []) (flat_map slots_of segs_ex) [] None =
                      Some (denote up_ascii segs_ex, 24).
Proof. exact C04_example_product. Qed.

Print Assumptions C04_expand_is_product.
Print Assumptions C04_limit.
Print Assumptions C04_count_is_lines.
