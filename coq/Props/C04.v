(* C04 - a pre-terminal expands to exactly the product of its terminal groups.
   Property theorems only (proofs in ExpandProofs.v). *)
From Coq Require Import List Arith NArith.
From Coq Require Import ZArith.
From Pcfg Require Import Expand ExpandProofs.
From Pcfg Require Import KernelRt ExpandRt ExpandGenProofs.
From PcfgGen Require Import Expand_gen.
From Coq Require Import Floats.
From Pcfg Require TextFile LoaderRt.
From Pcfg Require Import LoaderGenProofs.
From PcfgGen Require Import Loader_gen.
Import ListNotations.

(* well-formed pre-terminal (every C_n follows an A_n, words and masks have n > 0
   characters, no empty group): the printed lines are the product, in structure
   order, with each mask applied to the word before it; the count is their number *)
Theorem C04_expand_is_product :
  forall (upper_c : N -> str) (omen : str -> list str) segs cur,
  segs <> [] -> Forall seg_ok' segs ->
  expand upper_c omen (flat_map slots_of segs) cur None =
    Some (map (app cur) (denote upper_c segs), length (denote upper_c segs)).
Proof. exact (fun u o segs cur => C04_expand_is_product_cur u o segs cur). Qed.

(* zero-length alpha groups are excluded for a reason: cur[:-0] is "" in Python *)
Theorem C04_refuted_zero_length_alpha :
  forall (upper_c : N -> str) (omen : str -> list str),
  segs_refute <> [] /\ Forall seg_ok segs_refute /\
  expand upper_c omen (flat_map slots_of segs_refute) [] None <>
    Some (denote upper_c segs_refute, length (denote upper_c segs_refute)).
Proof.
  intros u o. destruct (C04_expand_is_product_refuted u o) as (H1 & H2 & _ & _ & H5).
  exact (conj H1 (conj H2 H5)).
Qed.

(* the count the guesser reports is the number of lines it wrote, for ANY parse tree *)
Theorem C04_count_is_lines :
  forall (upper_c : N -> str) (omen : str -> list str) pt cur l out k,
  expand upper_c omen pt cur l = Some (out, k) -> k = length out.
Proof. exact C04_count_is_lines. Qed.

(* --limit N inside a pre-terminal: exactly the first N lines *)
Theorem C04_limit :
  forall (upper_c : N -> str) (omen : str -> list str) segs cur n,
  segs <> [] -> Forall seg_ok' segs -> n >= 1 ->
  expand upper_c omen (flat_map slots_of segs) cur (Some n) =
    Some (firstn n (map (app cur) (denote upper_c segs)), Nat.min n (length (denote upper_c segs))).
Proof. exact (fun u o segs cur n => C04_limit u o segs cur n). Qed.

Theorem C04_limit_zero_means_unlimited :
  forall (upper_c : N -> str) (omen : str -> list str) pt cur,
  expand upper_c omen pt cur (Some 0) = expand upper_c omen pt cur None.
Proof. exact C04_limit_zero_is_none. Qed.

(* every combination once: the product has the product of the group sizes,
   an alpha segment contributes |words| * |masks| choices *)
Theorem C04_each_once :
  forall (upper_c : N -> str) segs,
  length (denote upper_c segs) = fold_right Nat.mul 1 (map (fun s => length (seg_choices upper_c s)) segs).
Proof. exact C04_each_once. Qed.
Theorem C04_alpha_choices :
  forall (upper_c : N -> str) ws ms, length (seg_choices upper_c (SegAlpha ws ms)) = length ws * length ms.
Proof. exact C04_alpha_choices. Qed.

(* a Markov pre-terminal prints the strings of its level (first value of the
   group only - which is why the loader must keep one level per group) *)
Theorem C04_markov :
  forall (upper_c : N -> str) (omen : str -> list str) lv more cur l,
  expand upper_c omen [{| scat := CatM; svals := lv :: more |}] cur l =
    Some (omen_emit omen lv l, length (omen_emit omen lv l)).
Proof. exact C04_markov. Qed.

(* non-vacuity: 2 x (2 words x 2 masks) x 3 = 24 guesses, by computation *)
Theorem C04_example : expand up_ascii (fun _ => []) (flat_map slots_of segs_ex) [] None =
                      Some (denote up_ascii segs_ex, 24).
Proof. exact C04_example_product. Qed.

(* ---- second tie to the source: gen/Expand_gen.v is the translation of the Python text
   of omen_generate_guesses, _recursive_guesses and create_guesses
   (harness/translate_expand.py, redone on every run).  It equals the model the theorems
   above are about: for every upper_c, every grammar lookup gv (self.grammar[t][i]['values'],
   None = KeyError / IndexError), every int() and MarkovCracker oracle, every parse tree
   all of whose nodes resolve (variable name non-empty, group exists), every limit None / n >= 0,
   and any fuel > len(pt).  The model's None (IndexError) is Exc LookupError.  should_exit
   is False (nobody asked to quit). *)
Theorem C04_source_recursive_guesses_is_model :
  forall (upper_c : N -> pstr) (gv : pstr -> Z -> option (list pstr)) (py_int : pstr -> Z) (mcr : Z -> list pstr)
         (pt : list pnode) (slots : list slot),
  resolve gv pt = Some slots ->
  forall (fuel : nat) (cur : str) (l : lim), length pt < fuel ->
  py_recursive_guesses upper_c gv py_int mcr false fuel cur pt (zlim l) =
  lift (expand upper_c (omen_of py_int mcr) slots cur l).
Proof. exact recursive_guesses_eq. Qed.

Theorem C04_source_create_guesses_is_model :
  forall (upper_c : N -> pstr) (gv : pstr -> Z -> option (list pstr)) (py_int : pstr -> Z) (mcr : Z -> list pstr)
         (honey : pstr -> list pnode -> option Z -> res (list pstr * Z))
         (pt : list pnode) (slots : list slot) (fuel : nat) (l : lim),
  resolve gv pt = Some slots -> length pt < fuel ->
  py_create_guesses upper_c gv py_int mcr false honey fuel pt false (zlim l) =
  lift (expand upper_c (omen_of py_int mcr) slots [] l).
Proof. exact create_guesses_eq. Qed.

Theorem C04_source_omen_generate_guesses_is_model :
  forall (gs : list str) (l : lim),
  py_omen_generate_guesses false gs (zlim l) = Ok (lim_take l gs, Z.of_nat (length (lim_take l gs))).
Proof. exact omen_generate_guesses_eq. Qed.

(* the fuel of the generated recursion (no counterpart in Python) is never exhausted:
   for ALL inputs - any parse tree (resolvable or not), any limit (also negative ints),
   any value of should_exit - len(pt) + 1 levels are enough *)
Theorem C04_source_never_out_of_fuel :
  forall (upper_c : N -> pstr) (gv : pstr -> Z -> option (list pstr)) (py_int : pstr -> Z) (mcr : Z -> list pstr)
         (should_exit : bool) (pt : list pnode) (fuel : nat) (cur : pstr) (limit : option Z),
  length pt < fuel ->
  py_recursive_guesses upper_c gv py_int mcr should_exit fuel cur pt limit <> Exc OutOfFuel.
Proof. exact recursive_guesses_never_out_of_fuel. Qed.

Theorem C04_source_create_guesses_never_out_of_fuel :
  forall (upper_c : N -> pstr) (gv : pstr -> Z -> option (list pstr)) (py_int : pstr -> Z) (mcr : Z -> list pstr)
         (should_exit : bool) (honey : pstr -> list pnode -> option Z -> res (list pstr * Z))
         (pt : list pnode) (fuel : nat) (limit : option Z),
  length pt < fuel ->
  py_create_guesses upper_c gv py_int mcr should_exit honey fuel pt false limit <> Exc OutOfFuel.
Proof. exact create_guesses_never_out_of_fuel. Qed.

(* the product theorem, the count and the Markov clause for the translated create_guesses *)
Theorem C04_source_create_guesses_is_product :
  forall (upper_c : N -> pstr) (gv : pstr -> Z -> option (list pstr)) (py_int : pstr -> Z) (mcr : Z -> list pstr)
         (honey : pstr -> list pnode -> option Z -> res (list pstr * Z))
         (segs : list seg) (pt : list pnode) (fuel : nat),
  segs <> [] -> Forall seg_ok' segs ->
  resolve gv pt = Some (flat_map slots_of segs) -> length pt < fuel ->
  py_create_guesses upper_c gv py_int mcr false honey fuel pt false None =
  Ok (denote upper_c segs, Z.of_nat (length (denote upper_c segs))).
Proof. exact source_create_guesses_is_product. Qed.

Theorem C04_source_count_is_lines :
  forall (upper_c : N -> pstr) (gv : pstr -> Z -> option (list pstr)) (py_int : pstr -> Z) (mcr : Z -> list pstr)
         (honey : pstr -> list pnode -> option Z -> res (list pstr * Z))
         (pt : list pnode) (slots : list slot) (fuel : nat) (l : lim) (out : list pstr) (k : Z),
  resolve gv pt = Some slots -> length pt < fuel ->
  py_create_guesses upper_c gv py_int mcr false honey fuel pt false (zlim l) = Ok (out, k) ->
  k = Z.of_nat (length out).
Proof. exact source_create_guesses_count. Qed.

Theorem C04_source_markov :
  forall (upper_c : N -> pstr) (gv : pstr -> Z -> option (list pstr)) (py_int : pstr -> Z) (mcr : Z -> list pstr)
         (honey : pstr -> list pnode -> option Z -> res (list pstr * Z))
         (name : pstr) (idx : Z) (lv : pstr) (more : list pstr) (fuel : nat) (l : lim),
  gv (77%N :: name) idx = Some (lv :: more) -> 1 < fuel ->
  py_create_guesses upper_c gv py_int mcr false honey fuel [(77%N :: name, idx)] false (zlim l) =
  Ok (lim_take l (mcr (py_int lv)), Z.of_nat (length (lim_take l (mcr (py_int lv))))).
Proof. exact source_create_guesses_markov. Qed.

(* non-vacuity: the example above as a parse tree over a four-variable grammar; the
   hypotheses hold and the translated create_guesses computes the 24 guesses *)
Theorem C04_source_example :
  resolve gv_ex pt_ex = Some (flat_map slots_of segs_ex) /\
  (segs_ex <> [] /\ Forall seg_ok' segs_ex /\ length pt_ex < 5) /\
  py_create_guesses up_ascii gv_ex int_ex mcr_ex false honey_ex 5 pt_ex false None =
    Ok (denote up_ascii segs_ex, 24%Z).
Proof. exact (conj source_example_resolves (conj source_example_wellformed source_example_product)). Qed.

(* ---- "all values that share a group have the same probability in the ruleset".  On the model
   reader: every value of a group stood in the file with the probability reported for the group
   (the group's first line) or one == to it, and every accepted line is in such a group ... *)
Theorem C04_group_same_prob :
  forall l : list (TextFile.str * PrimFloat.float),
  (forall g v, In g (TextFile.group_by_prob l) -> In v (TextFile.gvals g) ->
     exists q, In (v, q) l /\ same_prob q (TextFile.gprob g)) /\
  (forall v q, In (v, q) l ->
     exists g, In g (TextFile.group_by_prob l) /\ In v (TextFile.gvals g) /\ same_prob q (TextFile.gprob g)).
Proof. exact group_by_prob_same_prob. Qed.

(* ... and over gen/Loader_gen.v, the translation of the Python text of lib_guesser/grammar_io.py
   _load_from_file (harness/translate_loader.py, redone on every run): when it returns True, the
   groups it built and the lines it accepted ([its]: the model's items, skip-next-line recovery
   included) are related in the same way, for every file, whitespace class, float() and codec *)
Theorem C04_source_group_same_prob :
  forall (ws : N -> bool) (pfloat : LoaderRt.pstr -> option PrimFloat.float) (encb : N -> bool) (reason : LoaderRt.pstr)
         (copen : LoaderRt.pstr -> LoaderRt.pstr -> option LoaderRt.pstr -> option (list LoaderRt.pstr)) (filename encoding : LoaderRt.pstr)
         (lines : list LoaderRt.pstr) gs,
  copen filename encoding (Some surrogateescape) = Some lines ->
  py_load_from_file F64ops ws pfloat (enc_of encb reason) copen [] filename encoding = LoaderRt.Done (gs, true) ->
  exists its, TextFile.guesser_items ws pfloat encb (onfail_of_reason reason) lines false = Some its /\
    (forall it v, In it gs -> In v (LoaderRt.it_values it) -> exists q, In (v, q) its /\ same_prob q (LoaderRt.it_prob it)) /\
    (forall v q, In (v, q) its -> exists it, In it gs /\ In v (LoaderRt.it_values it) /\ same_prob q (LoaderRt.it_prob it)).
Proof. exact source_groups_same_prob. Qed.

(* non-vacuity: three lines, the first two with the same probability: two groups *)
Theorem C04_source_group_example :
  py_load_from_file F64ops ex_ws ex_pfloat (enc_of (fun _ => true) []) (fun _ _ _ => Some
      [[97; 9; 48; 46; 53; 10]; [98; 9; 48; 46; 53; 10]; [99; 9; 48; 46; 50; 53; 10]]%N) [] [] [] =
  LoaderRt.Done ([{| LoaderRt.it_values := [[97]; [98]]%N; LoaderRt.it_prob := 0.5%float |};
                  {| LoaderRt.it_values := [[99]]%N; LoaderRt.it_prob := 0.25%float |}], true).
Proof. vm_compute. reflexivity. Qed.

Print Assumptions C04_expand_is_product.
Print Assumptions C04_group_same_prob.
Print Assumptions C04_source_group_same_prob.
Print Assumptions C04_limit.
Print Assumptions C04_count_is_lines.
Print Assumptions C04_source_recursive_guesses_is_model.
Print Assumptions C04_source_create_guesses_is_product.
Print Assumptions C04_source_never_out_of_fuel.

(* ---------------------------------------------------------------- translator tie of _load_terminals (T19)

   gen/Loader2Grammar_gen.v: lib_guesser/grammar_io.py _load_terminals, _load_from_multiple_files, _load_config,
   load_grammar translated from the current source on every run (harness/translate_loader2.py over the dynamically
   typed runtime theories/Loader2Rt.v).  The group-probability clause through the function that decides which
   file becomes which group list: *)
From Pcfg Require Import Loader2Rt Loader2Model Loader2GrammarGenProofs Loader2GrammarFacts.
From PcfgGen Require Import Loader2Grammar_gen.

(* _load_terminals IS Loader2Model.terminals: the seven sections of config.ini through _load_from_multiple_files
   (CAPITALIZATION replaced by the all-lower groups under skip_case), then Omen/pcfg_omen_prob.txt with every level
   split into its own group, e-mail providers and website hosts; the first load that returns False ends it *)
Theorem C04_source_load_terminals_is_model :
  forall (fo : LoaderRt.fops) (C SS : Type) (W : world fo C SS) (c : C) (v : cfg_view)
         (ri g0 : list (pyval (LoaderRt.F fo) C SS * pyval (LoaderRt.F fo) C SS)) (base enc : LoaderRt.pstr) (skip : bool),
  dfind (VStr k_encoding) ri = Some (VStr enc) -> cfg_view_ok fo W c v ->
  py_load_terminals fo W (VDict ri) (VDict g0) (VStr base) (VCfg c) (VBool skip) = terminals fo W v base enc skip g0.
Proof. exact (@load_terminals_eq). Qed.

(* a list _load_from_multiple_files wrote is what the translated _load_from_file built from its file ... *)
Theorem C04_source_terminal_lists_are_files :
  forall (fo : LoaderRt.fops) (C SS : Type) (W : world fo C SS) (base dir name enc : LoaderRt.pstr) (files : list LoaderRt.pstr)
         (g g' : list (pyval (LoaderRt.F fo) C SS * pyval (LoaderRt.F fo) C SS)),
  multi_files fo W base dir name enc files g = XDone (VDict g', VBool true) ->
  forall file, In file files ->
  exists file' its, In file' files /\ stem file' = stem file /\
    w_load_from_file W [] (w_path_join W [base; dir; file']) enc = LoaderRt.Done (its, true) /\
    dfind (VStr (name ++ stem file)) g' = Some (val_of_items its).
Proof. exact (@multi_files_lists). Qed.

(* ... whose groups hold values of one probability (binary64, the reader of gen/Loader_gen.v) *)
Theorem C04_source_terminal_group_same_prob :
  forall (C SS : Type) (W : world F64ops C SS)
         (ws : N -> bool) (pfloat : LoaderRt.pstr -> option PrimFloat.float) (encb : N -> bool) (reason : LoaderRt.pstr)
         (copen : LoaderRt.pstr -> LoaderRt.pstr -> option LoaderRt.pstr -> option (list LoaderRt.pstr))
         base dir name enc file (g g' : list (pyval PrimFloat.float C SS * pyval PrimFloat.float C SS)) lines,
  w_load_from_file W = py_load_from_file F64ops ws pfloat (LoaderGenProofs.enc_of encb reason) copen ->
  copen (w_path_join W [base; dir; file]) enc (Some surrogateescape) = Some lines ->
  multi_step F64ops W base dir name enc file g = inl g' ->
  exists gs its,
    g' = dput (VStr (name ++ stem file)) (val_of_items gs) g /\
    TextFile.guesser_items ws pfloat encb (onfail_of_reason reason) lines false = Some its /\
    (forall it v, In it gs -> In v (LoaderRt.it_values it) -> exists q, In (v, q) its /\ same_prob q (LoaderRt.it_prob it)) /\
    (forall v q, In (v, q) its -> exists it, In it gs /\ In v (LoaderRt.it_values it) /\ same_prob q (LoaderRt.it_prob it)).
Proof. exact (@terminal_list_same_prob). Qed.

(* --skip_case: every capitalisation list is ONE group, the all-lower mask of the length the file name says, with
   probability 1.0 *)
Theorem C04_source_skip_case_one_group :
  forall (fo : LoaderRt.fops) (C SS : Type) (W : world fo C SS) (name : LoaderRt.pstr) (files : list LoaderRt.pstr)
         (g g' : list (pyval (LoaderRt.F fo) C SS * pyval (LoaderRt.F fo) C SS)),
  caps_files fo W name files g = XDone g' ->
  forall file, In file files ->
  exists n, w_pint W (stem file) = Some n /\
            dfind (VStr (name ++ stem file)) g' = Some (val_of_items [lower_group fo n]) /\
            LoaderRt.it_prob (lower_group fo n) = LoaderRt.f_one fo /\
            LoaderRt.it_values (lower_group fo n) = [LoaderRt.rt_repeat k_L n].
Proof. exact (@caps_files_groups). Qed.

(* grammar['M']: one group per OMEN level, no level lost, each with the probability of the group it stood in *)
Theorem C04_source_markov_levels_split :
  forall (fo : LoaderRt.fops) (its : list (LoaderRt.rt_item (LoaderRt.F fo))),
  flat_map (@LoaderRt.it_values _) (split_levels fo its) = flat_map (@LoaderRt.it_values _) its /\
  (forall it, In it (split_levels fo its) ->
     exists v it0, LoaderRt.it_values it = [v] /\ In it0 its /\ In v (LoaderRt.it_values it0) /\
                   LoaderRt.it_prob it = LoaderRt.it_prob it0).
Proof. exact (@split_levels_groups). Qed.

(* the hypotheses are satisfiable and the translated _load_terminals runs (--skip_case, one alpha file, two
   capitalisation files, every file two groups): A1 holds the file's groups, C1 / C2 one all-lower group of
   probability 1.0 each, M one group per level *)
Theorem C04_source_load_terminals_example :
  cfg_view_ok gx_fo gx_world tt gx_view /\
  exists G, py_load_terminals gx_fo gx_world (VDict [(VStr k_encoding, VStr [117; 116; 102; 45; 56]%N)]) (VDict [])
              (VStr []) (VCfg tt) (VBool true) = XDone (VDict G, VBool true) /\
    dfind (VStr [65; 49]%N) G = Some (val_of_items [{| LoaderRt.it_values := [[97%N]; [98%N]]; LoaderRt.it_prob := 1%Z |};
                                                     {| LoaderRt.it_values := [[99%N]]; LoaderRt.it_prob := 0%Z |}]) /\
    dfind (VStr [67; 49]%N) G = Some (val_of_items [lower_group gx_fo 1]) /\
    dfind (VStr [67; 50]%N) G = Some (val_of_items [lower_group gx_fo 2]) /\
    dfind (VStr k_M) G = Some (val_of_items [{| LoaderRt.it_values := [[97%N]]; LoaderRt.it_prob := 1%Z |};
                                             {| LoaderRt.it_values := [[98%N]]; LoaderRt.it_prob := 1%Z |};
                                             {| LoaderRt.it_values := [[99%N]]; LoaderRt.it_prob := 0%Z |}]).
Proof. exact load_terminals_example. Qed.

Print Assumptions C04_source_load_terminals_is_model.
Print Assumptions C04_source_terminal_group_same_prob.
Print Assumptions C04_source_skip_case_one_group.
Print Assumptions C04_source_markov_levels_split.
