(* C04 placeholder until ExpandProofs lands: the model is total on slots *)
From Pcfg Require Import Expand.
Theorem C04_model_defined : forall up om, expand up om nil nil None = None.
Proof. reflexivity. Qed.
