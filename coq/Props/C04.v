(* C04 - a pre-terminal expands to exactly the product of its terminal groups.
   Property theorems only (proofs in ExpandProofs.v). *)
From Coq Require Import List Arith NArith.
From Coq Require Import ZArith.
From Pcfg Require Import Expand ExpandProofs.
From Pcfg Require Import KernelRt ExpandRt ExpandGenProofs.
From PcfgGen Require Import Expand_gen.
From Coq Require Import Floats.
From Pcfg Require TextFile LoaderRt.
From Pcfg Require Import LoaderGenProofs.
From PcfgGen Require Import Loader_gen.
Import ListNotations.

(* well-formed pre-terminal (every C_n follows an A_n, words and masks have n > 0
   characters, no empty group): the printed lines are the product, in structure
   order, with each mask applied to the word before it; the count is their number *)
Theorem C04_expand_is_product :
  forall (upper_c : N -> str) (omen : str -> list str) segs cur,
  segs <> [] -> Forall seg_ok' segs ->
  expand upper_c omen (flat_map slots_of segs) cur None =
    Some (map (app cur) (denote upper_c segs), length (denote upper_c segs)).
Proof. exact (fun u o segs cur => C04_expand_is_product_cur u o segs cur). Qed.

(* zero-length alpha groups are excluded for a reason: cur[:-0] is "" in Python *)
Theorem C04_refuted_zero_length_alpha :
  forall (upper_c : N -> str) (omen : str -> list str),
  segs_refute <> [] /\ Forall seg_ok segs_refute /\
  expand upper_c omen (flat_map slots_of segs_refute) [] None <>
    Some (denote upper_c segs_refute, length (denote upper_c segs_refute)).
Proof.
  intros u o. destruct (C04_expand_is_product_refuted u o) as (H1 & H2 & _ & _ & H5).
  exact (conj H1 (conj H2 H5)).
Qed.

(* the count the guesser reports is the number of lines it wrote, for ANY parse tree *)
Theorem C04_count_is_lines :
  forall (upper_c : N -> str) (omen : str -> list str) pt cur l out k,
  expand upper_c omen pt cur l = Some (out, k) -> k = length out.
Proof. exact C04_count_is_lines. Qed.

(* --limit N inside a pre-terminal: exactly the first N lines *)
Theorem C04_limit :
  forall (upper_c : N -> str) (omen : str -> list str) segs cur n,
  segs <> [] -> Forall seg_ok' segs -> n >= 1 ->
  expand upper_c omen (flat_map slots_of segs) cur (Some n) =
    Some (firstn n (map (app cur) (denote upper_c segs)), Nat.min n (length (denote upper_c segs))).
Proof. exact (fun u o segs cur n => C04_limit u o segs cur n). Qed.

Theorem C04_limit_zero_means_unlimited :
  forall (upper_c : N -> str) (omen : str -> list str) pt cur,
  expand upper_c omen pt cur (Some 0) = expand upper_c omen pt cur None.
Proof. exact C04_limit_zero_is_none. Qed.

(* every combination once: the product has the product of the group sizes,
   an alpha segment contributes |words| * |masks| choices *)
Theorem C04_each_once :
  forall (upper_c : N -> str) segs,
  length (denote upper_c segs) = fold_right Nat.mul 1 (map (fun s => length (seg_choices upper_c s)) segs).
Proof. exact C04_each_once. Qed.
Theorem C04_alpha_choices :
  forall (upper_c : N -> str) ws ms, length (seg_choices upper_c (SegAlpha ws ms)) = length ws * length ms.
Proof. exact C04_alpha_choices. Qed.

(* a Markov pre-terminal prints the strings of its level (first value of the
   group only - which is why the loader must keep one level per group) *)
Theorem C04_markov :
  forall (upper_c : N -> str) (omen : str -> list str) lv more cur l,
  expand upper_c omen [{| scat := CatM; svals := lv :: more |}] cur l =
    Some (omen_emit omen lv l, length (omen_emit omen lv l)).
Proof. exact C04_markov. Qed.

(* non-vacuity: 2 x (2 words x 2 masks) x 3 = 24 guesses, by computation *)
Theorem C04_example : expand up_ascii (fun _ => []) (flat_map slots_of segs_ex) [] None =
                      Some (denote up_ascii segs_ex, 24).
Proof. exact C04_example_product. Qed.

(* ---- second tie to the source: gen/Expand_gen.v is the translation of the Python text
   of omen_generate_guesses, _recursive_guesses and create_guesses
   (harness/translate_expand.py, redone on every run).  It equals the model the theorems
   above are about: for every upper_c, every grammar lookup gv (self.grammar[t][i]['values'],
   None = KeyError / IndexError), every int() and MarkovCracker oracle, every parse tree
   all of whose nodes resolve (variable name non-empty, group exists), every limit None / n >= 0,
   and any fuel > len(pt).  The model's None (IndexError) is Exc LookupError.  should_exit
   is False (nobody asked to quit). *)
Theorem C04_source_recursive_guesses_is_model :
  forall (upper_c : N -> pstr) (gv : pstr -> Z -> option (list pstr)) (py_int : pstr -> Z) (mcr : Z -> list pstr)
         (pt : list pnode) (slots : list slot),
  resolve gv pt = Some slots ->
  forall (fuel : nat) (cur : str) (l : lim), length pt < fuel ->
  py_recursive_guesses upper_c gv py_int mcr false fuel cur pt (zlim l) =
  lift (expand upper_c (omen_of py_int mcr) slots cur l).
Proof. exact recursive_guesses_eq. Qed.

Theorem C04_source_create_guesses_is_model :
  forall (upper_c : N -> pstr) (gv : pstr -> Z -> option (list pstr)) (py_int : pstr -> Z) (mcr : Z -> list pstr)
         (honey : pstr -> list pnode -> option Z -> res (list pstr * Z))
         (pt : list pnode) (slots : list slot) (fuel : nat) (l : lim),
  resolve gv pt = Some slots -> length pt < fuel ->
  py_create_guesses upper_c gv py_int mcr false honey fuel pt false (zlim l) =
  lift (expand upper_c (omen_of py_int mcr) slots [] l).
Proof. exact create_guesses_eq. Qed.

Theorem C04_source_omen_generate_guesses_is_model :
  forall (gs : list str) (l : lim),
  py_omen_generate_guesses false gs (zlim l) = Ok (lim_take l gs, Z.of_nat (length (lim_take l gs))).
Proof. exact omen_generate_guesses_eq. Qed.

(* the fuel of the generated recursion (no counterpart in Python) is never exhausted:
   for ALL inputs - any parse tree (resolvable or not), any limit (also negative ints),
   any value of should_exit - len(pt) + 1 levels are enough *)
Theorem C04_source_never_out_of_fuel :
  forall (upper_c : N -> pstr) (gv : pstr -> Z -> option (list pstr)) (py_int : pstr -> Z) (mcr : Z -> list pstr)
         (should_exit : bool) (pt : list pnode) (fuel : nat) (cur : pstr) (limit : option Z),
  length pt < fuel ->
  py_recursive_guesses upper_c gv py_int mcr should_exit fuel cur pt limit <> Exc OutOfFuel.
Proof. exact recursive_guesses_never_out_of_fuel. Qed.

Theorem C04_source_create_guesses_never_out_of_fuel :
  forall (upper_c : N -> pstr) (gv : pstr -> Z -> option (list pstr)) (py_int : pstr -> Z) (mcr : Z -> list pstr)
         (should_exit : bool) (honey : pstr -> list pnode -> option Z -> res (list pstr * Z))
         (pt : list pnode) (fuel : nat) (limit : option Z),
  length pt < fuel ->
  py_create_guesses upper_c gv py_int mcr should_exit honey fuel pt false limit <> Exc OutOfFuel.
Proof. exact create_guesses_never_out_of_fuel. Qed.

(* the product theorem, the count and the Markov clause for the translated create_guesses *)
Theorem C04_source_create_guesses_is_product :
  forall (upper_c : N -> pstr) (gv : pstr -> Z -> option (list pstr)) (py_int : pstr -> Z) (mcr : Z -> list pstr)
         (honey : pstr -> list pnode -> option Z -> res (list pstr * Z))
         (segs : list seg) (pt : list pnode) (fuel : nat),
  segs <> [] -> Forall seg_ok' segs ->
  resolve gv pt = Some (flat_map slots_of segs) -> length pt < fuel ->
  py_create_guesses upper_c gv py_int mcr false honey fuel pt false None =
  Ok (denote upper_c segs, Z.of_nat (length (denote upper_c segs))).
Proof. exact source_create_guesses_is_product. Qed.

Theorem C04_source_count_is_lines :
  forall (upper_c : N -> pstr) (gv : pstr -> Z -> option (list pstr)) (py_int : pstr -> Z) (mcr : Z -> list pstr)
         (honey : pstr -> list pnode -> option Z -> res (list pstr * Z))
         (pt : list pnode) (slots : list slot) (fuel : nat) (l : lim) (out : list pstr) (k : Z),
  resolve gv pt = Some slots -> length pt < fuel ->
  py_create_guesses upper_c gv py_int mcr false honey fuel pt false (zlim l) = Ok (out, k) ->
  k = Z.of_nat (length out).
Proof. exact source_create_guesses_count. Qed.

Theorem C04_source_markov :
  forall (upper_c : N -> pstr) (gv : pstr -> Z -> option (list pstr)) (py_int : pstr -> Z) (mcr : Z -> list pstr)
         (honey : pstr -> list pnode -> option Z -> res (list pstr * Z))
         (name : pstr) (idx : Z) (lv : pstr) (more : list pstr) (fuel : nat) (l : lim),
  gv (77%N :: name) idx = Some (lv :: more) -> 1 < fuel ->
  py_create_guesses upper_c gv py_int mcr false honey fuel [(77%N :: name, idx)] false (zlim l) =
  Ok (lim_take l (mcr (py_int lv)), Z.of_nat (length (lim_take l (mcr (py_int lv))))).
Proof. exact source_create_guesses_markov. Qed.

(* non-vacuity: the example above as a parse tree over a four-variable grammar; the
   hypotheses hold and the translated create_guesses computes the 24 guesses *)
Theorem C04_source_example :
  resolve gv_ex pt_ex = Some (flat_map slots_of segs_ex) /\
  (segs_ex <> [] /\ Forall seg_ok' segs_ex /\ length pt_ex < 5) /\
  py_create_guesses up_ascii gv_ex int_ex mcr_ex false honey_ex 5 pt_ex false None =
    Ok (denote up_ascii segs_ex, 24%Z).
Proof. exact (conj source_example_resolves (conj source_example_wellformed source_example_product)). Qed.

(* ---- "all values that share a group have the same probability in the ruleset".  On the model
   reader: every value of a group stood in the file with the probability reported for the group
   (the group's first line) or one == to it, and every accepted line is in such a group ... *)
Theorem C04_group_same_prob :
  forall l : list (TextFile.str * PrimFloat.float),
  (forall g v, In g (TextFile.group_by_prob l) -> In v (TextFile.gvals g) ->
     exists q, In (v, q) l /\ same_prob q (TextFile.gprob g)) /\
  (forall v q, In (v, q) l ->
     exists g, In g (TextFile.group_by_prob l) /\ In v (TextFile.gvals g) /\ same_prob q (TextFile.gprob g)).
Proof. exact group_by_prob_same_prob. Qed.

(* ... and over gen/Loader_gen.v, the translation of the Python text of lib_guesser/grammar_io.py
   _load_from_file (harness/translate_loader.py, redone on every run): when it returns True, the
   groups it built and the lines it accepted ([its]: the model's items, skip-next-line recovery
   included) are related in the same way, for every file, whitespace class, float() and codec *)
Theorem C04_source_group_same_prob :
  forall (ws : N -> bool) (pfloat : LoaderRt.pstr -> option PrimFloat.float) (encb : N -> bool) (reason : LoaderRt.pstr)
         (copen : LoaderRt.pstr -> LoaderRt.pstr -> option LoaderRt.pstr -> option (list LoaderRt.pstr)) (filename encoding : LoaderRt.pstr)
         (lines : list LoaderRt.pstr) gs,
  copen filename encoding (Some surrogateescape) = Some lines ->
  py_load_from_file F64ops ws pfloat (enc_of encb reason) copen [] filename encoding = LoaderRt.Done (gs, true) ->
  exists its, TextFile.guesser_items ws pfloat encb (onfail_of_reason reason) lines false = Some its /\
    (forall it v, In it gs -> In v (LoaderRt.it_values it) -> exists q, In (v, q) its /\ same_prob q (LoaderRt.it_prob it)) /\
    (forall v q, In (v, q) its -> exists it, In it gs /\ In v (LoaderRt.it_values it) /\ same_prob q (LoaderRt.it_prob it)).
Proof. exact source_groups_same_prob. Qed.

(* non-vacuity: three lines, the first two with the same probability: two groups *)
Theorem C04_source_group_example :
  py_load_from_file F64ops ex_ws ex_pfloat (enc_of (fun _ => true) []) (fun _ _ _ => Some
      [[97; 9; 48; 46; 53; 10]; [98; 9; 48; 46; 53; 10]; [99; 9; 48; 46; 50; 53; 10]]%N) [] [] [] =
  LoaderRt.Done ([{| LoaderRt.it_values := [[97]; [98]]%N; LoaderRt.it_prob := 0.5%float |};
                  {| LoaderRt.it_values := [[99]]%N; LoaderRt.it_prob := 0.25%float |}], true).
Proof. vm_compute. reflexivity. Qed.

Print Assumptions C04_expand_is_product.
Print Assumptions C04_group_same_prob.
Print Assumptions C04_source_group_same_prob.
Print Assumptions C04_limit.
Print Assumptions C04_count_is_lines.
Print Assumptions C04_source_recursive_guesses_is_model.
Print Assumptions C04_source_create_guesses_is_product.
Print Assumptions C04_source_never_out_of_fuel.
