(* C06 - the saved grammar is the relative-frequency model of the segmentation.
   Property theorems only (models: theories/Counters.v, TextFile.v; proofs:
   CountersProofs.v, IoFacts.v, IoFloatFacts.v).  Exact arithmetic over Q
   (QNum); the binary64 instance (FNum) of the SAME generic definitions is what
   the correspondence compares hex-exactly with the files. *)
From Coq Require Import String Ascii.
From Coq Require Import List NArith ZArith QArith Bool Floats Permutation Sorted.
From Pcfg Require Import ProbAlg F64 TextFile Counters CountersProofs LtallyProofs IoFloatFacts CountersF64 IoFacts.
From Pcfg Require Import SmallGenProofsProbs.
From PcfgGen Require Import Small_probs_gen.
From Pcfg Require Import WriterRt WriterSpec WriterGenProofsStruct WriterGenProofs.
From PcfgGen Require Import WriterStruct_gen Writer_gen.
Import ListNotations.

(* A list written from the tally of an item sequence: the lines are
   (v, count v / total) in most_common order; every item of the segmentation is
   present exactly once; the probability is count / number of items; the list
   is sorted non-increasing; items of equal count keep first-seen order (the
   keys of the counter are the first occurrences, in order). *)
Theorem C06_each_once_sorted : forall items : list str, items <> [] ->
  let c := @of_counts QNum (tally items) in
  let file := calc_probs c in
  file = map (fun kv => (fst kv, (snd kv / total c)%Q)) (most_common c) /\
  Permutation (most_common c) c /\
  NoDup (map fst file) /\
  (forall v, In v (map fst file) <-> In v items) /\
  (forall v p, In (v, p) file ->
     (p == inject_Z (Z.of_nat (count_str v items)) / inject_Z (Z.of_nat (length items)))%Q) /\
  StronglySorted (fun a b => (snd b <= snd a)%Q) file /\
  (forall q : Q, filter (fun kv => Qeq_bool (snd kv) q) (most_common c) = filter (fun kv => Qeq_bool (snd kv) q) c) /\
  map fst c = nodup_first items.
Proof. exact each_once_sorted. Qed.

(* the length-indexed counters (Alpha, Capitalization, Digits, Other, Keyboard:
   one file per length): the lengths are in first-seen order, the counter of a
   length is the tally of the items of that length (so C06_each_once_sorted
   applies to every file), every item is in the counter of its length and in no
   other *)
Theorem C06_length_indexed : forall l : list str,
  ltally l = map (fun n => (n, tally (filter (len_is n) l))) (nodup_first_N (map slen l)) /\
  NoDup (map fst (ltally l)) /\
  (forall n c, In (n, c) (ltally l) -> c = tally (filter (len_is n) l) /\ c <> []) /\
  (forall k, In k l -> exists c, In (slen k, c) (ltally l) /\ In k (map fst c)) /\
  (forall n c k, In (n, c) (ltally l) -> In k (map fst c) -> In k l /\ slen k = n).
Proof.
  exact (fun l => conj (ltally_spec l) (conj (ltally_keys_nodup l) (conj (ltally_entry l)
                  (conj (ltally_item_present l) (ltally_items_have_length l))))).
Qed.

(* the same for ANY counter (e.g. the base structures with the Markov pseudo-count) *)
Theorem C06_any_counter : forall (O : numops) (c : counter O),
  calc_probs c = map (fun kv => (fst kv, ndiv O (snd kv) (total c))) (most_common c) /\
  Permutation (most_common c) c /\
  (NoDup (map fst c) -> NoDup (map fst (calc_probs c))) /\
  (forall k, In k (map fst (calc_probs c)) <-> In k (map fst c)).
Proof.
  exact (fun O c => conj (calc_probs_eq O c) (conj (most_common_perm O c)
                   (conj (calc_probs_keys_nodup O c) (calc_probs_keys_in O c)))).
Qed.

Theorem C06_sum_one_Q :
  (forall c : counter QNum, ~ (total c == 0)%Q -> (qsum (map snd (calc_probs c)) == 1)%Q) /\
  (forall items : list str, items <> [] -> (qsum (map snd (calc_probs (@of_counts QNum (tally items)))) == 1)%Q).
Proof. exact sum_one_Q. Qed.

(* coverage 1: no M; coverage 0: M is the only structure; otherwise M gets
   N/coverage - N = N*(1/coverage - 1), appended after the trained structures,
   and (when every password is supported) probability exactly 1 - coverage *)
Theorem C06_markov_count : forall (cov : Q) (n : N) (c : counter QNum),
  ((cov == 1)%Q -> @with_markov QNum cov n c = c) /\
  ((cov == 0)%Q -> @with_markov QNum cov n c = [(M_key, 1%Q)]) /\
  (~ (cov == 1)%Q -> ~ (cov == 0)%Q ->
     @with_markov QNum cov n c = dict_set M_key (inject_Z (Z.of_N n) / cov - inject_Z (Z.of_N n))%Q c /\
     (inject_Z (Z.of_N n) / cov - inject_Z (Z.of_N n) == inject_Z (Z.of_N n) * (1 / cov - 1))%Q /\
     (~ In M_key (map fst c) ->
        @with_markov QNum cov n c = c ++ [(M_key, (inject_Z (Z.of_N n) / cov - inject_Z (Z.of_N n))%Q)])) /\
  ((0 < cov)%Q -> (cov < 1)%Q -> (0 < n)%N -> ~ In M_key (map fst c) -> (total c == inject_Z (Z.of_N n))%Q ->
     exists p, In (M_key, p) (calc_probs (@with_markov QNum cov n c)) /\ (p == 1 - cov)%Q).
Proof. exact markov_count. Qed.

(* structures with an e-mail (E) or website (W) segment are counted in the raw
   list only; grammar.txt never shows an 'E' or a 'W' *)
Theorem C06_unsupported_only_raw : forall pws : list (list str),
  (forall s, In s (map fst (sc_base (count_structs pws))) ->
     exists ls, In ls pws /\ supported ls = true /\ s = structure ls) /\
  (forall ls, In ls pws -> supported ls = true -> In (structure ls) (map fst (sc_base (count_structs pws)))) /\
  (forall ls, In ls pws -> In (structure ls) (map fst (sc_raw (count_structs pws)))) /\
  (Forall (fun ls => forallb wf_label ls = true) pws ->
     forall s, In s (map fst (sc_base (count_structs pws))) -> ~ In 69%N s /\ ~ In 87%N s) /\
  (forall ls, In ls pws -> supported ls = false -> In 69%N (structure ls) \/ In 87%N (structure ls)) /\
  sc_base (count_structs pws) = tally (map structure (filter supported pws)) /\
  sc_raw (count_structs pws) = tally (map structure pws) /\
  sc_prince (count_structs pws) = tally (List.concat pws).
Proof. exact unsupported_only_raw. Qed.

(* the writer is a function of the counters and the options; the uuid is the
   only other input; previous folder contents are irrelevant *)
Theorem C06_deterministic : forall (O : numops) P sens (cov : num O) n u1 u2,
  ro_files O (run_model O P sens cov n u1) = ro_files O (run_model O P sens cov n u2) /\
  ro_lists O (run_model O P sens cov n u1) = ro_lists O (run_model O P sens cov n u2) /\
  (forall old old' (cs : list (str * counter O)), save_indexed old cs = save_indexed old' cs).
Proof. exact deterministic. Qed.

(* binary64: dividing counts by their common positive total keeps the order
   and lands in [0,1] (feeds the wf hypothesis of C01) *)
Theorem C06_F64_division_monotone : forall a b t : PrimFloat.float, okF a -> okF b -> okF t ->
  (0 <? t)%float = true -> (a <=? b)%float = true -> (b <=? t)%float = true ->
  (a / t <=? b / t)%float = true /\ unitF (b / t).
Proof. exact (fun a b t Ha Hb Ht H0 Hab Hbt => conj (pdiv_mono_F a b t Ha Hb Ht H0 Hab Hbt) (pdiv_unit_F b t Hb Ht H0 Hbt)). Qed.

(* binary64, whole list: what calculate_probabilities writes from finite
   non-negative counts not exceeding their positive total is sorted
   non-increasing with every probability in [0,1] (the shape C01's wf assumes
   of a loaded list); the hypotheses are evaluated on every trained counter by
   the correspondence (IoCorr.check_counter_file / check_struct_files) *)
Theorem C06_F64_sorted_unit : forall c : counter FNum,
  Forall (fun kv => okbF (snd kv) = true /\ (snd kv <=? total c)%float = true) c ->
  okbF (total c) = true -> (0 <? total c)%float = true ->
  Sorted prob_desc (calc_probs c) /\ Forall (fun kv => unitbF (snd kv) = true) (calc_probs c).
Proof. exact calc_probs_F64_wf. Qed.

Theorem C06_F64_example :
  let c : counter FNum := [([97], 2%float); ([98], 2%float); ([99], 1%float)]%N in
  Forall (fun kv => okbF (snd kv) = true /\ (snd kv <=? total c)%float = true) c /\
  okbF (total c) = true /\ (0 <? total c)%float = true /\
  map snd (calc_probs c) = [0x1.999999999999ap-2%float; 0x1.999999999999ap-2%float; 0x1.999999999999ap-3%float].
Proof. exact calc_probs_F64_demo. Qed.

(* the hypotheses are satisfiable on non-trivial instances: a tally with a tie,
   its probabilities 2/5 2/5 1/5 summing to 1; coverage 3/5 gives P(M) = 2/5 *)
Theorem C06_example_tally : tally ex_items = [([65;49], 2); ([68;50], 2); ([79;49], 1)]%N.
Proof. exact ex_tally. Qed.
Theorem C06_example_hypotheses :
  ex_items <> [] /\ ~ (total (@of_counts QNum (tally ex_items)) == 0)%Q /\ (0 < total (@of_counts QNum (tally ex_items)))%Q.
Proof. exact ex_hyps. Qed.

(* ---- translator tie: the Python text of calculate_probabilities
   (lib_trainer/calculate_probabilities.py), translated on every run into
   gen/Small_probs_gen.v, IS the model's calc_probs - for every number structure
   (Q and binary64), every counter and every value of a subscript that raises ---- *)
Theorem C06_source_calculate_probabilities_is_model :
  forall (O : numops) (nmul : num O -> num O -> num O) (undef_pair : str * num O) (c : counter O),
  py_calculate_probabilities nmul undef_pair c = calc_probs c.
Proof. exact (@small_calc_probs_eq). Qed.

(* the main statements transported to the source *)
Theorem C06_source_each_once_sorted : forall (nmul : Q -> Q -> Q) (undef_pair : str * Q) (items : list str), items <> [] ->
  let c := @of_counts QNum (tally items) in
  let file := @py_calculate_probabilities QNum nmul undef_pair c in
  file = map (fun kv => (fst kv, (snd kv / total c)%Q)) (most_common c) /\
  Permutation (most_common c) c /\
  NoDup (map fst file) /\
  (forall v, In v (map fst file) <-> In v items) /\
  (forall v p, In (v, p) file ->
     (p == inject_Z (Z.of_nat (count_str v items)) / inject_Z (Z.of_nat (length items)))%Q) /\
  StronglySorted (fun a b => (snd b <= snd a)%Q) file /\
  (forall q : Q, filter (fun kv => Qeq_bool (snd kv) q) (most_common c) = filter (fun kv => Qeq_bool (snd kv) q) c) /\
  map fst c = nodup_first items.
Proof. exact small_each_once_sorted. Qed.

Theorem C06_source_sum_one_Q : forall (nmul : Q -> Q -> Q) (undef_pair : str * Q) (c : counter QNum),
  ~ (total c == 0)%Q -> (qsum (map snd (@py_calculate_probabilities QNum nmul undef_pair c)) == 1)%Q.
Proof. exact small_sum_one_Q. Qed.

Theorem C06_source_F64_sorted_unit : forall (nmul : PrimFloat.float -> PrimFloat.float -> PrimFloat.float) (undef_pair : str * PrimFloat.float) (c : counter FNum),
  Forall (fun kv => okbF (snd kv) = true /\ (snd kv <=? total c)%float = true) c ->
  okbF (total c) = true -> (0 <? total c)%float = true ->
  Sorted prob_desc (@py_calculate_probabilities FNum nmul undef_pair c) /\
  Forall (fun kv => unitbF (snd kv) = true) (@py_calculate_probabilities FNum nmul undef_pair c).
Proof. exact small_F64_sorted_unit. Qed.

Example C06_source_F64_example :
  let c : counter FNum := [([97], 2%float); ([98], 2%float); ([99], 1%float)]%N in
  @py_calculate_probabilities FNum PrimFloat.mul ([], 0%float) c =
  [([97], 0x1.999999999999ap-2%float); ([98], 0x1.999999999999ap-2%float); ([99], 0x1.999999999999ap-3%float)]%N.
Proof. exact small_F64_example. Qed.

(* ---- translator tie (harness/translate_writer.py, gen/WriterStruct_gen.v): the Python text of
   base_structure_creation (lib_trainer/base_structure.py), prince_evaluation
   (lib_trainer/prince_metrics.py), the tail of PCFGPasswordParser.parse that counts the
   structure, and the Markov block of run_trainer, translated on every run, ARE the model's
   supported / structure, PRINCE tally, count_one and with_markov ---- *)

(* on a section list whose sections are labelled (what the detectors leave) *)
Theorem C06_source_base_structure_creation_is_model : forall sl : list section, Forall labelled sl ->
  py_base_structure_creation sl = Ok (supported (labels_of sl), structure (labels_of sl)).
Proof. exact struct_base_structure_creation_eq. Qed.

(* a section without a label: the function raises, no structure is counted *)
Theorem C06_source_base_structure_creation_raises : forall sl : list section,
  (exists s, In s sl /\ ~ labelled s) -> exists e, py_base_structure_creation sl = Raise e.
Proof. exact struct_base_structure_creation_raises. Qed.

Theorem C06_source_prince_evaluation_is_model : forall (c : list (str * N)) (sl : list section),
  py_prince_evaluation c sl = Ok (fold_left (fun c l => incr l c) (labels_of sl) c).
Proof. exact struct_prince_evaluation_eq. Qed.

Theorem C06_source_parse_tail_is_model : forall (p b r : list (str * N)) (sl : list section), Forall labelled sl ->
  let s' := count_one {| sc_base := b; sc_raw := r; sc_prince := p |} (labels_of sl) in
  py_parse_tail p b r sl = Ok (true, sc_prince s', sc_base s', sc_raw s').
Proof. exact struct_parse_tail_eq. Qed.

(* with OMEN n-grams the block goes on with the model's counter; without them and with a
   coverage other than 1 run_trainer returns False before anything is saved *)
Theorem C06_source_markov_block_is_model : forall (O : numops) (cov : num O) (n : N) (omen c : counter O),
  (omen <> [] -> py_run_trainer_markov_block cov n omen c = Norm (with_markov cov n c)) /\
  py_run_trainer_markov_block cov n [] c = (if neqb O cov (none O) then Norm c else Retn false).
Proof. exact (fun O cov n omen c => conj (struct_markov_block_eq O cov n omen c) (struct_markov_block_no_omen O cov n c)). Qed.

(* the calls of run_trainer, in the order of the source: N is file_input.num_passwords of a
   finished pass, one parser, its pass, the Markov block, then save_pcfg_data(base_directory,
   pcfg_parser, program_info['encoding'], program_info['save_sensitive']) *)
Theorem C06_source_run_trainer_order : events_ok py_run_trainer_events = true.
Proof. exact struct_run_trainer_events_ok. Qed.

(* C06_markov_count over the translated block *)
Theorem C06_source_markov_count : forall (cov : Q) (n : N) (omen c : counter QNum), omen <> [] ->
  exists c', @py_run_trainer_markov_block QNum cov n omen c = Norm c' /\
  ((cov == 1)%Q -> c' = c) /\
  ((cov == 0)%Q -> c' = [(M_key, 1%Q)]) /\
  (~ (cov == 1)%Q -> ~ (cov == 0)%Q ->
     c' = dict_set M_key (inject_Z (Z.of_N n) / cov - inject_Z (Z.of_N n))%Q c /\
     (inject_Z (Z.of_N n) / cov - inject_Z (Z.of_N n) == inject_Z (Z.of_N n) * (1 / cov - 1))%Q /\
     (~ In M_key (map fst c) -> c' = c ++ [(M_key, (inject_Z (Z.of_N n) / cov - inject_Z (Z.of_N n))%Q)])) /\
  ((0 < cov)%Q -> (cov < 1)%Q -> (0 < n)%N -> ~ In M_key (map fst c) -> (total c == inject_Z (Z.of_N n))%Q ->
     exists p, In (M_key, p) (calc_probs c') /\ (p == 1 - cov)%Q).
Proof. exact struct_markov_count. Qed.

(* C06_unsupported_only_raw over the translated tail of parse, folded over the passwords *)
Theorem C06_source_unsupported_only_raw : forall pws : list (list section), Forall (Forall labelled) pws ->
  let S := fold_tail py_parse_tail pws in
  let L := map labels_of pws in
  (forall s, In s (map fst (sc_base S)) -> exists ls, In ls L /\ supported ls = true /\ s = structure ls) /\
  (forall ls, In ls L -> supported ls = true -> In (structure ls) (map fst (sc_base S))) /\
  (forall ls, In ls L -> In (structure ls) (map fst (sc_raw S))) /\
  (Forall (fun ls => forallb wf_label ls = true) L ->
     forall s, In s (map fst (sc_base S)) -> ~ In 69%N s /\ ~ In 87%N s) /\
  (forall ls, In ls L -> supported ls = false -> In 69%N (structure ls) \/ In 87%N (structure ls)) /\
  sc_base S = tally (map structure (filter supported L)) /\
  sc_raw S = tally (map structure L) /\
  sc_prince S = tally (List.concat L).
Proof. exact struct_unsupported_only_raw. Qed.

(* the hypotheses are satisfiable and the generated functions run *)
Example C06_source_struct_example :
  let l1 : list section := [([112;97;115;115], Some [65;52]); ([33], Some [79;49]); ([49;50], Some [68;50])]%N in
  let l2 : list section := [([97;64;98;46;99;111;109], Some [69])]%N in
  Forall (Forall labelled) [l1; l2] /\
  py_base_structure_creation l1 = Ok (true, [65;52;79;49;68;50]%N) /\
  py_base_structure_creation l2 = Ok (false, [69]%N) /\
  sc_base (fold_tail py_parse_tail [l1; l2]) = [([65;52;79;49;68;50], 1)]%N /\
  sc_raw (fold_tail py_parse_tail [l1; l2]) = [([65;52;79;49;68;50], 1); ([69], 1)]%N /\
  @py_run_trainer_markov_block QNum (3 # 5)%Q 3 [([49]%N, 1%Q)] [([65;52]%N, 3%Q)] = Norm [([65;52]%N, 3%Q); ([77]%N, (3 / (3 # 5) - 3)%Q)].
Proof. exact struct_example. Qed.

(* ---- translator tie (gen/Writer_gen.v): the Python text of calculate_and_save_counter,
   save_indexed_counters and save_pcfg_data (lib_trainer/save_pcfg_data.py), translated on every
   run, with the translated calculate_probabilities, over the file system of WriterRt.v (a map from
   paths to text; os.walk + os.unlink; the codec as the oracle encb; str(float) as the oracle repr) ---- *)

(* the file is created or truncated and holds str(value) TAB str(count / total) LF for the items in
   most_common order; a line the codec cannot encode ends the writing, the function returns False *)
Theorem C06_source_calculate_and_save_counter_is_model :
  forall (O : numops) (repr : num O -> str) (encb : str -> N -> bool) (nmul : num O -> num O -> num O) (ud : str * num O)
         (p : path) (c : counter O) (enc : str) (fs : fsys),
  py_calculate_and_save_counter repr encb (py_calculate_probabilities nmul ud) p c enc fs =
  if encodable repr encb enc (calc_probs c) then (Ok true, fs_set p (write_text repr (calc_probs c)) fs)
  else (Ok false, fs_set p (write_text repr (encodable_prefix repr encb enc (calc_probs c))) fs).
Proof. exact (@source_save_counter_eq). Qed.

(* binary64: that text is TextFile.write_file, the writer C07's round trips are about *)
Theorem C06_source_text_is_write_file : forall (repr : float -> str) (l : list (str * float)),
  @write_text FNum repr l = write_file repr l.
Proof. exact write_text_F64. Qed.

(* the folder is emptied at every depth (whatever it held), then holds one file per key, named
   str(key).txt, with the lines of its counter: Counters.save_indexed; the rest of the disk stays *)
Theorem C06_source_save_indexed_counters_is_model :
  forall (O : numops) (repr : num O -> str) (encb : str -> N -> bool) (nmul : num O -> num O -> num O) (ud : str * num O)
         (folder : path) (cl : list (pykey * counter O)) (enc : str) (fs : fsys),
  fs_wf fs ->
  (all_encodable repr encb enc cl = true ->
   py_save_indexed_counters repr encb (py_calculate_probabilities nmul ud) folder cl enc fs =
   (Ok true, fs_install folder (folder_texts repr (save_indexed [] (str_keys cl))) fs)) /\
  (all_encodable repr encb enc cl = false ->
   exists fs', py_save_indexed_counters repr encb (py_calculate_probabilities nmul ud) folder cl enc fs = (Ok false, fs')).
Proof. exact (@source_save_indexed_eq). Qed.

(* the whole ruleset is Counters.save_pcfg_data, installed folder by folder below the base directory *)
Theorem C06_source_save_pcfg_data_is_model :
  forall (O : numops) (repr : num O -> str) (encb : str -> N -> bool) (nmul : num O -> num O -> num O) (ud : str * num O)
         (base : path) (P : pcounters) (sens : bool) (cov : num O) (n : N) (enc : str) (fs : fsys),
  fs_wf fs ->
  let pp := parser_of O P (with_markov cov n (of_counts (sc_base (pc_structs P)))) in
  (ruleset_encodable repr encb enc (save_pcfg_data O P sens cov n) = true ->
   py_save_pcfg_data repr encb (py_calculate_probabilities nmul ud) base pp enc sens fs =
   (Ok true, install_all repr base (save_pcfg_data O P sens cov n) fs)) /\
  (ruleset_encodable repr encb enc (save_pcfg_data O P sens cov n) = false ->
   exists fs', py_save_pcfg_data repr encb (py_calculate_probabilities nmul ud) base pp enc sens fs = (Ok false, fs')).
Proof. exact (@source_save_pcfg_data_cases). Qed.

(* C06_each_once_sorted for the file the translated writer leaves on disk *)
Theorem C06_source_file_each_once_sorted : forall (repr : num QNum -> str) (encb : str -> N -> bool)
    (nmul : num QNum -> num QNum -> num QNum) (ud : str * num QNum)
    (p : path) (enc : str) (fs : fsys) (items : list str), items <> [] ->
  let c := @of_counts QNum (tally items) in
  @encodable QNum repr encb enc (calc_probs c) = true ->
  exists file : counter QNum,
    @py_calculate_and_save_counter QNum repr encb (@py_calculate_probabilities QNum nmul ud) p c enc fs =
      (Ok true, fs_set p (@write_text QNum repr file) fs) /\
    file = map (fun kv => (fst kv, (snd kv / total c)%Q)) (most_common c) /\
    Permutation (most_common c) c /\
    NoDup (map fst file) /\
    (forall v, In v (map fst file) <-> In v items) /\
    (forall v q, In (v, q) file ->
       (q == inject_Z (Z.of_nat (count_str v items)) / inject_Z (Z.of_nat (length items)))%Q) /\
    StronglySorted (fun a b => (snd b <= snd a)%Q) file /\
    (forall q : Q, filter (fun kv => Qeq_bool (snd kv) q) (most_common c) = filter (fun kv => Qeq_bool (snd kv) q) c) /\
    map fst c = nodup_first items.
Proof. exact source_file_each_once_sorted. Qed.

(* C06_length_indexed for the folder the translated writer leaves on disk: one file per length, in
   first-seen order, named <length>.txt, each the list of the items of that length *)
Theorem C06_source_length_indexed :
  forall (O : numops) (repr : num O -> str) (encb : str -> N -> bool) (nmul : num O -> num O -> num O) (ud : str * num O)
         (folder : path) (enc : str) (fs : fsys) (l : list str),
  fs_wf fs -> all_encodable repr encb enc (klkeys (ltally l)) = true ->
  exists fs', py_save_indexed_counters repr encb (py_calculate_probabilities nmul ud) folder (klkeys (ltally l)) enc fs = (Ok true, fs') /\
    fs_list folder fs' =
    map (fun n => (file_name (dec_of_N n), write_text repr (calc_probs (of_counts (tally (filter (len_is n) l))))))
        (nodup_first_N (map slen l)).
Proof. exact (@source_length_indexed). Qed.

(* the hypotheses are satisfiable and the generated writers run *)
Example C06_source_save_example :
  let repr : num QNum -> str := fun q => if Qeq_bool q (1 # 2) then [48;46;53]%N else [49;46;48]%N in
  let encb (enc : str) (c : N) : bool := N.ltb c 128 in
  let calc := @py_calculate_probabilities QNum Qmult ([], 0%Q) in
  let folder : path := [[82]; [65]]%N in
  let fs0 : fsys := [([[82]; [65]; [57;46;116;120;116]], [120]); ([[82]; [65]; [115]; [111]], [121]); ([[82]; [68]; [49]], [122])]%N in
  let cl : list (pykey * counter QNum) := [(KInt 1, [([97]%N, 1%Q); ([98]%N, 1%Q)]); (KInt 2, [([99;100]%N, 3%Q)])] in
  fs_wf fs0 /\ all_encodable repr encb [] cl = true /\
  py_save_indexed_counters repr encb calc folder cl [] fs0 =
    (Ok true, [([[82]; [68]; [49]], [122]);
               ([[82]; [65]; [49;46;116;120;116]], [97;9;48;46;53;10;98;9;48;46;53;10]);
               ([[82]; [65]; [50;46;116;120;116]], [99;100;9;49;46;48;10])]%N) /\
  fst (py_save_indexed_counters repr encb calc folder [(KInt 1, [([233]%N, 1%Q)])] [] fs0) = Ok false.
Proof. exact source_save_example. Qed.

Print Assumptions C06_source_calculate_and_save_counter_is_model.
Print Assumptions C06_source_save_indexed_counters_is_model.
Print Assumptions C06_source_save_pcfg_data_is_model.
Print Assumptions C06_source_file_each_once_sorted.
Print Assumptions C06_source_length_indexed.
Print Assumptions C06_source_base_structure_creation_is_model.
Print Assumptions C06_source_prince_evaluation_is_model.
Print Assumptions C06_source_parse_tail_is_model.
Print Assumptions C06_source_markov_block_is_model.
Print Assumptions C06_source_run_trainer_order.
Print Assumptions C06_source_markov_count.
Print Assumptions C06_source_unsupported_only_raw.
Print Assumptions C06_each_once_sorted.
Print Assumptions C06_source_calculate_probabilities_is_model.
Print Assumptions C06_source_each_once_sorted.
Print Assumptions C06_source_sum_one_Q.
Print Assumptions C06_source_F64_sorted_unit.
Print Assumptions C06_length_indexed.
Print Assumptions C06_sum_one_Q.
Print Assumptions C06_markov_count.
Print Assumptions C06_unsupported_only_raw.
Print Assumptions C06_deterministic.
Print Assumptions C06_F64_division_monotone.
Print Assumptions C06_F64_sorted_unit.

(* ---- translator tie of the trainer's orchestration (harness/translate_trainer_run.py, gen/TrainerRun_gen.v):
   the whole of run_trainer, print_statistics, PCFGPasswordParser.__init__ and trainer.py's
   parse_command_line, translated on every run.  "Files are written from the counters as parsed":
   for EVERY instantiation of the collaborators ---- *)
From Pcfg Require Import ProbAlg Pipeline TrainerRunRt TrainerRunModel TrainerRunProofs TrainerRunGenProofs TrainerRunGenFacts TrainerRunInst.
From PcfgGen Require Import TrainerRun_gen.

(* print_statistics (called between pass 3 and the writers) leaves the parser object exactly as it got it *)
Theorem C06_source_print_statistics_reads_only : forall (O : numops) (p : parser_obj O), py_print_statistics p = Ok p.
Proof. exact py_print_statistics_reads_only. Qed.

(* PCFGPasswordParser.__init__: the fifteen counters the writers read exist and start empty *)
Theorem C06_source_parser_starts_empty : forall O : numops, @py_PCFGPasswordParser_init O = empty_parser.
Proof. exact py_parser_init_is_empty. Qed.

(* a run that returns True: three completed passes over one sequence (passes_ok: ONE new parser, fed the sequence
   in pass 2, then print_statistics, nothing else); the parser the writers get is that parser with
   count_base_structures replaced by Counters.with_markov of it for the coverage of the run and N of pass 1
   (coverage 1, or OMEN n-grams exist); config.ini, the OMEN files and the PCFG files are written in this order,
   save_pcfg_data with the encoding and the save_sensitive option of the run *)
Theorem C06_source_writers_get_the_parsed_counters :
  forall (O : numops) (C : collab O) (pi : pinfo O) (base : path) (w w' : c_W C),
  py_run_trainer C pi base w = (Ok (Some true), w') ->
  exists (t : trained_objs C) (w1 w2 : c_W C),
    passes C pi w = Ok (inr t) /\ passes_ok C pi w t /\
    let view := c_pp_view C (to_parser t) in
    let pp := c_pp_update C (to_parser t)
                (set_po_count_base_structures view
                   (with_markov (pi_coverage pi) (to_n t) (po_count_base_structures view))) in
    (neqb O (pi_coverage pi) (none O) = true \/ c_ks_counter C (to_keyspace t) <> []) /\
    c_save_config_file C base (to_pinfo t) (to_reader t) pp w = (Ok true, w1) /\
    c_save_omen_rules_to_disk C (to_omen t) (to_keyspace t) (to_levels t) (to_n t) base (to_pinfo t) w1 = (Ok true, w2) /\
    c_save_pcfg_data C base pp (pi_encoding pi) (pi_save_sensitive pi) w2 = (Ok true, w').
Proof. exact (@source_run_true). Qed.

(* the collaborators instantiated with the component models (Reader.read_text over the file system of WriterRt.v,
   Segment.train / Segment.parse, the translated print_statistics, Markov block and save_pcfg_data; the OMEN side
   and the two other writers any functions that do not raise): when the translated run_trainer returns True, the
   trainer of the pipeline model succeeded on the sequence the reader yields, with N its length and the coverage /
   save_sensitive options of the run, and the disk is Counters.save_pcfg_data of ITS counters (Pipeline.save),
   installed folder by folder over the disk the other two writers left *)
Theorem C06_source_run_trainer_writes_the_model_ruleset :
  forall (A : palg) (R : parith A) (E : env) (path_of : str -> path) (rc : option str -> bool -> Reader.rcfg)
         (AGt OTt KSt : Type) ag_new ag_step ag_alpha ot_new ot_step ot_smooth ks_of level_of ks_counter
         (repr : num (ops_of R) -> str) (encb : str -> N -> bool) (calc : counter (ops_of R) -> counter (ops_of R))
         save_config save_omen (pi : pinfo (ops_of R)) (fs : fsys) (nm text : str),
  let PC := @pipe_collab A R E path_of rc AGt OTt KSt ag_new ag_step ag_alpha ot_new ot_step ot_smooth ks_of level_of
                         ks_counter repr encb calc save_config save_omen in
  pi_training_file pi = Some nm -> fs_get (path_of nm) fs = Some text ->
  (ostr_truthy (pi_multiword pi) = true -> exists mnm mtext, pi_multiword pi = Some mnm /\ fs_get (path_of mnm) fs = Some mtext) ->
  (e_mw_threshold E = 5%Z /\ e_mw_min_len E = 4%Z /\ e_mw_max_len E = 21%Z) ->
  reader_agrees E rc ->
  let rd := Reader.read_text (rc (pi_encoding pi) (pi_prefixcount pi)) text in
  Reader.npw rd = Z.of_nat (length (Reader.out rd)) ->
  (forall c, calc c = calc_probs c) -> fs_wf fs ->
  (forall b p f po w, fs_wf w -> fs_wf (snd (save_config b p f po w))) ->
  (forall ot ks lc n b p w, fs_wf w -> fs_wf (snd (save_omen ot ks lc n b p w))) ->
  forall (base : path) (fs' : fsys),
  py_run_trainer PC pi base fs = (Ok (Some true), fs') ->
  exists (t : trained A) (fs2 : fsys) (enc : str),
    Pipeline.train E (pipe_options R path_of rc pi fs) (Reader.out rd) = Some t /\
    t_n t = N.of_nat (length (Reader.out rd)) /\ t_cov t = pi_coverage pi /\ t_sens t = pi_save_sensitive pi /\
    pi_encoding pi = Some enc /\
    ruleset_encodable repr encb enc (s_files (Pipeline.save R t)) = true /\
    fs_wf fs2 /\
    fs' = install_all repr base (s_files (Pipeline.save R t)) fs2.
Proof.
  intros A R E path_of rc AGt OTt KSt ag_new ag_step ag_alpha ot_new ot_step ot_smooth ks_of level_of ks_counter repr encb calc
         save_config save_omen pi fs nm text PC H1 H2 H3 H4 H5 rd H6 H7 H8 H9 H10 base fs'.
  exact (run_trainer_writes_pipeline_ruleset R E path_of rc AGt OTt KSt ag_new ag_step ag_alpha ot_new ot_step ot_smooth ks_of level_of
           ks_counter repr encb calc save_config save_omen pi fs nm text H1 H2 H3 H4 H5 H6 H7 H8 H9 H10 base fs').
Qed.

(* trainer.py: every option of the command line lands in its key of program_info, and the run is refused exactly
   when the coverage is below 0 or above 1 - "every coverage in [0,1]" is accepted, 0 and 1 included *)
Theorem C06_source_parse_command_line : forall (O : numops) (a : cli_args O) (pi : pinfo O),
  py_parse_command_line a pi = Ok (coverage_ok (a_coverage a), cli_pinfo a pi).
Proof. exact source_parse_command_line. Qed.
Theorem C06_source_coverage_range : forall (a : cli_args QNum) (pi : pinfo QNum),
  (exists pi', py_parse_command_line a pi = Ok (true, pi')) <-> (0 <= a_coverage a /\ a_coverage a <= 1)%Q.
Proof. exact source_coverage_range_Q. Qed.
Theorem C06_source_cli_options : py_cli_options = expected_cli_options.
Proof. exact py_cli_options_are_expected. Qed.
(* main: the defaults, parse_command_line, the encoding given or detected, Rules/<rule name> below the script,
   create_rule_folders, then run_trainer with exactly that program_info *)
Theorem C06_source_main_is_model : forall (O : numops) (C : main_collab O) (script_dir : path) (w : mc_W C),
  py_main C script_dir w = m_main C py_main_defaults script_dir w.
Proof. exact py_main_is_model. Qed.

Print Assumptions C06_source_print_statistics_reads_only.
Print Assumptions C06_source_parser_starts_empty.
Print Assumptions C06_source_writers_get_the_parsed_counters.
Print Assumptions C06_source_run_trainer_writes_the_model_ruleset.
Print Assumptions C06_source_parse_command_line.
Print Assumptions C06_source_coverage_range.
Print Assumptions C06_source_main_is_model.
