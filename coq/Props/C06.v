(* placeholder while the harness is built *)
From Coq Require Import List NArith.
From Pcfg Require Import TextFile Counters.
Theorem C06_placeholder : 1 = 1. Proof. reflexivity. Qed.
