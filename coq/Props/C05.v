(* C05 - training segments every password into a lossless, soundly typed
   tiling.  Property theorems only. *)
From Coq Require Import List ZArith NArith Bool Sorting.Permutation.
From Pcfg Require Import Str Multiword Detect Segment SegCorr DetectProofsStr DetectProofsDrive DetectProofsSimple
     DetectProofsMw DetectProofsSeg DetectProofsWeb DetectProofsKbd DetectProofsCount DetectProofsAdj DetectProofsPipe DetectProofsInst.
From PcfgGen Require Import Consts_gen Unicode_gen.
Import ListNotations.
Open Scope Z_scope.

(* ---- side conditions on the data regenerated on every run *)

(* the source searches a length-preserving lower-casing of the section in the
   alpha / e-mail / website detectors (the repair of R12) *)
Theorem C05_source_lower_aligned : seg_lower_aligned = true.
Proof. exact side_lower_aligned. Qed.
(* sweep of all code points of the running interpreter: lower() changes the
   length of exactly U+0130, and never the class of a character *)
Theorem C05_unicode_lower_expanding : lower_expanding = [304%N].
Proof. exact lower_expanding_is_0130. Qed.
Theorem C05_unicode_lower_keeps_class : lower_class_mismatch = [].
Proof. exact lower_class_mismatch_none. Qed.
(* every character (pool table, default class outside it): lower() is not
   empty, and the character the detectors look at has the class of the
   original one *)
Theorem C05_unicode_good : forall c, goodc c_isalpha c_isdigit c_lower c.
Proof. exact goodc_all. Qed.
Theorem C05_side_multiword_min_len : 1 <= c_min_len.
Proof. exact side_min_len. Qed.
Theorem C05_side_year_prefixes : Forall (fun q => len q = 2) year_prefixes.
Proof. exact side_year_prefixes. Qed.
Theorem C05_side_year_prefixes_19_20 : year_prefixes = [[49; 57]; [50; 48]]%N.
Proof. exact side_year_prefixes_19_20. Qed.
Theorem C05_side_tlds_nonempty : Forall (fun t => 1 <= len t) tld_list.
Proof. exact side_tlds_nonempty. Qed.

(* ---- the generic split driver *)

Theorem split_driver_tiling :
  forall (F : Type) (detect : str -> dres F) (reex : bool) (pm : str -> section -> Prop),
  (forall piece s, pm piece (s, None) <-> piece = s) ->
  forall (Inv : str -> Prop) (Q : section -> Prop),
  (forall s, Inv s -> detect s <> DErr) ->
  (forall s p f, Inv s -> Q (s, None) -> detect s = DYes p f -> split_ok pm Inv Q s p) ->
  forall todo, unlab_all Inv todo -> Forall Q todo ->
  exists out fs, drive_all detect reex todo = Some (out, fs) /\
    (forall x, tiles pm x todo -> tiles pm x out) /\ Forall Q out /\ unlab_all Inv out.
Proof. exact DetectProofsDrive.split_driver_tiling. Qed.

(* ---- per detector: the index arithmetic gives a split *)

Theorem email_split_ok :
  det_split_ok c_isalpha c_isdigit c_lower c_kbs c_min_run year_prefixes context_strings (detect_email c_lower true tld_list).
Proof. exact (email_split_ok_proved c_isalpha c_isdigit c_lower c_kbs c_min_run tld_list year_prefixes context_strings). Qed.

Theorem website_split_ok :
  det_split_ok c_isalpha c_isdigit c_lower c_kbs c_min_run year_prefixes context_strings
               (detect_website c_isalpha c_lower true tld_list).
Proof.
  exact (website_split_ok_proved c_isalpha c_isdigit c_lower c_kbs c_min_run tld_list year_prefixes context_strings
           side_tlds_nonempty).
Qed.

(* for EVERY state m of the multi-word detector: parse returns the word
   itself or a split into >= 2 parts, each seen >= threshold times and of
   length >= min_len, of a word seen < threshold times *)
Theorem C05_sound_multiword : forall m s b ws,
  mwparse_c m s = Some (b, ws) ->
  ws = [s] \/ (multi_ok c_lower c_threshold c_min_len m s ws /\ mwcount_c m s < c_threshold).
Proof. exact (mw_parse_spec c_lower c_threshold c_min_len c_max_len side_min_len). Qed.

Theorem keyboard_split_ok :
  forall pw, pw <> [] ->
  exists sl f, detect_keyboard_walk c_isalpha c_isdigit c_lower c_kbs kb_false_positive_words c_min_run (length pw) pw
               = Some (sl, f) /\ tiles c_pm pw sl /\ Forall c_sound sl.
Proof. exact kw_c_ok. Qed.

(* ---- the pipeline: for every state m of the multi-word detector and every
   accepted (non-empty) password, parse does not raise, the sections tile the
   password (a website section holds the lower-cased piece), every section is
   non-empty, labelled, and its label is sound (c_sound: true length for
   K/A/D/O; K = at least min_run keys pairwise adjacent on one layout, >= 2
   character classes; Y = a listed prefix + two digits; X = a listed string;
   A only letters; D only digits; O neither) *)
Theorem C05_tiling :
  forall m pw, pw <> [] ->
  exists r, parse_c m pw = POk r /\ tiles c_pm pw (p_sections r) /\ Forall c_sound (p_sections r) /\
            Forall (fun y => snd y <> None) (p_sections r).
Proof. exact parse_c_ok. Qed.

Theorem C05_never_raises : forall m pw, pw <> [] -> parse_c m pw <> PErr.
Proof. exact parse_c_never_raises. Qed.

(* what one parse() adds to every counter is the tally of the sections of the
   corresponding label (c_counters_ok: Permutation of the found list with the
   texts of that label class -- lower-cased for alpha words and e-mails, case
   masks for the alpha masks --, labels for count_prince, the label string and
   its supportedness for the base structures) *)
Theorem C05_counters : forall m pw, pw <> [] -> exists r, parse_c m pw = POk r /\ c_counters_ok r.
Proof. exact parse_c_counters. Qed.

(* ... and so for a whole pass over a list of passwords with one parser object *)
Theorem C05_counters_fold : forall m pws, Forall (fun pw => pw <> []) pws ->
  exists rs, map (parse_c m) pws = map POk rs /\ Forall c_counters_ok rs.
Proof. exact parse_c_counters_fold. Qed.

(* ---- digit runs and word splits, per detector call on one unlabelled
   section: the digit segment is the FIRST MAXIMAL digit run of the section
   (nothing but non-digits before it, end of section or a non-digit after it)
   and a section the detector declines has no digit left; the alpha detector
   cuts the first maximal letter run exactly at the word lengths
   multiword_detector.parse returned for its lower-casing (C05_sound_multiword
   says when that is more than one word).
   C05_sound_digit: on the final section list no two digit sections are
   adjacent -- with C05_tiling (A tiles letters only, O tiles no digit, a
   letter is never a digit) a digit tile is a maximal digit run among the
   characters the earlier detectors left unlabelled. *)
Theorem C05_sound_digit : forall m pw r, pw <> [] -> parse_c m pw = POk r ->
  forall a x y b, p_sections r = a ++ x :: y :: b -> isC 6 x = true -> isC 6 y = false.
Proof. exact parse_c_digit_maximal. Qed.
Theorem C05_sound_digit_run : forall s p f, detect_digits c_isdigit s = DYes p f ->
  exists l1 l2 l3, s = l1 ++ l2 ++ l3 /\ forallb (fun c => negb (c_isdigit c)) l1 = true /\
    forallb c_isdigit l2 = true /\ l2 <> [] /\ stops c_isdigit l3 /\
    p = osec l1 ++ [(l2, Some (LD (len l2)))] ++ osec l3 /\ f = l2.
Proof. exact digit_run_maximal. Qed.
Theorem C05_sound_digit_none_left : forall s, detect_digits c_isdigit s = DNo -> forallb (fun c => negb (c_isdigit c)) s = true.
Proof. exact digit_none_left. Qed.
Theorem C05_unicode_alpha_not_digit : forall c, c_isalpha c = true -> c_isdigit c = false.
Proof. exact alpha_not_digit. Qed.
Theorem C05_sound_alpha_split : forall m s p f,
  detect_alpha c_isalpha c_isupper c_lower true (mwparse_c m) s = DYes p f ->
  exists l1 l2 l3 pieces b, s = l1 ++ l2 ++ l3 /\ l2 <> [] /\
    forallb (fun c => negb (c_isalpha c)) (map (lower1 c_lower) l1) = true /\
    forallb c_isalpha (map (lower1 c_lower) l2) = true /\
    stops c_isalpha (map (lower1 c_lower) l3) /\
    mwparse_c m (map (lower1 c_lower) l2) = Some (b, map (map (lower1 c_lower)) pieces) /\
    concat pieces = l2 /\ pieces <> [] /\
    p = osec l1 ++ map (fun pc => (pc, Some (LA (len pc)))) pieces ++ osec l3 /\
    f = (map (map (lower1 c_lower)) pieces, map (case_mask c_isupper) pieces).
Proof. exact alpha_run_split. Qed.

(* ---- why the repair was needed: the detectors as they were (searching
   section[0].lower(), slicing section[0]) on passwords with U+0130 *)
Theorem C05_refuted_lower_0130_website :
  parse_gen false [] w_web = POk {| p_sections := w_web_secs; p_walks := []; p_emails := []; p_providers := [];
                            p_urls := [[105; 775; 46; 114; 117]%N]; p_hosts := [[105; 775; 46; 114; 117]%N]; p_prefixes := [None];
                            p_years := []; p_context := []; p_alpha := [[105]%N]; p_masks := [[85]%N];
                            p_digits := []; p_other := []; p_prince := [LW; LA 1]; p_supported := false;
                            p_base := [LW; LA 1] |} /\
  ~ tiles c_pm w_web w_web_secs /\ In 50%N w_web /\ ~ In 50%N (concat (map fst w_web_secs)).
Proof. exact refuted_website_0130. Qed.
Theorem C05_refuted_lower_0130_empty_segment :
  exists r, parse_gen false [] w_empty = POk r /\
            p_sections r = [([105; 775; 46; 99; 111; 109]%N, Some LW); ([], Some (LO 0))].
Proof. exact refuted_empty_segment_0130. Qed.
Theorem C05_refuted_lower_0130_email :
  exists r, parse_gen false [] w_email = POk r /\
            p_sections r = [(w_email, Some LE); ([], Some (LO 0))] /\
            p_emails r = [[105; 775; 64; 97; 46; 99; 111; 109]%N].
Proof. exact refuted_email_0130. Qed.
Theorem C05_refuted_lower_0130_alpha :
  exists r, parse_gen false [] w_alpha = POk r /\
            p_sections r = [([97; 304]%N, Some (LA 2)); ([98]%N, Some (LA 1))] /\
            p_alpha r = [[97; 105]%N; [98]%N] /\
            mwcount_c [] [97; 105]%N = 0 /\ mwcount_c [] [98]%N = 0.
Proof. exact refuted_alpha_0130. Qed.

(* the hypotheses are satisfiable on a non-trivial instance: '1qaz2019#1pass!' *)
Example C05_demo :
  exists r, parse_c [] w_demo = POk r /\
            p_sections r = [([49; 113; 97; 122]%N, Some (LK 4)); ([50; 48; 49; 57]%N, Some LY); ([35; 49]%N, Some LX);
                            ([112; 97; 115; 115]%N, Some (LA 4)); ([33]%N, Some (LO 1))] /\
            w_demo <> [].
Proof. exact demo_parse. Qed.

Print Assumptions split_driver_tiling.
Print Assumptions C05_tiling.
Print Assumptions C05_counters.
Print Assumptions C05_sound_digit.
Print Assumptions C05_sound_multiword.
Print Assumptions C05_refuted_lower_0130_website.
