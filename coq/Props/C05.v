(* C05 - training segments every password into a lossless, soundly typed
   tiling.  Property theorems only. *)
From Coq Require Import List ZArith NArith Bool Sorting.Permutation.
From Pcfg Require Import Str Multiword Detect Segment SegCorr DetectProofsStr DetectProofsDrive DetectProofsSimple
     DetectProofsMw DetectProofsSeg DetectProofsWeb DetectProofsKbd DetectProofsCount DetectProofsAdj DetectProofsPipe DetectProofsInst.
From Pcfg Require Import DetectRt DetectGenProofs DetectGenInst.
From Pcfg Require Import DetectRt2 DetectGenProofsMw DetectGenProofsEmail DetectGenProofsWeb DetectGenProofsKbd DetectGenInst2.
From PcfgGen Require Import Consts_gen Unicode_gen Detect_gen DetectMw_gen DetectEmail_gen DetectWeb_gen DetectKbd_gen.
Import ListNotations.
Open Scope Z_scope.

(* ---- side conditions on the data regenerated on every run *)

(* the source searches a length-preserving lower-casing of the section in the
   alpha / e-mail / website detectors (the repair of R12) *)
Theorem C05_source_lower_aligned : seg_lower_aligned = true.
Proof. exact side_lower_aligned. Qed.
(* sweep of all code points of the running interpreter: lower() changes the
   length of exactly U+0130, and never the class of a character *)
Theorem C05_unicode_lower_expanding : lower_expanding = [304%N].
Proof. exact lower_expanding_is_0130. Qed.
Theorem C05_unicode_lower_keeps_class : lower_class_mismatch = [].
Proof. exact lower_class_mismatch_none. Qed.
(* every character (pool table, default class outside it): lower() is not
   empty, and the character the detectors look at has the class of the
   original one *)
Theorem C05_unicode_good : forall c, goodc c_isalpha c_isdigit c_lower c.
Proof. exact goodc_all. Qed.
Theorem C05_side_multiword_min_len : 1 <= c_min_len.
Proof. exact side_min_len. Qed.
Theorem C05_side_year_prefixes : Forall (fun q => len q = 2) year_prefixes.
Proof. exact side_year_prefixes. Qed.
Theorem C05_side_year_prefixes_19_20 : year_prefixes = [[49; 57]; [50; 48]]%N.
Proof. exact side_year_prefixes_19_20. Qed.
Theorem C05_side_tlds_nonempty : Forall (fun t => 1 <= len t) tld_list.
Proof. exact side_tlds_nonempty. Qed.

(* ---- the generic split driver *)

Theorem split_driver_tiling :
  forall (F : Type) (detect : str -> dres F) (reex : bool) (pm : str -> section -> Prop),
  (forall piece s, pm piece (s, None) <-> piece = s) ->
  forall (Inv : str -> Prop) (Q : section -> Prop),
  (forall s, Inv s -> detect s <> DErr) ->
  (forall s p f, Inv s -> Q (s, None) -> detect s = DYes p f -> split_ok pm Inv Q s p) ->
  forall todo, unlab_all Inv todo -> Forall Q todo ->
  exists out fs, drive_all detect reex todo = Some (out, fs) /\
    (forall x, tiles pm x todo -> tiles pm x out) /\ Forall Q out /\ unlab_all Inv out.
Proof. exact DetectProofsDrive.split_driver_tiling. Qed.

(* ---- per detector: the index arithmetic gives a split *)

Theorem email_split_ok :
  det_split_ok c_isalpha c_isdigit c_lower c_kbs c_min_run year_prefixes context_strings (detect_email c_lower true tld_list).
Proof. exact (email_split_ok_proved c_isalpha c_isdigit c_lower c_kbs c_min_run tld_list year_prefixes context_strings). Qed.

Theorem website_split_ok :
  det_split_ok c_isalpha c_isdigit c_lower c_kbs c_min_run year_prefixes context_strings
               (detect_website c_isalpha c_lower true tld_list).
Proof.
  exact (website_split_ok_proved c_isalpha c_isdigit c_lower c_kbs c_min_run tld_list year_prefixes context_strings
           side_tlds_nonempty).
Qed.

(* for EVERY state m of the multi-word detector: parse returns the word
   itself or a split into >= 2 parts, each seen >= threshold times and of
   length >= min_len, of a word seen < threshold times *)
Theorem C05_sound_multiword : forall m s b ws,
  mwparse_c m s = Some (b, ws) ->
  ws = [s] \/ (multi_ok c_lower c_threshold c_min_len m s ws /\ mwcount_c m s < c_threshold).
Proof. exact (mw_parse_spec c_lower c_threshold c_min_len c_max_len side_min_len). Qed.

Theorem keyboard_split_ok :
  forall pw, pw <> [] ->
  exists sl f, detect_keyboard_walk c_isalpha c_isdigit c_lower c_kbs kb_false_positive_words c_min_run (length pw) pw
               = Some (sl, f) /\ tiles c_pm pw sl /\ Forall c_sound sl.
Proof. exact kw_c_ok. Qed.

(* ---- the pipeline: for every state m of the multi-word detector and every
   accepted (non-empty) password, parse does not raise, the sections tile the
   password (a website section holds the lower-cased piece), every section is
   non-empty, labelled, and its label is sound (c_sound: true length for
   K/A/D/O; K = at least min_run keys pairwise adjacent on one layout, >= 2
   character classes; Y = a listed prefix + two digits; X = a listed string;
   A only letters; D only digits; O neither) *)
Theorem C05_tiling :
  forall m pw, pw <> [] ->
  exists r, parse_c m pw = POk r /\ tiles c_pm pw (p_sections r) /\ Forall c_sound (p_sections r) /\
            Forall (fun y => snd y <> None) (p_sections r).
Proof. exact parse_c_ok. Qed.

Theorem C05_never_raises : forall m pw, pw <> [] -> parse_c m pw <> PErr.
Proof. exact parse_c_never_raises. Qed.

(* what one parse() adds to every counter is the tally of the sections of the
   corresponding label (c_counters_ok: Permutation of the found list with the
   texts of that label class -- lower-cased for alpha words and e-mails, case
   masks for the alpha masks --, labels for count_prince, the label string and
   its supportedness for the base structures) *)
Theorem C05_counters : forall m pw, pw <> [] -> exists r, parse_c m pw = POk r /\ c_counters_ok r.
Proof. exact parse_c_counters. Qed.

(* ... and so for a whole pass over a list of passwords with one parser object *)
Theorem C05_counters_fold : forall m pws, Forall (fun pw => pw <> []) pws ->
  exists rs, map (parse_c m) pws = map POk rs /\ Forall c_counters_ok rs.
Proof. exact parse_c_counters_fold. Qed.

(* ---- digit runs and word splits, per detector call on one unlabelled
   section: the digit segment is the FIRST MAXIMAL digit run of the section
   (nothing but non-digits before it, end of section or a non-digit after it)
   and a section the detector declines has no digit left; the alpha detector
   cuts the first maximal letter run exactly at the word lengths
   multiword_detector.parse returned for its lower-casing (C05_sound_multiword
   says when that is more than one word).
   C05_sound_digit: on the final section list no two digit sections are
   adjacent -- with C05_tiling (A tiles letters only, O tiles no digit, a
   letter is never a digit) a digit tile is a maximal digit run among the
   characters the earlier detectors left unlabelled. *)
Theorem C05_sound_digit : forall m pw r, pw <> [] -> parse_c m pw = POk r ->
  forall a x y b, p_sections r = a ++ x :: y :: b -> isC 6 x = true -> isC 6 y = false.
Proof. exact parse_c_digit_maximal. Qed.
Theorem C05_sound_digit_run : forall s p f, detect_digits c_isdigit s = DYes p f ->
  exists l1 l2 l3, s = l1 ++ l2 ++ l3 /\ forallb (fun c => negb (c_isdigit c)) l1 = true /\
    forallb c_isdigit l2 = true /\ l2 <> [] /\ stops c_isdigit l3 /\
    p = osec l1 ++ [(l2, Some (LD (len l2)))] ++ osec l3 /\ f = l2.
Proof. exact digit_run_maximal. Qed.
Theorem C05_sound_digit_none_left : forall s, detect_digits c_isdigit s = DNo -> forallb (fun c => negb (c_isdigit c)) s = true.
Proof. exact digit_none_left. Qed.
Theorem C05_unicode_alpha_not_digit : forall c, c_isalpha c = true -> c_isdigit c = false.
Proof. exact alpha_not_digit. Qed.
Theorem C05_sound_alpha_split : forall m s p f,
  detect_alpha c_isalpha c_isupper c_lower true (mwparse_c m) s = DYes p f ->
  exists l1 l2 l3 pieces b, s = l1 ++ l2 ++ l3 /\ l2 <> [] /\
    forallb (fun c => negb (c_isalpha c)) (map (lower1 c_lower) l1) = true /\
    forallb c_isalpha (map (lower1 c_lower) l2) = true /\
    stops c_isalpha (map (lower1 c_lower) l3) /\
    mwparse_c m (map (lower1 c_lower) l2) = Some (b, map (map (lower1 c_lower)) pieces) /\
    concat pieces = l2 /\ pieces <> [] /\
    p = osec l1 ++ map (fun pc => (pc, Some (LA (len pc)))) pieces ++ osec l3 /\
    f = (map (map (lower1 c_lower)) pieces, map (case_mask c_isupper) pieces).
Proof. exact alpha_run_split. Qed.

(* ---- why the repair was needed: the detectors as they were (searching
   section[0].lower(), slicing section[0]) on passwords with U+0130 *)
Theorem C05_refuted_lower_0130_website :
  parse_gen false [] w_web = POk {| p_sections := w_web_secs; p_walks := []; p_emails := []; p_providers := [];
                            p_urls := [[105; 775; 46; 114; 117]%N]; p_hosts := [[105; 775; 46; 114; 117]%N]; p_prefixes := [None];
                            p_years := []; p_context := []; p_alpha := [[105]%N]; p_masks := [[85]%N];
                            p_digits := []; p_other := []; p_prince := [LW; LA 1]; p_supported := false;
                            p_base := [LW; LA 1] |} /\
  ~ tiles c_pm w_web w_web_secs /\ In 50%N w_web /\ ~ In 50%N (concat (map fst w_web_secs)).
Proof. exact refuted_website_0130. Qed.
Theorem C05_refuted_lower_0130_empty_segment :
  exists r, parse_gen false [] w_empty = POk r /\
            p_sections r = [([105; 775; 46; 99; 111; 109]%N, Some LW); ([], Some (LO 0))].
Proof. exact refuted_empty_segment_0130. Qed.
Theorem C05_refuted_lower_0130_email :
  exists r, parse_gen false [] w_email = POk r /\
            p_sections r = [(w_email, Some LE); ([], Some (LO 0))] /\
            p_emails r = [[105; 775; 64; 97; 46; 99; 111; 109]%N].
Proof. exact refuted_email_0130. Qed.
Theorem C05_refuted_lower_0130_alpha :
  exists r, parse_gen false [] w_alpha = POk r /\
            p_sections r = [([97; 304]%N, Some (LA 2)); ([98]%N, Some (LA 1))] /\
            p_alpha r = [[97; 105]%N; [98]%N] /\
            mwcount_c [] [97; 105]%N = 0 /\ mwcount_c [] [98]%N = 0.
Proof. exact refuted_alpha_0130. Qed.

(* the hypotheses are satisfiable on a non-trivial instance: '1qaz2019#1pass!' *)
Example C05_demo :
  exists r, parse_c [] w_demo = POk r /\
            p_sections r = [([49; 113; 97; 122]%N, Some (LK 4)); ([50; 48; 49; 57]%N, Some LY); ([35; 49]%N, Some LX);
                            ([112; 97; 115; 115]%N, Some (LA 4)); ([33]%N, Some (LO 1))] /\
            w_demo <> [].
Proof. exact demo_parse. Qed.

(* ---- second tie to the source: the Python text of the simple detectors, of
   their *_detection loops and of PCFGPasswordParser.parse is translated to Gallina
   on every run (harness/translate_detect.py -> gen/Detect_gen.v, names py_...); each
   translated function IS the model function the theorems above are about, on all
   strings / section lists, for the per-character oracles (isalpha, isdigit,
   isupper, lower_c) and multiword_detector.parse any functions.
   Results of the translated functions: None = the Python raises (or a `while`
   runs out of the fuel the translator gives it: drive_fuel for the *_detection
   loops, len + 2 for the year loop - the *_never_raises / *_total theorems below
   show it suffices); (PSec section, None) = `return section, None`;
   (PList parsing, Some found) = `return parsing, found`. *)
Theorem C05_source_detect_digits_is_model : forall isdigit sec,
  py_detect_digits isdigit sec = py_of_dres sec (detect_digits isdigit (fst sec)).
Proof. exact py_detect_digits_eq. Qed.
(* read through the caller's test `if year:` / `if cs_string:` / `if alphas:` *)
Theorem C05_source_detect_year_is_model : forall isdigit sec,
  dres_if_truthy (py_detect_year isdigit sec) = detect_year isdigit year_prefixes (fst sec).
Proof. exact py_detect_year_eq. Qed.
Theorem C05_source_detect_context_sensitive_is_model : forall isdigit sec,
  dres_if_truthy (py_detect_context_sensitive isdigit sec) = detect_context isdigit context_strings (fst sec).
Proof. exact py_detect_context_sensitive_eq. Qed.
(* the translated detect_alpha has the length-preserving lower-casing (aligned = true) *)
Theorem C05_source_detect_alpha_is_model : forall isalpha isupper lower_c mwparse sec,
  dres_alpha (py_detect_alpha isalpha isupper lower_c mwparse sec) =
  detect_alpha isalpha isupper lower_c true mwparse (fst sec).
Proof. exact py_detect_alpha_eq. Qed.
(* the loops `while index < len(section_list)`: result = (final section_list, found list) *)
Theorem C05_source_digit_detection_is_model : forall isdigit sl,
  py_digit_detection isdigit sl = drive_all (detect_digits isdigit) false sl.
Proof. exact py_digit_detection_eq. Qed.
Theorem C05_source_year_detection_is_model : forall isdigit sl,
  py_year_detection isdigit sl = drive_all (detect_year isdigit year_prefixes) true sl.
Proof. exact py_year_detection_eq. Qed.
Theorem C05_source_context_sensitive_detection_is_model : forall isdigit sl,
  py_context_sensitive_detection isdigit sl = drive_all (detect_context isdigit context_strings) true sl.
Proof. exact py_context_sensitive_detection_eq. Qed.
Theorem C05_source_alpha_detection_is_model : forall isalpha isupper lower_c mwparse sl,
  py_alpha_detection isalpha isupper lower_c mwparse sl =
  match drive_all (detect_alpha isalpha isupper lower_c true mwparse) false sl with
  | None => None
  | Some (out, fs) => Some (out, flat_map fst fs, flat_map snd fs)
  end.
Proof. exact py_alpha_detection_eq. Qed.
Theorem C05_source_other_detection_is_model : forall sl, py_other_detection sl = Some (other_detection sl).
Proof. exact py_other_detection_eq. Qed.
(* PCFGPasswordParser.parse: the detectors in the order of the source (keyboard
   walk, e-mail, website: the model's, not translated), observed where
   base_structure_creation is called: the section list and what is fed to
   count_years, count_context_sensitive, count_alpha, count_alpha_masks,
   count_digits, count_other *)
Theorem C05_source_parse_is_model : forall isalpha isdigit isupper lower_c kbs fp_words min_run tlds thr minl maxl m pw,
  py_parse isalpha isdigit isupper lower_c (mwparse lower_c thr minl maxl m)
           (model_keyboard_walk isalpha isdigit lower_c kbs fp_words min_run)
           (model_email_detection lower_c tlds) (model_website_detection isalpha lower_c tlds) pw =
  parse_view (parse isalpha isdigit isupper lower_c true kbs fp_words min_run tlds year_prefixes context_strings
                    thr minl maxl m pw).
Proof. exact py_parse_eq. Qed.
Theorem C05_source_parse_c_is_model : forall m pw, py_parse_c m pw = parse_view (parse_c m pw).
Proof. exact py_parse_c_is_model. Qed.

(* ---- the theorems above, for the translated functions *)
Theorem C05_tiling_source :
  forall m pw, pw <> [] ->
  exists sl ys cs al ms ds os, py_parse_c m pw = Some (sl, ys, cs, al, ms, ds, os) /\
    tiles c_pm pw sl /\ Forall c_sound sl /\ Forall (fun y => snd y <> None) sl.
Proof. exact py_parse_c_tiling. Qed.
Theorem C05_never_raises_source : forall m pw, pw <> [] -> py_parse_c m pw <> None.
Proof. exact py_parse_c_never_raises. Qed.
Theorem C05_counters_source : forall m pw, pw <> [] ->
  exists sl ys cs al ms ds os, py_parse_c m pw = Some (sl, ys, cs, al, ms, ds, os) /\
    Permutation ys (texts 3 sl) /\ Permutation cs (texts 4 sl) /\
    al = map (map (lower1 c_lower)) (texts 5 sl) /\ ms = map (case_mask c_isupper) (texts 5 sl) /\
    Permutation ds (texts 6 sl) /\ Permutation os (texts 7 sl).
Proof. exact py_parse_c_counters. Qed.
Theorem C05_sound_digit_source : forall m pw sl ys cs al ms ds os, pw <> [] ->
  py_parse_c m pw = Some (sl, ys, cs, al, ms, ds, os) ->
  forall a x y b, sl = a ++ x :: y :: b -> isC 6 x = true -> isC 6 y = false.
Proof. exact py_parse_c_digit_maximal. Qed.
(* one call of a translated detector, for every oracle *)
Theorem C05_sound_digit_run_source : forall isdigit sec p f, py_detect_digits isdigit sec = Some (p, Some f) ->
  exists l1 l2 l3, fst sec = l1 ++ l2 ++ l3 /\ forallb (fun c => negb (isdigit c)) l1 = true /\
    forallb isdigit l2 = true /\ l2 <> [] /\ stops isdigit l3 /\
    p = PList (osec l1 ++ [(l2, Some (LD (len l2)))] ++ osec l3) /\ f = l2.
Proof. exact py_detect_digits_found. Qed.
Theorem C05_sound_digit_none_left_source : forall isdigit sec p, py_detect_digits isdigit sec = Some (p, None) ->
  p = PSec sec /\ forallb (fun c => negb (isdigit c)) (fst sec) = true.
Proof. exact py_detect_digits_none. Qed.
Theorem C05_sound_year_source : forall isdigit sec p f, dres_if_truthy (py_detect_year isdigit sec) = DYes p f ->
  exists prefix l1 c2 c3 l3, In prefix [[49; 57]; [50; 48]]%N /\ fst sec = l1 ++ f ++ l3 /\ f = prefix ++ [c2; c3] /\
    isdigit c2 = true /\ isdigit c3 = true /\ p = osec l1 ++ [(f, Some LY)] ++ osec l3.
Proof. exact py_detect_year_found. Qed.
Theorem C05_sound_context_source : forall isdigit sec p f,
  dres_if_truthy (py_detect_context_sensitive isdigit sec) = DYes p f ->
  exists l1 l3, fst sec = l1 ++ f ++ l3 /\ In f context_strings /\ f <> [] /\ p = osec l1 ++ [(f, Some LX)] ++ osec l3.
Proof. exact py_detect_context_sensitive_found. Qed.
Theorem C05_sound_alpha_split_source : forall isalpha isupper lower_c (mwp : str -> option (bool * list str)) sec p f,
  (forall x b ws, mwp x = Some (b, ws) -> concat ws = x) -> lowne lower_c (fst sec) ->
  dres_alpha (py_detect_alpha isalpha isupper lower_c mwp sec) = DYes p f ->
  exists l1 l2 l3 pieces b, fst sec = l1 ++ l2 ++ l3 /\ l2 <> [] /\
    forallb (fun c => negb (isalpha c)) (map (lower1 lower_c) l1) = true /\
    forallb isalpha (map (lower1 lower_c) l2) = true /\
    stops isalpha (map (lower1 lower_c) l3) /\
    mwp (map (lower1 lower_c) l2) = Some (b, map (map (lower1 lower_c)) pieces) /\
    concat pieces = l2 /\ pieces <> [] /\
    p = osec l1 ++ map (fun pc => (pc, Some (LA (len pc)))) pieces ++ osec l3 /\
    f = (map (map (lower1 lower_c)) pieces, map (case_mask isupper) pieces).
Proof. exact py_detect_alpha_found. Qed.
(* the translated detectors and loops never raise and the fuel of their `while`
   loops suffices, on every section / section list, for every oracle; the loops
   preserve the text *)
Theorem C05_source_detect_digits_never_raises : forall isdigit sec, py_detect_digits isdigit sec <> None.
Proof. exact py_detect_digits_never_raises. Qed.
Theorem C05_source_detect_year_never_raises : forall isdigit sec, py_detect_year isdigit sec <> None.
Proof. exact py_detect_year_never_raises. Qed.
Theorem C05_source_detect_context_sensitive_never_raises : forall isdigit sec, py_detect_context_sensitive isdigit sec <> None.
Proof. exact py_detect_context_sensitive_never_raises. Qed.
Theorem C05_source_digit_detection_total : forall isdigit todo,
  exists out fs, py_digit_detection isdigit todo = Some (out, fs) /\ concat (map fst out) = concat (map fst todo).
Proof. exact py_digit_detection_total. Qed.
Theorem C05_source_year_detection_total : forall isdigit todo,
  exists out fs, py_year_detection isdigit todo = Some (out, fs) /\ concat (map fst out) = concat (map fst todo).
Proof. exact py_year_detection_total. Qed.
Theorem C05_source_context_sensitive_detection_total : forall isdigit todo,
  exists out fs, py_context_sensitive_detection isdigit todo = Some (out, fs) /\
                 concat (map fst out) = concat (map fst todo).
Proof. exact py_context_sensitive_detection_total. Qed.
Theorem C05_source_other_detection_total : forall todo,
  exists out fs, py_other_detection todo = Some (out, fs) /\ map fst out = map fst todo /\
                 Forall (fun y => snd y <> None) out.
Proof. exact py_other_detection_total. Qed.

(* the generated code runs; the hypotheses are satisfiable: '1qaz2019#1pass!' *)
Example C05_source_demo :
  py_parse_c [] w_demo =
  Some ([([49; 113; 97; 122]%N, Some (LK 4)); ([50; 48; 49; 57]%N, Some LY); ([35; 49]%N, Some LX);
         ([112; 97; 115; 115]%N, Some (LA 4)); ([33]%N, Some (LO 1))],
        [[50; 48; 49; 57]%N], [[35; 49]%N], [[112; 97; 115; 115]%N], [[76; 76; 76; 76]%N], [], [[33]%N]) /\
  w_demo <> [].
Proof. exact demo_py_parse. Qed.
Example C05_source_demo_detectors :
  py_detect_year c_isdigit ([112; 50; 48; 49; 57; 33]%N, None) =
    Some (PList [([112]%N, None); ([50; 48; 49; 57]%N, Some LY); ([33]%N, None)], Some [50; 48; 49; 57]%N) /\
  py_detect_digits c_isdigit ([97; 49; 50; 98]%N, None) =
    Some (PList [([97]%N, None); ([49; 50]%N, Some (LD 2)); ([98]%N, None)], Some [49; 50]%N) /\
  py_detect_context_sensitive c_isdigit ([97; 35; 49; 98]%N, None) =
    Some (PList [([97]%N, None); ([35; 49]%N, Some LX); ([98]%N, None)], Some [35; 49]%N) /\
  py_detect_alpha c_isalpha c_isupper c_lower (mwparse_c []) ([49; 80; 97; 115; 115; 33]%N, None) =
    Some (PList [([49]%N, None); ([80; 97; 115; 115]%N, Some (LA 4)); ([33]%N, None)],
          Some [[112; 97; 115; 115]%N], Some [[85; 76; 76; 76]%N]).
Proof. exact demo_py_detectors. Qed.

(* ---- third tie to the source: the remaining detectors (harness/translate_detect2.py ->
   gen/DetectMw_gen.v, gen/DetectEmail_gen.v, gen/DetectWeb_gen.v, gen/DetectKbd_gen.v).

   The multi-word detector.  MultiWordDetector keeps its words in a trie of nested dicts
   (DetectRt2.trie; the translated methods are functions of it), the model in the finite
   map word |-> count it represents (mw_rep t m: every word has the same "count" entry in
   both).  For every oracle isalpha / lower_c and all constructor arguments: *)
Theorem C05_source_mw_get_count_is_model : forall lower_c t m w, mw_rep t m ->
  py_mw_get_count lower_c t w = Some (mw_count lower_c m w).
Proof. exact py_mw_get_count_eq. Qed.
(* for EVERY fuel: the translated recursion and the model's run out of it together *)
Theorem C05_source_mw_identify_multi_is_model : forall lower_c thr minl t m, mw_rep t m -> forall fuel s,
  py_mw_identify_multi lower_c thr minl fuel t s = mw_identify lower_c thr minl fuel m s.
Proof. exact py_mw_identify_multi_eq. Qed.
Theorem C05_source_mw_parse_is_model : forall lower_c thr minl maxl t m, mw_rep t m -> forall s,
  py_mw_parse lower_c thr minl maxl t s = mw_parse lower_c thr minl maxl m s.
Proof. exact py_mw_parse_eq. Qed.
(* train never raises and keeps the representation *)
Theorem C05_source_mw_train_is_model : forall isalpha lower_c thr minl maxl t m st pw, mw_rep t m ->
  exists t', py_mw_train isalpha lower_c thr minl maxl t pw st = Some t' /\
             mw_rep t' (mw_train isalpha lower_c thr minl maxl m st pw).
Proof. exact py_mw_train_eq. Qed.
Theorem C05_source_mw_empty_is_model : mw_rep t_empty [].
Proof. exact rep_empty. Qed.
(* hence for every training history, on the instance the correspondence runs *)
Theorem C05_source_mw_history_is_model : forall h t m, mw_rep t m ->
  exists t', py_mw_history t h = Some t' /\ mw_rep t' (mw_history m h).
Proof. exact py_mw_history_is_model. Qed.
(* C05_sound_multiword for the translated detector, stated with the translated
   _get_count only, for EVERY state reachable from the constructor by calls of train *)
Theorem C05_sound_multiword_source : forall t s b ws, mw_reachable t -> py_mwparse_c t s = Some (b, ws) ->
  ws = [s] \/ (concat ws = s /\ Forall (py_base_word t) ws /\ (2 <= length ws)%nat /\
               exists v, py_mwcount_c t s = Some v /\ v < c_threshold).
Proof. exact py_mwparse_c_sound. Qed.
Theorem C05_source_mw_parse_never_raises : forall t s, mw_reachable t -> py_mwparse_c t s <> None.
Proof. exact py_mwparse_c_never_raises. Qed.
Example C05_source_mw_demo :
  exists t, py_mw_history t_empty h_demo = Some t /\
    py_mwcount_c t [112; 97; 115; 115]%N = Some (c_threshold + 1) /\
    py_mwparse_c t [112; 97; 115; 115; 119; 111; 114; 100]%N = Some (true, [[112; 97; 115; 115]; [119; 111; 114; 100]]%N) /\
    py_mwparse_c t [112; 97; 115; 115; 119; 111; 114; 107]%N = Some (false, [[112; 97; 115; 115; 119; 111; 114; 107]]%N).
Proof. exact demo_py_mw. Qed.

(* The e-mail and website detectors.  dres_email / dres_web read what the translated
   detect_* returns the way email_detection / website_detection do (`if email:` /
   `if url:`, then the parsing is spliced in); the equalities hold for every oracle and
   every TLD list (website: without an empty string - with one the Python loop does not
   terminate), with the length-preserving lower-casing (aligned = true). *)
Theorem C05_source_detect_email_is_model : forall lower_c tlds sec,
  dres_email (py_detect_email lower_c tlds sec) = detect_email lower_c true tlds (fst sec).
Proof. exact py_detect_email_eq. Qed.
Theorem C05_source_email_detection_is_model : forall lower_c tlds sl,
  py_email_detection lower_c tlds sl =
  match drive_all (detect_email lower_c true tlds) false sl with
  | None => None
  | Some (out, fs) => Some (out, map fst fs, map (fun f => Some (snd f)) fs)
  end.
Proof. exact py_email_detection_eq. Qed.
Theorem C05_source_detect_website_is_model : forall isalpha lower_c tlds sec, Forall (fun t => 1 <= len t) tlds ->
  dres_web (py_detect_website isalpha lower_c tlds sec) = detect_website isalpha lower_c true tlds (fst sec).
Proof. exact py_detect_website_eq. Qed.
Theorem C05_source_website_detection_is_model : forall isalpha lower_c tlds sl, Forall (fun t => 1 <= len t) tlds ->
  py_website_detection isalpha lower_c tlds sl =
  match drive_all (detect_website isalpha lower_c true tlds) false sl with
  | None => None
  | Some (out, fs) => Some (out, map (fun f => fst (fst f)) fs, map (fun f => Some (snd (fst f))) fs, map snd fs)
  end.
Proof. exact py_website_detection_eq. Qed.
(* email_split_ok / website_split_ok for the translated detectors *)
Theorem email_split_ok_source :
  det_split_ok c_isalpha c_isdigit c_lower c_kbs c_min_run year_prefixes context_strings py_detect_email_c.
Proof. exact py_email_split_ok. Qed.
Theorem website_split_ok_source :
  det_split_ok c_isalpha c_isdigit c_lower c_kbs c_min_run year_prefixes context_strings py_detect_website_c.
Proof. exact py_website_split_ok. Qed.
Example C05_source_email_web_demo :
  py_detect_email c_lower tld_list ([98; 111; 98; 64; 104; 111; 116; 109; 97; 105; 108; 46; 99; 111; 109; 49; 50; 51]%N, None) =
    Some (PList [([98; 111; 98; 64; 104; 111; 116; 109; 97; 105; 108; 46; 99; 111; 109]%N, Some LE); ([49; 50; 51]%N, None)],
          Some [98; 111; 98; 64; 104; 111; 116; 109; 97; 105; 108; 46; 99; 111; 109]%N,
          Some [104; 111; 116; 109; 97; 105; 108; 46; 99; 111; 109]%N) /\
  py_website_detection c_isalpha c_lower tld_list
    [([120; 120; 119; 119; 119; 46; 114; 111; 99; 107; 121; 111; 117; 46; 99; 111; 109; 47; 97; 98; 99]%N, None)] =
    Some ([([120; 120]%N, None);
           ([119; 119; 119; 46; 114; 111; 99; 107; 121; 111; 117; 46; 99; 111; 109; 47; 97; 98; 99]%N, Some LW)],
          [[119; 119; 119; 46; 114; 111; 99; 107; 121; 111; 117; 46; 99; 111; 109; 47; 97; 98; 99]%N],
          [Some [114; 111; 99; 107; 121; 111; 117; 46; 99; 111; 109]%N], [Some [119; 119; 119; 46]%N]).
Proof. exact demo_py_email_web. Qed.

(* The keyboard-walk detector.  The Python code keeps dicts from the NAME of a layout to
   a key's (row, position) / to the last step of a run; the model one entry per layout by
   position.  dict_of names l / sel names flags are the dicts that represent such lists
   for layouts with pairwise different names.  For every oracle: *)
Theorem C05_source_find_keyboard_row_column_is_model : forall c kbds,
  NoDup (map b_name kbds) -> Forall board_ok kbds ->
  py_find_keyboard_row_column c kbds = Some (dict_of (map b_name kbds) (pos_list (map b_rows kbds) c)).
Proof. exact py_find_keyboard_row_column_eq. Qed.
(* the layouts on which the two keys are neighbours (the values of the returned dict are never read) *)
Theorem C05_source_is_next_on_keyboard_is_model : forall names past cur, NoDup names ->
  exists d, py_is_next_on_keyboard (dict_of names past) (dict_of names cur) = Some d /\
            d_keys d = sel names (next_on past cur).
Proof. exact py_is_next_on_keyboard_eq. Qed.
Theorem C05_source_interesting_keyboard_is_model : forall isalpha isdigit lower_c combo,
  py_interesting_keyboard isalpha isdigit lower_c combo =
  interesting isalpha isdigit lower_c kb_false_positive_words combo.
Proof. exact py_interesting_keyboard_eq. Qed.
(* _detect_first_keyboard_walk (the first walk of a password; the 4th result is what remains
   to be parsed, None when the password is finished) is the model's kw_loop step, up to
   the detected keyboards; a walk found inside the loop ends before the end of the password *)
Theorem C05_source_detect_first_keyboard_walk_is_model : forall isalpha isdigit lower_c pw,
  option_map (fun x => (fst (fst (fst x)), snd (fst (fst x)), snd x))
             (py_detect_first_keyboard_walk isalpha isdigit lower_c pw 4) = kw_first isalpha isdigit lower_c pw /\
  (forall index combo,
     kw_loop isalpha isdigit lower_c py_kbs kb_false_positive_words 4 pw 0 (map (fun _ => None) py_kbs) [] [] =
     KFound index combo -> index < len pw).
Proof. exact py_detect_first_keyboard_walk_eq. Qed.
(* detect_keyboard_walk with the default min_keyboard_run: the loop over the walks
   (`while remaining is not None`, fuel length + 1 in the translation) returns what the
   model's recursion returns with the fuel that always suffices for it; kw_view forgets the
   third result (detected_keyboards), which the parser does not use *)
Theorem C05_source_detect_keyboard_walk_is_model : forall isalpha isdigit lower_c pw,
  kw_view (py_detect_keyboard_walk isalpha isdigit lower_c pw 4) =
  detect_keyboard_walk isalpha isdigit lower_c py_kbs kb_false_positive_words 4 (length pw) pw.
Proof. exact py_detect_keyboard_walk_eq. Qed.
(* R24 ("parsing never raises"): the translated detect_keyboard_walk never raises and its
   loops never run out of the fuel the translation gives them (length of the password + 1),
   for EVERY password, whatever its length and however many walks it holds - for every
   oracle, and on the instance the correspondence runs *)
Theorem C05_source_keyboard_walk_total : forall isalpha isdigit lower_c pw,
  py_detect_keyboard_walk isalpha isdigit lower_c pw 4 <> None.
Proof. exact py_detect_keyboard_walk_total. Qed.
Theorem C05_source_keyboard_walk_total_c : forall pw, py_keyboard_walk_c pw <> None.
Proof. exact py_keyboard_walk_c_total. Qed.
(* the layouts read off the dict literals of the source are the extracted rows *)
Theorem C05_side_translated_layouts :
  py_kbs = c_kbs /\ c_min_run = 4 /\ NoDup (map b_name py_keyboards) /\ Forall board_ok py_keyboards.
Proof. exact (conj side_py_kbs (conj side_min_run_4 (conj py_keyboards_names_differ py_keyboards_ok))). Qed.
(* the default values of the source: detect_keyboard_walk(password) runs with min_keyboard_run = 4,
   train(password) with set_threshold = False *)
Theorem C05_side_translated_defaults :
  py_detect_keyboard_walk_default_min_keyboard_run = 4 /\ py_mw_train_default_set_threshold = false.
Proof. exact (conj side_default_min_run side_default_set_threshold). Qed.
Theorem keyboard_split_ok_source : forall pw, pw <> [] ->
  exists sl f dk, py_keyboard_walk_c pw = Some (sl, f, dk) /\ tiles c_pm pw sl /\ Forall c_sound sl.
Proof. exact py_keyboard_split_ok. Qed.

(* ---- PCFGPasswordParser.parse over the translated detect_keyboard_walk, email_detection,
   website_detection and MultiWordDetector.parse: no detector is a model parameter any more *)
Theorem C05_source_parse_is_model_ext : forall isalpha isdigit isupper lower_c kbs fp_words min_run tlds thr minl maxl m
    (mwp : str -> option (bool * list str)) (kw : str -> option (list section))
    (em web : list section -> option (list section)) pw,
  (forall x, mwp x = mwparse lower_c thr minl maxl m x) ->
  kw pw = model_keyboard_walk isalpha isdigit lower_c kbs fp_words min_run pw ->
  (forall sl, em sl = model_email_detection lower_c tlds sl) ->
  (forall sl, web sl = model_website_detection isalpha lower_c tlds sl) ->
  py_parse isalpha isdigit isupper lower_c mwp kw em web pw =
  parse_view (parse isalpha isdigit isupper lower_c true kbs fp_words min_run tlds year_prefixes context_strings
                    thr minl maxl m pw).
Proof. exact py_parse_eq_ext. Qed.
Theorem C05_source_parse_full_is_model : forall t m pw, mw_rep t m -> py_parse_full_c t pw = parse_view (parse_c m pw).
Proof. exact py_parse_full_c_is_model. Qed.
Theorem C05_tiling_source_full : forall t pw, mw_reachable t -> pw <> [] ->
  exists sl ys cs al ms ds os, py_parse_full_c t pw = Some (sl, ys, cs, al, ms, ds, os) /\
    tiles c_pm pw sl /\ Forall c_sound sl /\ Forall (fun y => snd y <> None) sl.
Proof. exact py_parse_full_c_tiling. Qed.
Theorem C05_never_raises_source_full : forall t pw, mw_reachable t -> pw <> [] -> py_parse_full_c t pw <> None.
Proof. exact py_parse_full_c_never_raises. Qed.
Example C05_source_full_demo :
  py_parse_full_c t_empty w_demo =
  Some ([([49; 113; 97; 122]%N, Some (LK 4)); ([50; 48; 49; 57]%N, Some LY); ([35; 49]%N, Some LX);
         ([112; 97; 115; 115]%N, Some (LA 4)); ([33]%N, Some (LO 1))],
        [[50; 48; 49; 57]%N], [[35; 49]%N], [[112; 97; 115; 115]%N], [[76; 76; 76; 76]%N], [], [[33]%N]) /\
  py_keyboard_walk_c [116; 101; 115; 116; 49; 113; 97; 122; 116; 101; 115; 116]%N =
  Some ([([116; 101; 115; 116]%N, None); ([49; 113; 97; 122]%N, Some (LK 4)); ([116; 101; 115; 116]%N, None)],
        [[49; 113; 97; 122]%N], [[113; 119; 101; 114; 116; 121]%N]).
Proof. exact demo_py_parse_full. Qed.

Print Assumptions split_driver_tiling.
Print Assumptions C05_tiling.
Print Assumptions C05_counters.
Print Assumptions C05_sound_digit.
Print Assumptions C05_sound_multiword.
Print Assumptions C05_refuted_lower_0130_website.
Print Assumptions C05_source_parse_is_model.
Print Assumptions C05_source_detect_alpha_is_model.
Print Assumptions C05_tiling_source.
Print Assumptions C05_counters_source.
Print Assumptions C05_source_year_detection_total.
Print Assumptions C05_source_mw_train_is_model.
Print Assumptions C05_sound_multiword_source.
Print Assumptions C05_source_detect_website_is_model.
Print Assumptions website_split_ok_source.
Print Assumptions email_split_ok_source.
Print Assumptions C05_source_detect_keyboard_walk_is_model.
Print Assumptions keyboard_split_ok_source.
Print Assumptions C05_source_parse_full_is_model.
Print Assumptions C05_tiling_source_full.
Print Assumptions C05_source_keyboard_walk_total.
Print Assumptions C05_source_keyboard_walk_total_c.

(* ---- translator tie of the trainer's orchestration (harness/translate_trainer_run.py, gen/TrainerRun_gen.v:
   the whole of run_trainer, translated on every run): "every password the trainer accepts is parsed exactly once,
   in pass 2, by one parser".  For EVERY instantiation of the collaborators: a run that returns True made ONE
   PCFGPasswordParser (from the detector as pass 1 left it); the parser is the fold of parse over the sequence the
   reader yields - each password of the sequence once, in order - then goes through print_statistics (which
   returns it unchanged: C06_source_print_statistics_reads_only) and to the writers ---- *)
From Pcfg Require Import TextFile Counters ProbAlg Pipeline WriterRt WriterSpec TrainerRunRt TrainerRunModel TrainerRunProofs TrainerRunGenProofs
     TrainerRunGenFacts TrainerRunInst.
From PcfgGen Require Import TrainerRun_gen.

Theorem C05_source_parsed_exactly_once : forall (O : numops) (C : collab O) (pi : pinfo O) (base : path) (w w' : c_W C),
  py_run_trainer C pi base w = (Ok (Some true), w') ->
  exists (t : trained_objs C) (fi0 fiE : c_FI C) (seq : list TextFile.str) (mw2 : c_MW C) (pp0 pp1 : c_PP C),
    c_TrainerFileInput C (pi_training_file pi) (pi_encoding pi) (pi_prefixcount pi) w = Ok fi0 /\
    c_read_password C fi0 w = (seq, None, fiE) /\
    c_PCFGPasswordParser C mw2 = Ok pp0 /\
    fold_res (c_pp_parse C) seq pp0 = Ok pp1 /\
    c_print_statistics C pp1 = Ok (to_parser t) /\
    passes C pi w = Ok (inr t).
Proof.
  intros O C pi base w w' H. destruct (source_run_true C pi base w w' H) as (t & _ & _ & Hp & Hok & _).
  destruct Hok. exists t. do 6 eexists. repeat (split; [eassumption|]). exact Hp.
Qed.

(* the collaborators instantiated with the component models (Segment.train / Segment.parse; the reader =
   Reader.read_text): the parser handed to the writers holds exactly one result per password of the sequence, in
   order, each the model's segmentation (C05_tiling / C05_counters are about Segment.parse) with the multi-word
   table of pass 1, and its counters are the tallies of these results *)
Theorem C05_source_counters_are_the_tallies :
  forall (A : palg) (R : parith A) (E : env) (path_of : TextFile.str -> path) (rc : option TextFile.str -> bool -> Reader.rcfg)
         (AGt OTt KSt : Type) ag_new ag_step ag_alpha ot_new ot_step ot_smooth ks_of level_of ks_counter
         (repr : num (ops_of R) -> TextFile.str) (encb : TextFile.str -> N -> bool) (calc : counter (ops_of R) -> counter (ops_of R))
         save_config save_omen (pi : pinfo (ops_of R)) (fs : fsys) (nm text : TextFile.str),
  let PC := @pipe_collab A R E path_of rc AGt OTt KSt ag_new ag_step ag_alpha ot_new ot_step ot_smooth ks_of level_of
                         ks_counter repr encb calc save_config save_omen in
  pi_training_file pi = Some nm -> fs_get (path_of nm) fs = Some text ->
  (ostr_truthy (pi_multiword pi) = true -> exists mnm mtext, pi_multiword pi = Some mnm /\ fs_get (path_of mnm) fs = Some mtext) ->
  (e_mw_threshold E = 5%Z /\ e_mw_min_len E = 4%Z /\ e_mw_max_len E = 21%Z) ->
  let seq := Reader.out (Reader.read_text (rc (pi_encoding pi) (pi_prefixcount pi)) text) in
  Reader.npw (Reader.read_text (rc (pi_encoding pi) (pi_prefixcount pi)) text) = Z.of_nat (length seq) ->
  forall (base : path) (fs' : fsys),
  py_run_trainer PC pi base fs = (Ok (Some true), fs') ->
  exists rs : list Segment.parsed,
    let objs := pipe_objs R E path_of rc AGt OTt KSt ag_new ag_step ag_alpha ot_new ot_step ot_smooth ks_of level_of ks_counter
                          repr encb calc save_config save_omen pi fs text rs in
    Forall2 (fun pw x => parse_pw E (mw_pass E (o_multiword (pipe_options R path_of rc pi fs)) seq) pw = Segment.POk x) seq rs /\
    passes PC pi fs = Ok (inr objs) /\
    pp_results R (to_parser objs) = rs /\
    pp_counters R (to_parser objs) = counters_of rs.
Proof.
  intros A R E path_of rc AGt OTt KSt ag_new ag_step ag_alpha ot_new ot_step ot_smooth ks_of level_of ks_counter repr encb calc
         save_config save_omen pi fs nm text PC H1 H2 H3 H4 seq H5 base fs'.
  exact (run_true_parsed_once R E path_of rc AGt OTt KSt ag_new ag_step ag_alpha ot_new ot_step ot_smooth ks_of level_of
           ks_counter repr encb calc save_config save_omen pi fs nm text H1 H2 H3 H4 H5 base fs').
Qed.

Print Assumptions C05_source_parsed_exactly_once.
Print Assumptions C05_source_counters_are_the_tallies.

(* ---- keyboard segments: "adjacent keys" means PHYSICALLY adjacent keys.  KbdGeometry.v
   writes the two keyboards down independently of the source (ANSI geometry, quarter key
   widths).  Every adjacency the model accepts on the layouts regenerated from the source
   holds between physical keys (all pairs of keys, by computation) ... *)
From Pcfg Require Import KbdGeometry KbdGeometryProofs.
Theorem C05_keyboard_adjacency_is_physical : pairing c_kbs phys_layouts = true.
Proof. exact geometry_contains_code_adjacency. Qed.
(* ... so a sound K segment walks over physically adjacent keys of one keyboard *)
Theorem C05_keyboard_segments_are_physical_walks : forall x n,
  c_sound x -> snd x = Some (LK n) ->
  exists pl, In pl phys_layouts /\ phys_walk pl (fst x) = true.
Proof. exact keyboard_segments_are_physical_walks. Qed.
(* side condition on the regenerated layouts: every row list begins with the key the
   stagger of is_next_on_keyboard presupposes (1 / q or й / a or ф / z or я, both shift states) *)
Theorem C05_side_layout_rows_start :
  map row_starts c_kbs =
  [ [Some 49; Some 33; Some 113; Some 81; Some 97; Some 65; Some 122; Some 90]%N;
    [Some 49; Some 33; Some 1081; Some 1049; Some 1092; Some 1060; Some 1103; Some 1071]%N ].
Proof. exact layout_rows_start_at_the_staggered_column. Qed.
Example C05_physical_walk_examples :
  phys_walk phys_qwerty [49; 113; 97; 122]%N = true /\
  phys_walk phys_jcuken [49; 1081; 1092; 1103]%N = true /\
  phys_walk phys_qwerty [50; 101; 100; 99]%N = false /\
  phys_walk phys_jcuken [50; 1091; 1074; 1089]%N = false /\
  phys_walk phys_jcuken [1105; 49; 1081; 1092]%N = true.
Proof. exact phys_walk_examples. Qed.

Print Assumptions C05_keyboard_adjacency_is_physical.
Print Assumptions C05_keyboard_segments_are_physical_walks.
Print Assumptions C05_side_layout_rows_start.
