(* C05 - training segments every password into a lossless, soundly typed
   tiling.  Property theorems only. *)
From Coq Require Import List ZArith NArith Bool.
From Pcfg Require Import Str Multiword Detect Segment SegCorr DetectProofsStr DetectProofsDrive DetectProofsSimple
     DetectProofsMw DetectProofsSeg DetectProofsInst.
From PcfgGen Require Import Consts_gen Unicode_gen.
Import ListNotations.
Open Scope Z_scope.

(* ---- side conditions on the data regenerated on every run *)

(* sweep of all code points of the running interpreter: lower() changes the
   length of exactly U+0130, and never the class of a character *)
Theorem C05_unicode_lower_expanding : lower_expanding = [304%N].
Proof. exact lower_expanding_is_0130. Qed.
Theorem C05_unicode_lower_keeps_class : lower_class_mismatch = [].
Proof. exact lower_class_mismatch_none. Qed.
(* every character except U+0130 (pool table, default class outside it) has a
   one-character lower() of the same class *)
Theorem C05_unicode_good : forall c, c <> 304%N -> goodc c_isalpha c_isdigit c_lower c.
Proof. exact goodc_except_0130. Qed.
Theorem C05_side_multiword_min_len : 1 <= c_min_len.
Proof. exact side_min_len. Qed.
Theorem C05_side_year_prefixes : Forall (fun q => len q = 2) year_prefixes.
Proof. exact side_year_prefixes. Qed.

(* ---- the generic split driver *)

Theorem split_driver_tiling :
  forall (F : Type) (detect : str -> dres F) (reex : bool) (pm : str -> section -> Prop),
  (forall piece s, pm piece (s, None) <-> piece = s) ->
  forall (Inv : str -> Prop) (Q : section -> Prop),
  (forall s, Inv s -> detect s <> DErr) ->
  (forall s p f, Inv s -> Q (s, None) -> detect s = DYes p f -> split_ok pm Inv Q s p) ->
  forall todo, unlab_all Inv todo -> Forall Q todo ->
  exists out fs, drive_all detect reex todo = Some (out, fs) /\
    (forall x, tiles pm x todo -> tiles pm x out) /\ Forall Q out /\ unlab_all Inv out.
Proof. exact DetectProofsDrive.split_driver_tiling. Qed.

(* ---- the pipeline.  PARTIAL: the keyboard-walk, e-mail and website
   detectors enter through the explicit hypotheses c_kw_split_ok,
   c_email_split_ok, c_website_split_ok (statements about the very functions
   the model runs).  Full statement = the same without these three
   hypotheses. *)
Theorem C05_tiling_partial :
  c_kw_split_ok -> c_email_split_ok -> c_website_split_ok ->
  forall m pw, pw <> [] -> ~ In 304%N pw ->
  exists r, parse_c m pw = POk r /\ tiles c_pm pw (p_sections r) /\ Forall c_sound (p_sections r) /\
            Forall (fun y => snd y <> None) (p_sections r).
Proof. exact parse_c_ok. Qed.

Print Assumptions split_driver_tiling.
Print Assumptions C05_tiling_partial.
