(* C14 - skip_brute and all_lower are pure restrictions.  Theorems only. *)
From Coq Require Import List Bool NArith.
From Coq Require Import QArith Sorting.Permutation.
From Coq Require Import Floats.
From Pcfg Require Import Expand ExpandCorr Loader LoaderCorr F64 F64Div ProbAlg Next NextSpec NextProofs QProb QSum QStream.
From PcfgGen Require Import Consts_gen.

(* side conditions on facts re-extracted from the source on every run *)
Theorem C14_source_rewinds_without_markov : skip_brute_rewinds_without_M = true.
Proof. reflexivity. Qed.
Theorem C14_source_reads_save_before_grammar : load_save_before_grammar = true.
Proof. reflexivity. Qed.

(* Markov structure present at any position: the skip_brute list is the plain
   list without the Markov structures, each probability divided by 1 - P(M) *)
Theorem C14_bases_with_markov :
  forall (P : Type) (one : P) (psub pdiv : P -> P -> P) (iszero : P -> bool) (isalpha : N -> bool) rw ls pm l0,
  Forall (fun l => pdiv (snd l) one = snd l) ls ->
  scan_M ls = Some pm -> iszero (psub one pm) = false ->
  load_bases one psub pdiv iszero isalpha rw false ls = Some l0 ->
  load_bases one psub pdiv iszero isalpha rw true ls =
    Some (map (fun b => (pdiv (fst b) (psub one pm), snd b)) (filter (fun b => negb (has_M (snd b))) l0)).
Proof. exact (fun P one psub pdiv iszero isalpha rw ls pm l0 => load_bases_skip_with_M one psub pdiv iszero isalpha rw ls pm l0). Qed.

(* no Markov structure: skip_brute changes nothing (given the rewind) *)
Theorem C14_bases_without_markov :
  forall (P : Type) (one : P) (psub pdiv : P -> P -> P) (iszero : P -> bool) (isalpha : N -> bool) ls,
  scan_M ls = None -> no_M_token isalpha ls ->
  load_bases one psub pdiv iszero isalpha true true ls = load_bases one psub pdiv iszero isalpha true false ls.
Proof. exact (fun P one psub pdiv iszero isalpha ls => load_bases_skip_without_M one psub pdiv iszero isalpha ls). Qed.

(* the code as found before the fix: an empty base list, i.e. no guesses *)
Theorem C14_refuted_no_rewind :
  forall (P : Type) (one : P) (psub pdiv : P -> P -> P) (iszero : P -> bool) (isalpha : N -> bool) ls,
  scan_M ls = None -> load_bases one psub pdiv iszero isalpha false true ls = Some nil.
Proof. exact (fun P one psub pdiv iszero isalpha ls => load_bases_norewind_empty one psub pdiv iszero isalpha ls). Qed.

Theorem C14_flags_from_save : forall cmdline saved, flags_used_on_load true cmdline saved = saved.
Proof. exact flags_from_save. Qed.
Theorem C14_refuted_flags : flags_used_on_load false (false, false) (true, true) <> (true, true).
Proof. exact flags_refuted_cmdline. Qed.

(* the stream-level statement, over exact rationals: with the base list
   restricted by [keepb] (not the Markov structure) and rescaled by c > 0
   (c = 1/(1-P(M))), the run of the restricted grammar is, item by item, the kept
   part of the default run with probabilities multiplied by c - in the same
   order up to permutations inside classes of equal probability (for any two
   heaps meeting the contract) ... *)
Theorem C14_stream_Q :
  forall (rs : Qruleset), wf rs -> forall (keepb : Qbstruct -> bool) (c : Q), (0 < c)%Q ->
  forall pop pop', pop_ok_okb pop -> pop_ok_okb pop' ->
  let out := rev (emitted (run pop rs (total rs) (start rs))) in
  let out' := rev (emitted (run pop' (rescaled rs keepb c) (total (rescaled rs keepb c)) (start (rescaled rs keepb c)))) in
  exists l, Permutation l (filter (keep_item rs keepb) out) /\ nonincreasing l /\
            nonincreasing (filter (keep_item rs keepb) out) /\ Forall2 (Rel c) out' l.
Proof. exact C14_stream_Q. Qed.

(* ... and in exactly the same order when no two kept pre-terminals tie *)
Theorem C14_stream_Q_no_ties :
  forall (rs : Qruleset), wf rs -> forall (keepb : Qbstruct -> bool) (c : Q), (0 < c)%Q ->
  forall pop pop', pop_ok_okb pop -> pop_ok_okb pop' ->
  (forall x y, In x (filter (keep_item rs keepb) (all_preterminals rs)) ->
               In y (filter (keep_item rs keepb) (all_preterminals rs)) -> (iprob x == iprob y)%Q -> x = y) ->
  let out := rev (emitted (run pop rs (total rs) (start rs))) in
  let out' := rev (emitted (run pop' (rescaled rs keepb c) (total (rescaled rs keepb c)) (start (rescaled rs keepb c)))) in
  Forall2 (Rel c) out' (filter (keep_item rs keepb) out) /\
  map ipt out' = map ipt (filter (keep_item rs keepb) out).
Proof. exact C14_stream_Q_no_ties. Qed.

(* binary64: no hypothesis about the division is left - x / 1.0 = x for every
   finite double (div_one_F), so the loader that the correspondence runs obeys the
   statement for every grammar.txt whose probabilities are finite and >= 0 *)
Theorem C14_bases_with_markov_binary64 :
  forall rw (ls : list (str * PrimFloat.float)) pm l0,
  Forall (fun l => okbF (snd l) = true) ls ->
  scan_M ls = Some pm -> PrimFloat.eqb (1 - pm) 0 = false ->
  load_bases_F rw false ls = Some l0 ->
  load_bases_F rw true ls =
    Some (map (fun b => ((fst b / (1 - pm))%float, snd b)) (filter (fun b => negb (has_M (snd b))) l0)).
Proof. exact load_bases_F_skip_with_M. Qed.

Theorem C14_division_by_one_is_exact : forall x : PrimFloat.float, okF x -> (x / 1)%float = x.
Proof. exact div_one_F. Qed.

Print Assumptions C14_bases_with_markov.
Print Assumptions C14_bases_with_markov_binary64.
Print Assumptions C14_stream_Q.
Print Assumptions C14_bases_without_markov.
