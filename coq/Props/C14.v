(* C14 - skip_brute and all_lower are pure restrictions.  Theorems only. *)
From Coq Require Import List Bool NArith.
From Coq Require Import QArith Sorting.Permutation.
From Coq Require Import Floats.
From Pcfg Require Import Expand ExpandCorr Loader LoaderCorr F64 F64Div ProbAlg Next NextSpec NextProofs QProb QSum QStream.
From PcfgGen Require Import Consts_gen.
From Coq Require Import ZArith.
From Pcfg Require Import LoaderRt LoaderGenProofs.
From PcfgGen Require Import Loader_gen.
Import ListNotations.

(* side conditions on facts re-extracted from the source on every run *)
Theorem C14_source_rewinds_without_markov : skip_brute_rewinds_without_M = true.
Proof. reflexivity. Qed.
Theorem C14_source_reads_save_before_grammar : load_save_before_grammar = true.
Proof. reflexivity. Qed.

(* Markov structure present at any position: the skip_brute list is the plain
   list without the Markov structures, each probability divided by 1 - P(M) *)
Theorem C14_bases_with_markov :
  forall (P : Type) (one : P) (psub pdiv : P -> P -> P) (iszero : P -> bool) (isalpha : N -> bool) rw ls pm l0,
  Forall (fun l => pdiv (snd l) one = snd l) ls ->
  scan_M ls = Some pm -> iszero (psub one pm) = false ->
  load_bases one psub pdiv iszero isalpha rw false ls = Some l0 ->
  load_bases one psub pdiv iszero isalpha rw true ls =
    Some (map (fun b => (pdiv (fst b) (psub one pm), snd b)) (filter (fun b => negb (has_M (snd b))) l0)).
Proof. exact (fun P one psub pdiv iszero isalpha rw ls pm l0 => load_bases_skip_with_M one psub pdiv iszero isalpha rw ls pm l0). Qed.

(* no Markov structure: skip_brute changes nothing (given the rewind) *)
Theorem C14_bases_without_markov :
  forall (P : Type) (one : P) (psub pdiv : P -> P -> P) (iszero : P -> bool) (isalpha : N -> bool) ls,
  scan_M ls = None -> no_M_token isalpha ls ->
  load_bases one psub pdiv iszero isalpha true true ls = load_bases one psub pdiv iszero isalpha true false ls.
Proof. exact (fun P one psub pdiv iszero isalpha ls => load_bases_skip_without_M one psub pdiv iszero isalpha ls). Qed.

(* the code as found before the fix: an empty base list, i.e. no guesses *)
Theorem C14_refuted_no_rewind :
  forall (P : Type) (one : P) (psub pdiv : P -> P -> P) (iszero : P -> bool) (isalpha : N -> bool) ls,
  scan_M ls = None -> load_bases one psub pdiv iszero isalpha false true ls = Some nil.
Proof. exact (fun P one psub pdiv iszero isalpha ls => load_bases_norewind_empty one psub pdiv iszero isalpha ls). Qed.

Theorem C14_flags_from_save : forall cmdline saved, flags_used_on_load true cmdline saved = saved.
Proof. exact flags_from_save. Qed.
Theorem C14_refuted_flags : flags_used_on_load false (false, false) (true, true) <> (true, true).
Proof. exact flags_refuted_cmdline. Qed.

(* the stream-level statement, over exact rationals: with the base list
   restricted by [keepb] (not the Markov structure) and rescaled by c > 0
   (c = 1/(1-P(M))), the run of the restricted grammar is, item by item, the kept
   part of the default run with probabilities multiplied by c - in the same
   order up to permutations inside classes of equal probability (for any two
   heaps meeting the contract) ... *)
Theorem C14_stream_Q :
  forall (rs : Qruleset), wf rs -> forall (keepb : Qbstruct -> bool) (c : Q), (0 < c)%Q ->
  forall pop pop', pop_ok_okb pop -> pop_ok_okb pop' ->
  let out := rev (emitted (run pop rs (total rs) (start rs))) in
  let out' := rev (emitted (run pop' (rescaled rs keepb c) (total (rescaled rs keepb c)) (start (rescaled rs keepb c)))) in
  exists l, Permutation l (filter (keep_item rs keepb) out) /\ nonincreasing l /\
            nonincreasing (filter (keep_item rs keepb) out) /\ Forall2 (Rel c) out' l.
Proof. exact C14_stream_Q. Qed.

(* ... and in exactly the same order when no two kept pre-terminals tie *)
Theorem C14_stream_Q_no_ties :
  forall (rs : Qruleset), wf rs -> forall (keepb : Qbstruct -> bool) (c : Q), (0 < c)%Q ->
  forall pop pop', pop_ok_okb pop -> pop_ok_okb pop' ->
  (forall x y, In x (filter (keep_item rs keepb) (all_preterminals rs)) ->
               In y (filter (keep_item rs keepb) (all_preterminals rs)) -> (iprob x == iprob y)%Q -> x = y) ->
  let out := rev (emitted (run pop rs (total rs) (start rs))) in
  let out' := rev (emitted (run pop' (rescaled rs keepb c) (total (rescaled rs keepb c)) (start (rescaled rs keepb c)))) in
  Forall2 (Rel c) out' (filter (keep_item rs keepb) out) /\
  map ipt out' = map ipt (filter (keep_item rs keepb) out).
Proof. exact C14_stream_Q_no_ties. Qed.

(* binary64: no hypothesis about the division is left - x / 1.0 = x for every
   finite double (div_one_F), so the loader that the correspondence runs obeys the
   statement for every grammar.txt whose probabilities are finite and >= 0 *)
Theorem C14_bases_with_markov_binary64 :
  forall rw (ls : list (str * PrimFloat.float)) pm l0,
  Forall (fun l => okbF (snd l) = true) ls ->
  scan_M ls = Some pm -> PrimFloat.eqb (1 - pm) 0 = false ->
  load_bases_F rw false ls = Some l0 ->
  load_bases_F rw true ls =
    Some (map (fun b => ((fst b / (1 - pm))%float, snd b)) (filter (fun b => negb (has_M (snd b))) l0)).
Proof. exact load_bases_F_skip_with_M. Qed.

Theorem C14_division_by_one_is_exact : forall x : PrimFloat.float, okF x -> (x / 1)%float = x.
Proof. exact div_one_F. Qed.

Print Assumptions C14_bases_with_markov.
Print Assumptions C14_bases_with_markov_binary64.
Print Assumptions C14_stream_Q.
Print Assumptions C14_bases_without_markov.

(* ---- second tie to the source: gen/Loader_gen.v is the translation of the Python text of
   lib_guesser/grammar_io.py _load_base_structures (harness/translate_loader.py, redone on every
   run): both passes over the file with the file cursor (seek(0) in the found / not-found cases),
   the division by total_prob (ZeroDivisionError), the tokenisation, the skip_brute filter and the
   while loop that inserts C<n> behind A<n>.  Called on an empty list it returns what the model
   loader (with the rewind) returns on the parsed lines: for every carrier of the probabilities
   [fo] (binary64 or exact), every whitespace / alphabetic class and float(), every grammar.txt
   (the lines the iteration yields) all of whose lines parse ([parse_all]), both values of
   skip_brute and any fuel above twice the longest structure string.  [bases_done r m]: r = Done
   (the model's list, True), or r = Done (what was stored so far, False) where the model fails
   (ZeroDivisionError, a structure that starts with a non-letter). *)
Theorem C14_source_load_base_structures_is_model :
  forall (fo : fops) (ws isalpha : N -> bool) (pfloat : pstr -> option (F fo))
         (bopen : pstr -> option (list pstr)) (pjoin : list pstr -> pstr)
         (fuel : nat) (dir folder : pstr) (skip : bool) (lines : list pstr) (ls : list (str * F fo)),
  bopen (pjoin [dir; folder; grammar_txt]) = Some lines ->
  parse_all fo ws pfloat lines = Some ls ->
  Forall (fun l => (2 * length (fst l) < fuel)%nat) ls ->
  bases_done fo (py_load_base_structures fo ws isalpha pfloat bopen pjoin fuel [] dir skip folder)
             (load_bases (f_one fo) (f_sub fo) (f_div fo) (f_iszero fo) isalpha true skip ls).
Proof. exact load_base_structures_eq. Qed.

(* ... and a grammar.txt with a line that does not parse (fewer than two fields, or a second field
   float() rejects) makes the translated loader return False, for both values of skip_brute and any
   fuel: together with the theorem above this covers every file *)
Theorem C14_source_unparsable_file_fails :
  forall (fo : fops) (ws isalpha : N -> bool) (pfloat : pstr -> option (F fo))
         (bopen : pstr -> option (list pstr)) (pjoin : list pstr -> pstr)
         (fuel : nat) (dir folder : pstr) (skip : bool) (lines : list pstr),
  bopen (pjoin [dir; folder; grammar_txt]) = Some lines ->
  parse_all fo ws pfloat lines = None ->
  exists bs, py_load_base_structures fo ws isalpha pfloat bopen pjoin fuel [] dir skip folder = Done (bs, false).
Proof. exact load_base_structures_unparsable. Qed.

(* the fuel of the generated `while` (no counterpart in Python) is never exhausted *)
Theorem C14_source_never_out_of_fuel :
  forall (fo : fops) (ws isalpha : N -> bool) (pfloat : pstr -> option (F fo))
         (bopen : pstr -> option (list pstr)) (pjoin : list pstr -> pstr)
         (fuel : nat) (dir folder : pstr) (skip : bool) (lines : list pstr) (ls : list (str * F fo)),
  bopen (pjoin [dir; folder; grammar_txt]) = Some lines ->
  parse_all fo ws pfloat lines = Some ls ->
  Forall (fun l => (2 * length (fst l) < fuel)%nat) ls ->
  py_load_base_structures fo ws isalpha pfloat bopen pjoin fuel [] dir skip folder <> Fail EOutOfFuel.
Proof. exact load_base_structures_never_out_of_fuel. Qed.

Theorem C14_source_no_file :
  forall (fo : fops) (ws isalpha : N -> bool) (pfloat : pstr -> option (F fo))
         (bopen : pstr -> option (list pstr)) (pjoin : list pstr -> pstr)
         (fuel : nat) bs (dir folder : pstr) (skip : bool),
  bopen (pjoin [dir; folder; grammar_txt]) = None ->
  py_load_base_structures fo ws isalpha pfloat bopen pjoin fuel bs dir skip folder = Done (bs, false).
Proof. exact load_base_structures_no_file. Qed.

(* C14_bases_with_markov restated over the translated function *)
Theorem C14_bases_with_markov_translated :
  forall (fo : fops) (ws isalpha : N -> bool) (pfloat : pstr -> option (F fo))
         (bopen : pstr -> option (list pstr)) (pjoin : list pstr -> pstr)
         (fuel : nat) (dir folder : pstr) (lines : list pstr) (ls : list (str * F fo)) (pm : F fo) bs0,
  bopen (pjoin [dir; folder; grammar_txt]) = Some lines ->
  parse_all fo ws pfloat lines = Some ls ->
  Forall (fun l => (2 * length (fst l) < fuel)%nat) ls ->
  Forall (fun l => f_div fo (snd l) (f_one fo) = snd l) ls ->
  scan_M ls = Some pm -> f_iszero fo (f_sub fo (f_one fo) pm) = false ->
  py_load_base_structures fo ws isalpha pfloat bopen pjoin fuel [] dir false folder = Done (bs0, true) ->
  py_load_base_structures fo ws isalpha pfloat bopen pjoin fuel [] dir true folder =
    Done (map (fun b => {| bs_prob := f_div fo (bs_prob b) (f_sub fo (f_one fo) pm); bs_repl := bs_repl b |})
              (filter (fun b => negb (rt_in [77%N] (bs_repl b))) bs0), true).
Proof. exact bases_with_markov_translated. Qed.

(* C14_bases_without_markov restated over the translated function *)
Theorem C14_bases_without_markov_translated :
  forall (fo : fops) (ws isalpha : N -> bool) (pfloat : pstr -> option (F fo))
         (bopen : pstr -> option (list pstr)) (pjoin : list pstr -> pstr)
         (fuel : nat) (dir folder : pstr) (lines : list pstr) (ls : list (str * F fo)) l0,
  bopen (pjoin [dir; folder; grammar_txt]) = Some lines ->
  parse_all fo ws pfloat lines = Some ls ->
  Forall (fun l => (2 * length (fst l) < fuel)%nat) ls ->
  scan_M ls = None -> no_M_token isalpha ls ->
  load_bases (f_one fo) (f_sub fo) (f_div fo) (f_iszero fo) isalpha true false ls = Some l0 ->
  py_load_base_structures fo ws isalpha pfloat bopen pjoin fuel [] dir true folder = Done (map (base_of fo) l0, true) /\
  py_load_base_structures fo ws isalpha pfloat bopen pjoin fuel [] dir false folder = Done (map (base_of fo) l0, true).
Proof. exact bases_without_markov_translated. Qed.

(* non-vacuity: "A2D1 0.5 / M 0.25 / D3 0.25" in binary64: the lines parse, the translated loader
   computes the rescaled list without the Markov structure, C2 behind A2 *)
Theorem C14_source_example :
  parse_all F64ops ex_ws ex_pfloat ex_grammar =
    Some [([65; 50; 68; 49]%N, 0.5%float); ([77]%N, 0.25%float); ([68; 51]%N, 0.25%float)] /\
  py_load_base_structures F64ops ex_ws ex_alpha ex_pfloat ex_open ex_join 20 [] [] true [] =
  Done ([{| bs_prob := (0.5 / (1 - 0.25))%float; bs_repl := [[65; 50]; [67; 50]; [68; 49]]%N |};
         {| bs_prob := (0.25 / (1 - 0.25))%float; bs_repl := [[68; 51]]%N |}], true).
Proof. exact (conj ex_grammar_parses ex_skip_brute_load). Qed.

Print Assumptions C14_source_load_base_structures_is_model.
Print Assumptions C14_bases_with_markov_translated.
Print Assumptions C14_bases_without_markov_translated.

(* ---- translator tie of the command line / save-file glue (task T17): gen/Cli_gen.v is the
   translation of pcfg_guesser.py (main, parse_command_line, create_save_config, load_save;
   harness/translate_cli.py, redone on every run) over the runtime CliRt.v; argparse is the total
   function CliModel.ap_parse from the argv token list (None = SystemExit), configparser a string
   map, the file system / os.path / PcfgGrammar / int() the oracles of the record [env].  The
   generated functions equal the hand-written model for EVERY argv, save file and oracle: *)
From Coq Require Import String.
From Pcfg Require Import CliModel CliModelProofs CliRt CliGenProofs.
From PcfgGen Require Import Cli_gen.

Theorem C14_source_parse_command_line_is_model : forall E log,
  py_parse_command_line E {| w_pi := py_main_program_info; w_log := log |} =
  match m_parse (e_int_of E) (e_argv E) with
  | None => (Exc SystemExit, {| w_pi := py_main_program_info; w_log := log |})
  | Some (b, o) => (Retn (VBool b), {| w_pi := pi_store_options o py_main_program_info; w_log := log |})
  end.
Proof. exact parse_command_line_eq. Qed.

Theorem C14_source_load_save_is_model : forall E name w,
  load_spec (m_load_save (e_fs E name)) w (py_load_save E (VStr name) w).
Proof. exact load_save_eq. Qed.

Theorem C14_source_create_save_config_is_model : forall E w rule sb sc,
  d_get (lit "rule_name") (w_pi w) = Some (VStr rule) ->
  d_get (lit "skip_brute") (w_pi w) = Some (VBool sb) ->
  d_get (lit "skip_case") (w_pi w) = Some (VBool sc) ->
  py_create_save_config E w = (Retn (VCfg (m_create_save_config (e_now E) rule sb sc)), w).
Proof. exact create_save_config_eq. Qed.

Theorem C14_source_main_is_model : forall E, run_main (py_main E) world0 = m_main E gen_version.
Proof. exact main_eq. Qed.

(* parse_args never returns an ill-typed namespace: the options record of the model is total *)
Theorem C14_parse_args_typed : forall int_of argv ns, ap_parse int_of guesser_parser argv = Some ns ->
  exists o, ns = ns_of_options o /\ options_of_ns ns = Some o.
Proof. exact guesser_ns_typed. Qed.

(* (1) on --load (true_prob_order) the grammar is built with exactly the saved rule name,
   skip_brute and skip_case, whatever flags are typed - for every argv and every saved configuration *)
Theorem C14_load_uses_saved_flags : forall E o c rule sb sc e log,
  m_parse (e_int_of E) (e_argv E) = Some (true, o) -> resumes o = true ->
  m_load_save (e_fs E (save_name E o)) = LOk c rule sb sc ->
  run_main (py_main E) world0 = (e, log) ->
  exists g rest, log = EGrammar g :: rest /\ no_grammar rest /\
    gc_rule_name g = VStr rule /\ gc_skip_brute g = VBool sb /\ gc_skip_case g = VBool sc /\
    gc_base_directory g = VStr (e_pjoin E [e_script_dir E; lit "Rules"; rule]) /\
    gc_save_file g = VStr (save_name E o).
Proof. exact source_load_uses_saved. Qed.

(* ... and when the save file cannot be used, main stops before any grammar is built *)
Theorem C14_load_failure_builds_nothing : forall E o,
  m_parse (e_int_of E) (e_argv E) = Some (true, o) -> resumes o = true ->
  match m_load_save (e_fs E (save_name E o)) with
  | LFail => run_main (py_main E) world0 = (MDone, [])
  | LCrash e => run_main (py_main E) world0 = (MRaise e, [])
  | LOk _ _ _ _ => True
  end.
Proof. exact source_load_failure. Qed.

(* what load_save accepts: the five options, both flags boolean words (getboolean) *)
Theorem C14_load_save_checks : forall c rule sb sc, m_load_save (FCfg c) = LOk c rule sb sc ->
  cfg_lookup k_rule_info (lit "rule_name") c = Some rule /\
  (exists s, cfg_lookup k_rule_info (lit "skip_brute") c = Some s /\ boolean_of s = Some sb) /\
  (exists s, cfg_lookup k_rule_info (lit "skip_case") c = Some s /\ boolean_of s = Some sc) /\
  cfg_has_option k_rule_info (lit "uuid") c = true /\ cfg_has_option k_session_info (lit "last_updated") c = true.
Proof. exact load_save_checks. Qed.

(* (2) round trip: load_save of what create_save_config wrote (completed by main's uuid, the
   session's last_updated and anything under guessing_info) gives back exactly the saved fields *)
Theorem C14_save_load_round_trip : forall E w rule sb sc,
  d_get (lit "rule_name") (w_pi w) = Some (VStr rule) ->
  d_get (lit "skip_brute") (w_pi w) = Some (VBool sb) ->
  d_get (lit "skip_case") (w_pi w) = Some (VBool sc) ->
  exists cfg0, py_create_save_config E w = (Retn (VCfg cfg0), w) /\
    forall E' name uuid stamp guessing w',
      let saved := set_guessing guessing (cfg_set_in k_session_info (lit "last_updated") stamp
                                            (cfg_set_in k_rule_info (lit "uuid") uuid cfg0)) in
      e_fs E' name = FCfg saved ->
      py_load_save E' (VStr name) w' =
      (Retn (VCfg saved), {| w_pi := pi_store_saved rule sb sc (w_pi w'); w_log := w_log w' |}).
Proof. exact source_save_load_round_trip. Qed.

(* (3) without a restored session the typed flags are used ... *)
Theorem C14_typed_flags_used : forall E o e log,
  m_parse (e_int_of E) (e_argv E) = Some (true, o) -> resumes o = false ->
  run_main (py_main E) world0 = (e, log) ->
  exists g rest, log = EGrammar g :: rest /\ no_grammar rest /\
    gc_rule_name g = VStr (o_rule o) /\ gc_skip_brute g = VBool (o_skip_brute o) /\
    gc_skip_case g = VBool (o_skip_case o) /\ gc_debug g = VBool (o_debug o) /\
    gc_save_file g = VStr (save_name E o).
Proof. exact source_uses_typed. Qed.

(* ... and a toggle (store_const, default False, const True) is True exactly when its option occurs
   on the command line, once or several times *)
Theorem C14_toggles_are_store_const : forall int_of argv occs o,
  ap_occs guesser_parser argv = Some occs -> m_options int_of argv = Some o ->
  o_load o = existsb (occ_dest_is (lit "load")) occs /\
  o_skip_brute o = existsb (occ_dest_is (lit "skip_brute")) occs /\
  o_skip_case o = existsb (occ_dest_is (lit "skip_case")) occs /\
  o_debug o = existsb (occ_dest_is (lit "debug")) occs.
Proof. exact guesser_toggles. Qed.

(* a toggle token is one occurrence and leaves the reading of the rest unchanged (so typing it twice
   gives two occurrences, hence the same value as typing it once) *)
Theorem C14_toggle_token : forall p t o f argv, classify p t = TOpt o f None -> takes_arg o = false ->
  str_eqb [45; 45]%N t = false ->
  ap_occs p (t :: argv) = option_map (cons (o, None)) (ap_occs p argv).
Proof. exact ap_occs_toggle. Qed.

(* ... so that a toggle typed twice anywhere on a command line gives every toggle the value it has
   when it is typed once *)
Theorem C14_toggle_twice_is_once : forall p t o f a b c oa ob oc,
  classify p t = TOpt o f None -> takes_arg o = false -> str_eqb [45; 45]%N t = false ->
  ap_occs p a = Some oa -> ap_occs p b = Some ob -> ap_occs p c = Some oc ->
  exists twice once,
    ap_occs p (a ++ t :: b ++ t :: c)%list = Some twice /\ ap_occs p (a ++ t :: b ++ c)%list = Some once /\
    forall d, existsb (occ_dest_is d) twice = existsb (occ_dest_is d) once.
Proof. exact toggle_twice_is_once. Qed.

(* non-vacuity of the toggle theorems: --skip_brute twice, once, not at all, and with a value *)
Theorem C14_toggle_example :
  m_options int_ascii (map lit ["--skip_brute"; "-r"; "X"; "--skip_brute"; "--all_lower"]%string) =
  m_options int_ascii (map lit ["-r"; "X"; "--all_lower"; "--skip_brute"]%string) /\
  option_map o_skip_brute (m_options int_ascii (map lit ["--skip_brute"; "--skip_brute"]%string)) = Some true /\
  option_map o_skip_brute (m_options int_ascii (map lit ["--all_lower"]%string)) = Some false /\
  m_options int_ascii (map lit ["--skip_brute=1"]%string) = None /\
  classify guesser_parser (lit "--skip_brute") = TOpt o_skip_brute_opt (lit "--skip_brute") None.
Proof. exact toggle_example. Qed.

(* non-vacuity: --load --skip_brute -n 5 -s s1 against a session saved with rule R, skip_brute
   False, all_lower True *)
Theorem C14_source_cli_example :
  m_parse (e_int_of ex_env) (e_argv ex_env) =
    Some (true, {| o_rule := lit "Default"; o_session := lit "s1"; o_load := true; o_limit := Some 5%Z;
                   o_skip_brute := true; o_skip_case := false; o_debug := false; o_mode := mode_tpo |}) /\
  m_load_save (e_fs ex_env (lit "/x/s1.sav")) = LOk ex_saved (lit "R") false true.
Proof. exact ex_hypotheses. Qed.

Print Assumptions C14_source_main_is_model.
Print Assumptions C14_load_uses_saved_flags.
Print Assumptions C14_save_load_round_trip.
Print Assumptions C14_typed_flags_used.
Print Assumptions C14_toggles_are_store_const.
Print Assumptions C14_toggle_twice_is_once.
