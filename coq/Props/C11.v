(* C11 - trainer, scorer and guesser agree on every string's OMEN level.
   Property theorems only.  Models: theories/OmenLevel.v (trainer tables after
   smoothing, find_omen_level, the IP/EP/CP/LN writers, OmenScorer's readers and
   parse, the guesser's reader view) and theories/OmenSpec.v (what the Markov
   generator must emit per level).  Proofs: theories/OmenLevelProofs.v; the translator
   tie at the end: theories/OmenRt.v, gen/OmenLevel_gen.v, theories/OmenLevelGenProofs.v. *)
From Coq Require Import List Arith NArith ZArith.
From Pcfg Require Import OmenSpec OmenLevel OmenLevelProofs.
From PcfgGen Require Import Consts_gen.
Import ListNotations.

(* side condition on a constant re-extracted from the source on every run: the
   range of levels the guesser's loader accepts is the one the model uses *)
Theorem C11_source_guesser_max_level : guesser_max_level_src = guesser_max_level.
Proof. reflexivity. Qed.

(* the scorer's level of ANY string (any length: below the n-gram size, equal to
   it, above the maximum; any characters) is the trainer's level, -1 as None *)
Theorem C11_scorer_eq_trainer :
  forall T, wf_ttab T -> forall s, scorer_level (load_s (write T)) s = trainer_level T s.
Proof. exact ol_scorer_eq_trainer. Qed.

(* the guesser loads the written directory, and the strings its generator must
   emit at target level L are exactly the strings the trainer puts at level L *)
Theorem C11_guesser_iff :
  forall T, wf_ttab T -> levels_le guesser_max_level T ->
  exists G, load_g (write T) = Some G /\ wf_tables G /\
  forall s L, In s (level_strings G (Z.of_nat L)) <-> trainer_level T s = Some L.
Proof. exact ol_guesser_iff. Qed.

(* ... each of them exactly once, and never at a level that is not a natural number *)
Theorem C11_guesser_once :
  forall G, wf_tables G -> forall T, NoDup (level_strings G T).
Proof. exact ol_NoDup_level_strings. Qed.

Theorem C11_guesser_level_nonneg :
  forall G, wf_tables G -> forall T s, In s (level_strings G T) -> (0 <= T)%Z.
Proof. exact ol_level_strings_neg. Qed.

(* the set-level statement about OmenSpec alone (C10_set), for every well-formed directory *)
Theorem C11_level_strings_iff_level_of :
  forall G, wf_tables G -> forall s L, In s (level_strings G (Z.of_nat L)) <-> level_of G s = Some L.
Proof. exact ol_level_strings_iff. Qed.

(* the three together *)
Theorem C11_three_way :
  forall T, wf_ttab T -> levels_le guesser_max_level T -> forall s L,
    (trainer_level T s = Some L <-> scorer_level (load_s (write T)) s = Some L) /\
    (trainer_level T s = Some L <-> In s (level_strings (gview T) (Z.of_nat L))).
Proof. exact ol_three_way. Qed.

(* omen_pws_per_level: the count saved for a key is the number of training
   passwords the trainer puts at that level (None = -1 = not generable) ... *)
Theorem C11_counts :
  forall T pws k,
  count_at (levels_count T pws) k = length (filter (fun pw => olevel_eqb (trainer_level T pw) k) pws).
Proof. exact ol_counts. Qed.

(* ... hence the number of training passwords the guesser produces at that level *)
Theorem C11_counts_guesser :
  forall T, wf_ttab T -> levels_le guesser_max_level T -> forall pws L,
  count_at (levels_count T pws) (Some L) =
  length (filter (fun pw => existsb (ostr_eqb pw) (level_strings (gview T) (Z.of_nat L))) pws).
Proof. exact ol_counts_guesser. Qed.

(* --- with the readers' line framing and codec made explicit ---
   The scorer obtains the written line lists when it decodes the files with the
   codec they were written with and no string of the tables contains TAB or
   one of its reader's line ends; then it agrees with the trainer on every string *)
Theorem C11_scorer_reads_and_agrees :
  forall sbreaks T, wf_ttab T -> chars_avoid (TABc :: sbreaks) T ->
  exists Sc, read_s true sbreaks (write T) = Some Sc /\ forall s, scorer_level Sc s = trainer_level T s.
Proof. exact ol_scorer_reads_and_agrees. Qed.

Theorem C11_guesser_reads_and_agrees :
  forall breaks T, wf_ttab T -> levels_le guesser_max_level T -> chars_avoid (TABc :: breaks) T ->
  exists G, read_g breaks (write T) = Some G /\ wf_tables G /\
  forall s L, In s (level_strings G (Z.of_nat L)) <-> trainer_level T s = Some L.
Proof. exact ol_guesser_reads_and_agrees. Qed.

(* tables built from passwords check_valid admits avoid every character it rejects;
   that is enough when check_valid rejects TAB and every line end of the reader *)
Theorem C11_avoid_from_rejected :
  forall rejected breaks T,
  forallb (fun c => existsb (N.eqb c) rejected) (TABc :: breaks) = true ->
  chars_avoid rejected T -> chars_avoid (TABc :: breaks) T.
Proof. exact ol_avoid_from_rejected. Qed.

(* the code as found: U+2029 passes check_valid but ends a line for the guesser's
   reader: trainer and scorer give the string a level, the guesser loads nothing *)
Theorem C11_refuted_u2029 :
  wf_ttab T_u2029 /\ levels_le guesser_max_level T_u2029 /\
  trainer_level T_u2029 [98%N; 97%N; 98%N; 8233%N] = Some 0 /\
  (exists Sc, read_s true scorer_breaks (write T_u2029) = Some Sc /\ scorer_level Sc [98%N; 97%N; 98%N; 8233%N] = Some 0) /\
  read_g [10%N; 13%N; 8233%N] (write T_u2029) = None.
Proof. exact ol_refuted_u2029. Qed.

(* ... and a scorer that decodes with another codec loads nothing *)
Theorem C11_refuted_scorer_codec : forall breaks F, read_s false breaks F = None.
Proof. exact ol_refuted_scorer_codec. Qed.

(* the hypotheses are satisfiable on a table with several levels *)
Theorem C11_hypotheses_satisfiable :
  wf_ttab T_r9 /\ levels_le guesser_max_level T_r9 /\
  trainer_level T_r9 [97%N; 98%N] = Some 1 /\
  scorer_level (load_s (write T_r9)) [97%N; 98%N] = Some 1 /\
  load_g (write T_r9) = Some (gview T_r9) /\
  level_strings (gview T_r9) 1 = [[97%N; 98%N]] /\
  trainer_level T_r9 [98%N; 97%N; 98%N; 97%N] = Some 10 /\
  trainer_level T_r9 [97%N] = None /\ trainer_level T_r9 [97%N; 97%N] = None /\
  trainer_level T_r9 [97%N; 98%N; 97%N; 98%N; 97%N] = None.
Proof. exact ol_three_way_example. Qed.

Print Assumptions C11_scorer_eq_trainer.
Print Assumptions C11_guesser_iff.
Print Assumptions C11_guesser_once.
Print Assumptions C11_counts_guesser.
Print Assumptions C11_scorer_reads_and_agrees.
Print Assumptions C11_guesser_reads_and_agrees.
Print Assumptions C11_refuted_u2029.

(* Side conditions on the constants re-extracted from the source / probed from
   the interpreter on every run (harness/consts/omen_level.py).  They come LAST
   so that everything above is checked even when they fail. *)

(* whichever reader the scorer uses, check_valid rejects TAB and its line ends *)
Theorem C11_source_scorer_line_ends_rejected :
  forallb (fun c => existsb (N.eqb c) trainer_rejected_chars)
          (TABc :: (if scorer_uses_codecs_reader then guesser_linebreaks else scorer_breaks)) = true.
Proof. vm_compute. reflexivity. Qed.

(* the scorer must open IP.level / CP.level with the ruleset's encoding
   (hypothesis decoded_ok = true of C11_scorer_reads_and_agrees) *)
Theorem C11_source_scorer_uses_ruleset_encoding : scorer_opens_with_ruleset_encoding = true.
Proof. reflexivity. Qed.

(* check_valid must reject TAB and every character the guesser's reader
   (codecs: str.splitlines) ends a line at *)
Theorem C11_source_trainer_rejects_linebreaks :
  forallb (fun c => existsb (N.eqb c) trainer_rejected_chars) (TABc :: guesser_linebreaks) = true.
Proof. vm_compute. reflexivity. Qed.

(* ---- second tie to the source: gen/OmenLevel_gen.v is the translation of the Python
   text of find_omen_level (lib_trainer/omen/evaluate_password.py) and OmenScorer.parse
   (lib_scorer/omen_scorer.py) (harness/translate_omen_level.py, redone on every run).
   It equals the model the theorems above are about: ints are Z, `return -1` is the
   model's None ([levelZ]), a KeyError of a dict subscript is the model's None of the
   lookup and is what `except KeyError` catches, fuel bounds the while loop.  The
   hypotheses are boolean: [lvl_wfb] (ngram >= 1, min_length >= 1, max_length within
   ln_lookup: elsewhere Python raises IndexError or a slice bound turns negative) and
   [wf_scorerb] (ngram >= 1, or ngram = -1 and no CP line); the tables the theorems
   above are about satisfy them.  These come LAST: the Require fails when the
   translation or its equality proofs no longer check. *)
From Pcfg Require Import OmenRt OmenLevelGenProofs.
From PcfgGen Require Import OmenLevel_gen.

Theorem C11_source_find_omen_level_is_model :
  forall T s fuel, lvl_wfb T = true -> length s < fuel ->
  py_find_omen_level fuel T s = Ok (levelZ (trainer_level T s)).
Proof. exact gen_find_omen_level_eq. Qed.

Theorem C11_source_scorer_parse_is_model :
  forall Sc s fuel, wf_scorerb Sc = true -> length s < fuel ->
  py_scorer_parse fuel Sc s = Ok (levelZ (scorer_level Sc s)).
Proof. exact gen_scorer_parse_eq. Qed.

(* the well-formedness predicates hold for the tables of the theorems above and for
   what the scorer's loader builds from the files the trainer writes *)
Theorem C11_source_wf_from_model :
  (forall T, wf_ttab T -> lvl_wfb T = true) /\ (forall T, wf_ttabb T = true -> lvl_wfb T = true) /\
  (forall T, wf_ttab T -> wf_scorerb (load_s (write T)) = true).
Proof. exact (conj wf_ttab_lvl_wfb (conj wf_ttabb_lvl_wfb load_s_wf_scorerb)). Qed.

(* C11_scorer_eq_trainer over the translated functions: on the files the trainer writes the
   translated OmenScorer.parse returns what the translated find_omen_level returns, for
   every string (any length, any characters), -1 included *)
Theorem C11_scorer_eq_trainer_translated :
  forall T s fuel, wf_ttab T -> length s < fuel ->
  py_scorer_parse fuel (load_s (write T)) s = py_find_omen_level fuel T s.
Proof. exact gen_scorer_eq_trainer. Qed.

(* ... and the guesser: the strings its generator must emit at target level L are exactly
   the strings the translated find_omen_level puts at level L *)
Theorem C11_guesser_iff_translated :
  forall T, wf_ttab T -> levels_le guesser_max_level T ->
  exists G, load_g (write T) = Some G /\ wf_tables G /\
  forall s L fuel, length s < fuel ->
    (In s (level_strings G (Z.of_nat L)) <-> py_find_omen_level fuel T s = Ok (Z.of_nat L)).
Proof. exact gen_guesser_iff. Qed.

Theorem C11_translated_hypotheses_satisfiable :
  wf_ttab T_r9 /\ lvl_wfb T_r9 = true /\ wf_scorerb (load_s (write T_r9)) = true /\
  py_find_omen_level 5 T_r9 [97%N; 98%N] = Ok 1%Z /\
  py_scorer_parse 5 (load_s (write T_r9)) [97%N; 98%N] = Ok 1%Z /\
  py_find_omen_level 5 T_r9 [98%N; 97%N; 98%N; 97%N] = Ok 10%Z /\
  py_scorer_parse 5 (load_s (write T_r9)) [98%N; 97%N; 98%N; 97%N] = Ok 10%Z /\
  py_find_omen_level 5 T_r9 [97%N] = Ok (-1)%Z /\ py_find_omen_level 5 T_r9 [97%N; 97%N] = Ok (-1)%Z /\
  py_scorer_parse 5 (load_s (write T_r9)) [97%N; 97%N] = Ok (-1)%Z /\
  py_scorer_parse 5 (mk_scorer None [(0, [])] [] [10; 3; 4]) [97%N] = Ok (-1)%Z.
Proof. exact gen_level_example. Qed.

Print Assumptions C11_source_find_omen_level_is_model.
Print Assumptions C11_source_scorer_parse_is_model.
Print Assumptions C11_scorer_eq_trainer_translated.
Print Assumptions C11_guesser_iff_translated.

(* ---- third tie to the source: the TRAINER side.  gen/OmenTrainer_gen.v, OmenTrainerOut_gen.v and
   OmenTrainerAlpha_gen.v are the translation of the Python text of smoothing.py (_calc_level,
   smooth_grammar, smooth_length), alphabet_lookup.py (AlphabetLookup.__init__, is_in_alphabet, parse,
   apply_smoothing), omen_file_output.py (_save_alphabet, save_omen_rules_to_disk) and
   alphabet_generator.py (harness/translate_omen_trainer.py, redone on every run).  Each equals the
   hand-written model of theories/OmenTrainer.v for ALL inputs, exceptions included, and for every
   choice of the oracles math.log / math.floor (lg, fl).  The tables the theorems above take "as given"
   (T with wf_ttab T, levels_le 10 T, chars_avoid .. T) are then PROVED to be what the trainer builds
   from any password list, and the level files to be the line lists of `write T`, so that the
   agreement theorems hold for the translated trainer + writer without hypotheses on the tables.
   These come LAST: the Require fails when the translation or its equality proofs no longer check. *)
From Coq Require Import Floats.
From Pcfg Require Import OmenTrainer OmenTrainerRt OmenTrainerProofs OmenTrainerGenProofs OmenTrainerGenProofsOut
     OmenTrainerGenProofsAlpha OmenTrainerGenInstOut OmenTrainerGenInst.
From PcfgGen Require Import OmenTrainer_gen OmenTrainerOut_gen OmenTrainerAlpha_gen.

Theorem C11_source_calc_level_is_model :
  forall lg fl base total factor max_level,
  py_calc_level lg fl base total factor max_level = calc_level lg fl base total factor max_level.
Proof. exact gen_calc_level_eq. Qed.

Theorem C11_source_smooth_length_is_model :
  forall lg fl ln ln_counter max_level,
  py_smooth_length lg fl ln ln_counter max_level = smooth_length lg fl ln ln_counter max_level.
Proof. exact gen_smooth_length_eq. Qed.

(* [grammar_ok]: the association list is a dict (keys pairwise different on both levels) *)
Theorem C11_source_smooth_grammar_is_model :
  forall lg fl g ip_total ep_total, grammar_ok g ->
  py_smooth_grammar lg fl g ip_total ep_total = smooth_grammar lg fl g ip_total ep_total.
Proof. exact gen_smooth_grammar_eq. Qed.

Theorem C11_source_apply_smoothing_is_model :
  forall lg fl A, grammar_ok (al_grammar A) -> py_alookup_apply_smoothing lg fl A = apply_smoothing lg fl A.
Proof. exact gen_alookup_apply_smoothing_eq. Qed.

Theorem C11_source_alookup_init_is_model :
  forall lg fl alphabet ngram min_length max_length,
  py_alookup_init lg fl alphabet ngram min_length max_length = TOk (alookup_init alphabet ngram min_length max_length).
Proof. exact gen_alookup_init_eq. Qed.

Theorem C11_source_is_in_alphabet_is_model :
  forall lg fl A s, py_alookup_is_in_alphabet lg fl A s = TOk (in_alphabet (al_alphabet A) s).
Proof. exact gen_alookup_is_in_alphabet_eq. Qed.

Theorem C11_source_parse_is_model :
  forall lg fl A pw, py_alookup_parse lg fl A pw = parse A pw.
Proof. exact gen_alookup_parse_eq. Qed.

Theorem C11_source_save_alphabet_is_model :
  forall repr sc file_name directory alphabet encoding fs,
  py_save_alphabet repr sc file_name directory alphabet encoding fs =
  TOk (true, fs_put fs (path_join directory file_name) (alphabet_text alphabet)).
Proof. exact gen_save_alphabet_eq. Qed.

(* the writer, for a smoothed object with table view T: IP.level / EP.level / CP.level / LN.level hold
   the line lists of `write T` (str(level) TAB string LF), then config.txt (oracle), alphabet.txt,
   omen_keyspace.txt, omen_pws_per_level.txt, pcfg_omen_prob.txt *)
Theorem C11_source_save_omen_rules_is_model :
  forall repr sc A T ks lc nvalid base pi fs, ttab_of A = Some T ->
  py_save_omen_rules_to_disk repr sc A ks lc nvalid base pi fs = save_rules repr sc T ks lc nvalid base pi fs.
Proof. exact gen_save_omen_rules_eq. Qed.

Theorem C11_source_process_password_is_model :
  forall G pw, py_agen_process_password G pw = TOk (process_password G pw).
Proof. exact gen_agen_process_password_eq. Qed.

Theorem C11_source_get_alphabet_is_model :
  forall G, py_agen_get_alphabet G = TOk (get_alphabet G).
Proof. exact gen_agen_get_alphabet_eq. Qed.

(* pass 2 + smoothing as run_trainer.py drives the translated functions *)
Theorem C11_source_train_is_model :
  forall lg fl alphabet ngram max_length pws, (1 <= ngram)%Z ->
  py_train lg fl alphabet ngram max_length pws = train lg fl alphabet ngram max_length pws.
Proof. exact gen_train_eq. Qed.

(* the clamp: every level of _calc_level lies in 0..max_level, whatever log and floor are *)
Theorem C11_levels_clamped :
  forall lg fl base total factor m l, (0 <= m)%Z ->
  calc_level lg fl base total factor m = TOk l -> (0 <= l <= m)%Z.
Proof. exact calc_level_range. Qed.

(* the tables the translated trainer builds from ANY password list are the tables of the theorems
   above: well-formed, levels within the guesser's range, spelled with the alphabet *)
Theorem C11_trained_table :
  forall lg fl alphabet ngram max_length pws A,
  (2 <= ngram)%Z -> (0 <= max_length)%Z -> py_train lg fl alphabet ngram max_length pws = TOk A ->
  exists T, ttab_of A = Some T /\ wf_ttab T /\ levels_le guesser_max_level T /\
    tt_ngram T = Z.to_nat ngram /\ tt_max_len T = Z.to_nat max_length /\
    forall bad, (forall c, In c alphabet -> ~ In c bad) -> chars_avoid bad T.
Proof. exact gen_trained_table. Qed.

(* C11_scorer_reads_and_agrees / C11_guesser_reads_and_agrees over the translated trainer: the only
   hypothesis left is that the alphabet holds no TAB / line end of the reader (check_valid) *)
Theorem C11_scorer_reads_and_agrees_translated :
  forall lg fl alphabet ngram max_length pws A sbreaks,
  (2 <= ngram)%Z -> (0 <= max_length)%Z -> py_train lg fl alphabet ngram max_length pws = TOk A ->
  (forall c, In c alphabet -> ~ In c (TABc :: sbreaks)) ->
  exists T Sc, ttab_of A = Some T /\ read_s true sbreaks (write T) = Some Sc /\
               forall s, scorer_level Sc s = trainer_level T s.
Proof. exact gen_trained_scorer_agrees. Qed.

Theorem C11_guesser_reads_and_agrees_translated :
  forall lg fl alphabet ngram max_length pws A breaks,
  (2 <= ngram)%Z -> (0 <= max_length)%Z -> py_train lg fl alphabet ngram max_length pws = TOk A ->
  (forall c, In c alphabet -> ~ In c (TABc :: breaks)) ->
  exists T G, ttab_of A = Some T /\ read_g breaks (write T) = Some G /\ wf_tables G /\
              forall s L, In s (level_strings G (Z.of_nat L)) <-> trainer_level T s = Some L.
Proof. exact gen_trained_guesser_agrees. Qed.

(* C11_counts over the translated trainer: omen_pws_per_level counts what the guesser produces *)
Theorem C11_counts_translated :
  forall lg fl alphabet ngram max_length pws A,
  (2 <= ngram)%Z -> (0 <= max_length)%Z -> py_train lg fl alphabet ngram max_length pws = TOk A ->
  exists T, ttab_of A = Some T /\ forall pws' L,
    count_at (levels_count T pws') (Some L) =
    length (filter (fun pw => existsb (ostr_eqb pw) (level_strings (gview T) (Z.of_nat L))) pws').
Proof.
  intros lg fl alphabet ngram max_length pws A H1 H2 H.
  destruct (gen_trained_table lg fl _ _ _ _ _ H1 H2 H) as (T & HT & Hwf & Hle & _).
  exists T. split; [exact HT | exact (ol_counts_guesser T Hwf Hle)].
Qed.

(* what is on disk after the translated writer returned True ([config_frame]: the oracle for
   _save_config only touches config.txt) *)
Theorem C11_written_files :
  forall repr sc A T ks lc nvalid base pi fs fs', ttab_of A = Some T -> config_frame sc ->
  py_save_omen_rules_to_disk repr sc A ks lc nvalid base pi fs = TOk (true, fs') ->
  let dir := path_join base n_Omen in
  fs_get fs' (path_join dir n_IP) = Some (level_text (write_ip T)) /\
  fs_get fs' (path_join dir n_EP) = Some (level_text (write_ep T)) /\
  fs_get fs' (path_join dir n_CP) = Some (level_text (write_cp T)) /\
  fs_get fs' (path_join dir n_LN) = Some (ln_text (OmenLevel.write_ln T)) /\
  fs_get fs' (path_join dir n_alphabet) = Some (alphabet_text (pi_alphabet pi)) /\
  fs_get fs' (path_join dir n_keyspace) = Some (zz_text (rev (most_common_by Z.ltb ks))) /\
  fs_get fs' (path_join dir n_pws_per_level) = Some (zz_text (most_common_by Z.ltb lc)) /\
  exists prob, prob_counter ks lc nvalid = TOk prob /\
    fs_get fs' (path_join dir n_prob) = Some (zf_text repr (most_common_by PrimFloat.ltb prob)).
Proof.
  intros repr sc A T ks lc nvalid base pi fs fs' HT Hfr H.
  rewrite (gen_save_omen_rules_eq repr sc A T _ _ _ _ _ _ HT) in H.
  exact (save_rules_files _ _ _ _ _ _ _ _ _ _ Hfr H).
Qed.

Theorem C11_trainer_hypotheses_satisfiable :
  exists A T, demo_train = TOk A /\ ttab_of A = Some T /\ wf_ttabb T = true /\ levels_leb guesser_max_level T = true /\
    map te_key (tt_grammar T) = [[97]; [98]]%N /\ trainer_level T [97; 98]%N = Some 6 /\
    trainer_level T [97; 99]%N = None /\ tt_ln T = [2; 2; 2; 2] /\
    exists fs', py_save_omen_rules_to_disk (fun _ => [63]%N) (fun d f _ fs => Some (fs_put fs (path_join d f) []))
                  A [(1, 1); (6, 2)]%Z [(6, 1); (-1, 1); (7, 1)]%Z 3 [100]%N (mk_pinfo [] 2 [97; 98]%N) [] = TOk (true, fs') /\
                fs_get fs' (path_join (path_join [100]%N n_Omen) n_IP) = Some [50; 9; 97; 10; 50; 9; 98; 10]%N /\
                fs_get fs' (path_join (path_join [100]%N n_Omen) n_pws_per_level) =
                  Some [54; 9; 49; 10; 45; 49; 9; 49; 10; 55; 9; 49; 10]%N.
Proof. exact gen_train_example. Qed.

Print Assumptions C11_source_calc_level_is_model.
Print Assumptions C11_source_smooth_grammar_is_model.
Print Assumptions C11_source_parse_is_model.
Print Assumptions C11_source_save_omen_rules_is_model.
Print Assumptions C11_source_get_alphabet_is_model.
Print Assumptions C11_trained_table.
Print Assumptions C11_scorer_reads_and_agrees_translated.
Print Assumptions C11_guesser_reads_and_agrees_translated.
Print Assumptions C11_written_files.

(* ---------------------------------------------------------------- translator tie of the two readers of the OMEN files (T19)

   gen/Loader2_gen.v: lib_guesser/omen/input_file_io.py load_rules (what the generator walks) and
   lib_scorer/omen_scorer.py OmenScorer.__init__ / _load_omen (what the scorer looks levels up in), translated
   from the current source on every run (harness/translate_loader2.py, runtime theories/Loader2Rt.v; equalities
   with the models in theories/Loader2GenProofs.v, see Props/C07.v).  "Generator and scorer read the same
   tables from the same files": for EVERY world (whatever configparser, int() and the open calls return), when
   load_rules returns True and the constructor returns - on a directory whose IP / CP / LN.level the two open
   calls read as the same lines up to the line ends - the dict the guesser walks and the object of the scorer
   are built from the same items and agree on every n-gram and level. *)
From Pcfg Require Import TextFile LoaderRt Loader2Rt Loader2Model Loader2GenProofs Loader2OmenFacts.
From PcfgGen Require Import Loader2_gen.

Theorem C11_source_omen_readers_agree :
  forall (fo : fops) (C SS : Type) (W : world fo C SS) (iws : N -> bool) (dz : list N),
  (forall s, w_pint W s = parse_int iws dz s) ->
  forall (dir base enc : pstr) (vmax g obj r : pyval (F fo) C SS),
  py_omen_load_rules fo W (VStr dir) (VDict []) = XDone (g, VBool true) ->
  py_omen_scorer_init fo W (VObj []) (VStr base) (VStr enc) vmax = XDone (obj, r) ->
  (forall genc lg ls, w_codecs_open W (w_path_join W [dir; n_ip_level]) (Some genc) (Some k_strict) = XDone lg ->
                      w_open W (w_path_join W [base; n_omen; n_ip_level]) (Some enc) None = XDone ls -> same_lines lg ls) ->
  (forall genc lg ls, w_codecs_open W (w_path_join W [dir; n_cp_level]) (Some genc) (Some k_strict) = XDone lg ->
                      w_open W (w_path_join W [base; n_omen; n_cp_level]) (Some enc) None = XDone ls -> same_lines lg ls) ->
  (forall lg ls, w_open W (w_path_join W [dir; n_ln_level]) None None = XDone lg ->
                 w_open W (w_path_join W [base; n_omen; n_ln_level]) None None = XDone ls -> same_lines lg ls) ->
  exists gt st ip cp,
    g = enc_omen_tables gt /\ obj = enc_scorer (VStr enc) vmax st /\
    ot_ip gt = ip_buckets ip /\ st_ip st = ep_dict ip /\ cp_dict cp = Some (ot_cp gt) /\ st_cp st = ep_dict cp /\
    ot_ln gt = ln_guesser (ot_ngram gt) (st_ln st) /\
    (* an initial n-gram is in grammar['ip'][l] iff scorer.ip says l *)
    (NoDup (map snd ip) -> forall s l, (l < 11)%nat ->
       (In s (nth l (ot_ip gt) []) <-> dict_get s (st_ip st) = Some (Z.of_nat l))) /\
    (* a character c is in grammar['cp'][p][l] iff scorer.cp[p + c] says l *)
    (NoDup (map snd cp) -> forall p l c,
       (In c (cp_chars (ot_cp gt) p l) <-> dict_get (p ++ [c]) (st_cp st) = Some l)) /\
    (* len - (ngram - 1) is in grammar['ln'][l] iff line len of LN.level (scorer.ln[len]) says l *)
    (forall i l, (i < length (st_ln st))%nat -> (l < 11)%nat -> (ot_ngram gt <= Z.of_nat (S i))%Z ->
       (In (Z.of_nat (S i) - (ot_ngram gt - 1))%Z (nth l (ot_ln gt) []) <-> nth_error (st_ln st) i = Some (Z.of_nat l))).
Proof. exact (@source_omen_readers_agree). Qed.

(* the hypotheses are satisfiable and both translated readers run: a directory with two IP lines, two CP lines and
   three lengths (ngram 3) *)
Theorem C11_source_omen_readers_example :
  (exists gt, py_omen_load_rules ex_fo ex_world (VStr [79; 109; 101; 110]%N) (VDict []) = XDone (enc_omen_tables gt, VBool true) /\
              ot_ngram gt = 3%Z /\ nth 1 (ot_ip gt) [] = [[97; 98]%N] /\ nth 0 (ot_ip gt) [] = [[98; 97]%N] /\
              cp_chars (ot_cp gt) [97; 98]%N 2%Z = [99%N] /\ nth 1 (ot_ln gt) [] = [1%Z]) /\
  (exists st, py_omen_scorer_init ex_fo ex_world (VObj []) (VStr []) (VStr [117; 116; 102; 45; 56]%N) (VInt 9) =
              XDone (enc_scorer (VStr [117; 116; 102; 45; 56]%N) (VInt 9) st, VNone) /\
              dict_get [97; 98]%N (st_ip st) = Some 1%Z /\ dict_get [97; 98; 99]%N (st_cp st) = Some 2%Z /\
              st_ngram st = 3%Z /\ st_ln st = [0; 3; 1]%Z) /\
  (forall s, w_pint ex_world s = parse_int ex_iws ex_dz s).
Proof. exact source_omen_readers_example. Qed.

Print Assumptions C11_source_omen_readers_agree.
Print Assumptions C11_source_omen_readers_example.
