(* C11 - trainer, scorer and guesser agree on every string's OMEN level.
   Property theorems only.  Models: theories/OmenLevel.v (trainer tables after
   smoothing, find_omen_level, the IP/EP/CP/LN writers, OmenScorer's readers and
   parse, the guesser's reader view) and theories/OmenSpec.v (what the Markov
   generator must emit per level).  Proofs: theories/OmenLevelProofs.v; the translator
   tie at the end: theories/OmenRt.v, gen/OmenLevel_gen.v, theories/OmenLevelGenProofs.v. *)
From Coq Require Import List Arith NArith ZArith.
From Pcfg Require Import OmenSpec OmenLevel OmenLevelProofs.
From PcfgGen Require Import Consts_gen.
Import ListNotations.

(* side condition on a constant re-extracted from the source on every run: the
   range of levels the guesser's loader accepts is the one the model uses *)
Theorem C11_source_guesser_max_level : guesser_max_level_src = guesser_max_level.
Proof. reflexivity. Qed.

(* the scorer's level of ANY string (any length: below the n-gram size, equal to
   it, above the maximum; any characters) is the trainer's level, -1 as None *)
Theorem C11_scorer_eq_trainer :
  forall T, wf_ttab T -> forall s, scorer_level (load_s (write T)) s = trainer_level T s.
Proof. exact ol_scorer_eq_trainer. Qed.

(* the guesser loads the written directory, and the strings its generator must
   emit at target level L are exactly the strings the trainer puts at level L *)
Theorem C11_guesser_iff :
  forall T, wf_ttab T -> levels_le guesser_max_level T ->
  exists G, load_g (write T) = Some G /\ wf_tables G /\
  forall s L, In s (level_strings G (Z.of_nat L)) <-> trainer_level T s = Some L.
Proof. exact ol_guesser_iff. Qed.

(* ... each of them exactly once, and never at a level that is not a natural number *)
Theorem C11_guesser_once :
  forall G, wf_tables G -> forall T, NoDup (level_strings G T).
Proof. exact ol_NoDup_level_strings. Qed.

Theorem C11_guesser_level_nonneg :
  forall G, wf_tables G -> forall T s, In s (level_strings G T) -> (0 <= T)%Z.
Proof. exact ol_level_strings_neg. Qed.

(* the set-level statement about OmenSpec alone (C10_set), for every well-formed directory *)
Theorem C11_level_strings_iff_level_of :
  forall G, wf_tables G -> forall s L, In s (level_strings G (Z.of_nat L)) <-> level_of G s = Some L.
Proof. exact ol_level_strings_iff. Qed.

(* the three together *)
Theorem C11_three_way :
  forall T, wf_ttab T -> levels_le guesser_max_level T -> forall s L,
    (trainer_level T s = Some L <-> scorer_level (load_s (write T)) s = Some L) /\
    (trainer_level T s = Some L <-> In s (level_strings (gview T) (Z.of_nat L))).
Proof. exact ol_three_way. Qed.

(* omen_pws_per_level: the count saved for a key is the number of training
   passwords the trainer puts at that level (None = -1 = not generable) ... *)
Theorem C11_counts :
  forall T pws k,
  count_at (levels_count T pws) k = length (filter (fun pw => olevel_eqb (trainer_level T pw) k) pws).
Proof. exact ol_counts. Qed.

(* ... hence the number of training passwords the guesser produces at that level *)
Theorem C11_counts_guesser :
  forall T, wf_ttab T -> levels_le guesser_max_level T -> forall pws L,
  count_at (levels_count T pws) (Some L) =
  length (filter (fun pw => existsb (ostr_eqb pw) (level_strings (gview T) (Z.of_nat L))) pws).
Proof. exact ol_counts_guesser. Qed.

(* --- with the readers' line framing and codec made explicit ---
   The scorer obtains the written line lists when it decodes the files with the
   codec they were written with and no string of the tables contains TAB or
   one of its reader's line ends; then it agrees with the trainer on every string *)
Theorem C11_scorer_reads_and_agrees :
  forall sbreaks T, wf_ttab T -> chars_avoid (TABc :: sbreaks) T ->
  exists Sc, read_s true sbreaks (write T) = Some Sc /\ forall s, scorer_level Sc s = trainer_level T s.
Proof. exact ol_scorer_reads_and_agrees. Qed.

Theorem C11_guesser_reads_and_agrees :
  forall breaks T, wf_ttab T -> levels_le guesser_max_level T -> chars_avoid (TABc :: breaks) T ->
  exists G, read_g breaks (write T) = Some G /\ wf_tables G /\
  forall s L, In s (level_strings G (Z.of_nat L)) <-> trainer_level T s = Some L.
Proof. exact ol_guesser_reads_and_agrees. Qed.

(* tables built from passwords check_valid admits avoid every character it rejects;
   that is enough when check_valid rejects TAB and every line end of the reader *)
Theorem C11_avoid_from_rejected :
  forall rejected breaks T,
  forallb (fun c => existsb (N.eqb c) rejected) (TABc :: breaks) = true ->
  chars_avoid rejected T -> chars_avoid (TABc :: breaks) T.
Proof. exact ol_avoid_from_rejected. Qed.

(* the code as found: U+2029 passes check_valid but ends a line for the guesser's
   reader: trainer and scorer give the string a level, the guesser loads nothing *)
Theorem C11_refuted_u2029 :
  wf_ttab T_u2029 /\ levels_le guesser_max_level T_u2029 /\
  trainer_level T_u2029 [98%N; 97%N; 98%N; 8233%N] = Some 0 /\
  (exists Sc, read_s true scorer_breaks (write T_u2029) = Some Sc /\ scorer_level Sc [98%N; 97%N; 98%N; 8233%N] = Some 0) /\
  read_g [10%N; 13%N; 8233%N] (write T_u2029) = None.
Proof. exact ol_refuted_u2029. Qed.

(* ... and a scorer that decodes with another codec loads nothing *)
Theorem C11_refuted_scorer_codec : forall breaks F, read_s false breaks F = None.
Proof. exact ol_refuted_scorer_codec. Qed.

(* the hypotheses are satisfiable on a table with several levels *)
Theorem C11_hypotheses_satisfiable :
  wf_ttab T_r9 /\ levels_le guesser_max_level T_r9 /\
  trainer_level T_r9 [97%N; 98%N] = Some 1 /\
  scorer_level (load_s (write T_r9)) [97%N; 98%N] = Some 1 /\
  load_g (write T_r9) = Some (gview T_r9) /\
  level_strings (gview T_r9) 1 = [[97%N; 98%N]] /\
  trainer_level T_r9 [98%N; 97%N; 98%N; 97%N] = Some 10 /\
  trainer_level T_r9 [97%N] = None /\ trainer_level T_r9 [97%N; 97%N] = None /\
  trainer_level T_r9 [97%N; 98%N; 97%N; 98%N; 97%N] = None.
Proof. exact ol_three_way_example. Qed.

Print Assumptions C11_scorer_eq_trainer.
Print Assumptions C11_guesser_iff.
Print Assumptions C11_guesser_once.
Print Assumptions C11_counts_guesser.
Print Assumptions C11_scorer_reads_and_agrees.
Print Assumptions C11_guesser_reads_and_agrees.
Print Assumptions C11_refuted_u2029.

(* Side conditions on the constants re-extracted from the source / probed from
   the interpreter on every run (harness/consts/omen_level.py).  They come LAST
   so that everything above is checked even when they fail. *)

(* whichever reader the scorer uses, check_valid rejects TAB and its line ends *)
Theorem C11_source_scorer_line_ends_rejected :
  forallb (fun c => existsb (N.eqb c) trainer_rejected_chars)
          (TABc :: (if scorer_uses_codecs_reader then guesser_linebreaks else scorer_breaks)) = true.
Proof. vm_compute. reflexivity. Qed.

(* the scorer must open IP.level / CP.level with the ruleset's encoding
   (hypothesis decoded_ok = true of C11_scorer_reads_and_agrees) *)
Theorem C11_source_scorer_uses_ruleset_encoding : scorer_opens_with_ruleset_encoding = true.
Proof. reflexivity. Qed.

(* check_valid must reject TAB and every character the guesser's reader
   (codecs: str.splitlines) ends a line at *)
Theorem C11_source_trainer_rejects_linebreaks :
  forallb (fun c => existsb (N.eqb c) trainer_rejected_chars) (TABc :: guesser_linebreaks) = true.
Proof. vm_compute. reflexivity. Qed.

(* ---- second tie to the source: gen/OmenLevel_gen.v is the translation of the Python
   text of find_omen_level (lib_trainer/omen/evaluate_password.py) and OmenScorer.parse
   (lib_scorer/omen_scorer.py) (harness/translate_omen_level.py, redone on every run).
   It equals the model the theorems above are about: ints are Z, `return -1` is the
   model's None ([levelZ]), a KeyError of a dict subscript is the model's None of the
   lookup and is what `except KeyError` catches, fuel bounds the while loop.  The
   hypotheses are boolean: [lvl_wfb] (ngram >= 1, min_length >= 1, max_length within
   ln_lookup: elsewhere Python raises IndexError or a slice bound turns negative) and
   [wf_scorerb] (ngram >= 1, or ngram = -1 and no CP line); the tables the theorems
   above are about satisfy them.  These come LAST: the Require fails when the
   translation or its equality proofs no longer check. *)
From Pcfg Require Import OmenRt OmenLevelGenProofs.
From PcfgGen Require Import OmenLevel_gen.

Theorem C11_source_find_omen_level_is_model :
  forall T s fuel, lvl_wfb T = true -> length s < fuel ->
  py_find_omen_level fuel T s = Ok (levelZ (trainer_level T s)).
Proof. exact gen_find_omen_level_eq. Qed.

Theorem C11_source_scorer_parse_is_model :
  forall Sc s fuel, wf_scorerb Sc = true -> length s < fuel ->
  py_scorer_parse fuel Sc s = Ok (levelZ (scorer_level Sc s)).
Proof. exact gen_scorer_parse_eq. Qed.

(* the well-formedness predicates hold for the tables of the theorems above and for
   what the scorer's loader builds from the files the trainer writes *)
Theorem C11_source_wf_from_model :
  (forall T, wf_ttab T -> lvl_wfb T = true) /\ (forall T, wf_ttabb T = true -> lvl_wfb T = true) /\
  (forall T, wf_ttab T -> wf_scorerb (load_s (write T)) = true).
Proof. exact (conj wf_ttab_lvl_wfb (conj wf_ttabb_lvl_wfb load_s_wf_scorerb)). Qed.

(* C11_scorer_eq_trainer over the translated functions: on the files the trainer writes the
   translated OmenScorer.parse returns what the translated find_omen_level returns, for
   every string (any length, any characters), -1 included *)
Theorem C11_scorer_eq_trainer_translated :
  forall T s fuel, wf_ttab T -> length s < fuel ->
  py_scorer_parse fuel (load_s (write T)) s = py_find_omen_level fuel T s.
Proof. exact gen_scorer_eq_trainer. Qed.

(* ... and the guesser: the strings its generator must emit at target level L are exactly
   the strings the translated find_omen_level puts at level L *)
Theorem C11_guesser_iff_translated :
  forall T, wf_ttab T -> levels_le guesser_max_level T ->
  exists G, load_g (write T) = Some G /\ wf_tables G /\
  forall s L fuel, length s < fuel ->
    (In s (level_strings G (Z.of_nat L)) <-> py_find_omen_level fuel T s = Ok (Z.of_nat L)).
Proof. exact gen_guesser_iff. Qed.

Theorem C11_translated_hypotheses_satisfiable :
  wf_ttab T_r9 /\ lvl_wfb T_r9 = true /\ wf_scorerb (load_s (write T_r9)) = true /\
  py_find_omen_level 5 T_r9 [97%N; 98%N] = Ok 1%Z /\
  py_scorer_parse 5 (load_s (write T_r9)) [97%N; 98%N] = Ok 1%Z /\
  py_find_omen_level 5 T_r9 [98%N; 97%N; 98%N; 97%N] = Ok 10%Z /\
  py_scorer_parse 5 (load_s (write T_r9)) [98%N; 97%N; 98%N; 97%N] = Ok 10%Z /\
  py_find_omen_level 5 T_r9 [97%N] = Ok (-1)%Z /\ py_find_omen_level 5 T_r9 [97%N; 97%N] = Ok (-1)%Z /\
  py_scorer_parse 5 (load_s (write T_r9)) [97%N; 97%N] = Ok (-1)%Z /\
  py_scorer_parse 5 (mk_scorer None [(0, [])] [] [10; 3; 4]) [97%N] = Ok (-1)%Z.
Proof. exact gen_level_example. Qed.

Print Assumptions C11_source_find_omen_level_is_model.
Print Assumptions C11_source_scorer_parse_is_model.
Print Assumptions C11_scorer_eq_trainer_translated.
Print Assumptions C11_guesser_iff_translated.
