(* C13 - a non-zero score is a promise the guesser keeps.  Property theorems
   only. *)
From Coq Require Import List ZArith NArith Bool QArith.
From Pcfg Require Import ProbAlg Next NextSpec NextProofs QProb Expand.
From Pcfg Require Import Str Multiword Detect Segment SegCorr Scorer ScorerCorr ScorerProofs ScorerGuesser ScorerInst DetectProofsInst.
From PcfgGen Require Import Consts_gen Unicode_gen.
Import ListNotations.
Open Scope Z_scope.

(* ---- side conditions on the constants regenerated from the scorer's source *)
Theorem C13_side_scorer_min_len : 1 <= s_min_len.
Proof. exact side_scorer_min_len. Qed.
(* parse() zeroes the probability when re-applying the mask to the lower-cased
   word does not give back the alpha section (the repair of R16; the theorem
   below is about the scorer WITH this check, see C13_refuted_case_sharp_s for
   the scorer without it) *)
Theorem C13_source_rebuild_check : scorer_rebuild_check = true.
Proof. exact side_rebuild_check. Qed.

(* Over exact rationals (QProb), for every ruleset (the tables the scorer
   loaded), every state m of its multi-word detector and EVERY non-empty
   string: a non-zero score p means that a pre-terminal `it` of the guesser's
   grammar for these tables (guesser_view: Next-style tables of group
   probabilities, adjacent values of equal probability grouped as the
   guesser's loader does, a capitalisation variable after every alpha
   variable) has s among its guesses (Expand.denote of its value groups,
   masks applied with the interpreter's upper()) and has probability p.
   The agreement of guesser_view with what the real PcfgGrammar loads from the
   same files is a correspondence obligation of every run. *)
Theorem C13_promise_Q : forall rs m s cat p, s <> [] ->
  score Q Qmult 0%Q 1%Q scorer_rebuild_check c_upper (parse_s m) rs s = Some (cat, p) -> ~ (p == 0)%Q ->
  exists it : item QProb, In it (all_preterminals (guesser_view rs)) /\
                          In s (denote c_upper (segs_of rs it)) /\ (iprob it == p)%Q.
Proof. exact promise_preterminal_c. Qed.

(* with C02: that pre-terminal is emitted by the guesser's run, for every
   well-formed view and every admissible priority queue *)
Theorem C13_promise_emitted : forall rs m s cat p, s <> [] ->
  score Q Qmult 0%Q 1%Q scorer_rebuild_check c_upper (parse_s m) rs s = Some (cat, p) -> ~ (p == 0)%Q ->
  wf (guesser_view rs) -> forall pop, pop_ok_okb pop ->
  exists it : item QProb,
    In it (emitted (run pop (guesser_view rs) (total (guesser_view rs)) (start (guesser_view rs)))) /\
    In s (denote c_upper (segs_of rs it)) /\ (iprob it == p)%Q.
Proof. exact promise_emitted_c. Qed.

(* the same promise as a derivation: a base structure and one terminal per position *)
Theorem C13_promise_derivation : forall rs m s cat p, s <> [] ->
  score Q Qmult 0%Q 1%Q scorer_rebuild_check c_upper (parse_s m) rs s = Some (cat, p) -> ~ (p == 0)%Q ->
  c_generates rs s p.
Proof. exact promise_c. Qed.

(* strings in which an e-mail or website is detected are classified as such
   and given probability 0 *)
Theorem C13_email_website_zero : forall (seg : str -> presult) (rs : ruleset Q) s r, seg s = POk r ->
  (p_emails r <> [] -> score Q Qmult 0%Q 1%Q scorer_rebuild_check c_upper seg rs s = Some (CatE, 0%Q)) /\
  (p_emails r = [] -> p_urls r <> [] -> score Q Qmult 0%Q 1%Q scorer_rebuild_check c_upper seg rs s = Some (CatW, 0%Q)).
Proof. exact email_website_zero. Qed.

(* an absent length / value-table / base structure gives 0 *)
Theorem C13_missing_is_zero : forall (rs : ruleset Q) r,
  (base_get Q (r_bases Q rs) (p_base r) = None \/
   (exists w, In w (p_walks r) /\ lookup_len Q 0%Q (r_keyboard Q rs) w = None) \/
   (exists w, In w (p_alpha r) /\ lookup_len Q 0%Q (r_alpha Q rs) w = None) \/
   (exists w, In w (p_masks r) /\ lookup_len Q 0%Q (r_masks Q rs) w = None) \/
   (exists w, In w (p_digits r) /\ lookup_len Q 0%Q (r_digits Q rs) w = None) \/
   (exists w, In w (p_other r) /\ lookup_len Q 0%Q (r_other Q rs) w = None)) ->
  (product Q Qmult 0%Q 1%Q rs r == 0)%Q.
Proof. exact missing_is_zero. Qed.

(* the score is a function of the ruleset tables and the string alone: the
   model has no state to write (the implementation's detector state and tables
   are compared before and after every call by the check) *)
Theorem C13_pure : forall rs m s,
  score Q Qmult 0%Q 1%Q scorer_rebuild_check c_upper (parse_s m) rs s =
  score Q Qmult 0%Q 1%Q scorer_rebuild_check c_upper (parse_s m) rs s.
Proof. exact (fun rs m s => eq_refl). Qed.

(* R16, the scorer as it was (no rebuild check): U+1E9E scores 1/2 under a
   ruleset whose guesser spells that pre-terminal "SS"; with the check it
   scores 0.  Without the check the promise only holds for strings whose case
   mapping is one-to-one (C13_holds_outside). *)
Theorem C13_refuted_case_sharp_s :
  score Q Qmult 0%Q 1%Q false c_upper (parse_s (scorer_mw_Q rs_sharp)) rs_sharp w_sharp = Some (CatOther, (1 * 1 * (1#2) * 1)%Q) /\
  score Q Qmult 0%Q 1%Q scorer_rebuild_check c_upper (parse_s (scorer_mw_Q rs_sharp)) rs_sharp w_sharp = Some (CatOther, 0%Q) /\
  ~ c_case_ok w_sharp /\ forall p, ~ c_generates rs_sharp w_sharp p.
Proof. exact refuted_case_sharp_s. Qed.
Theorem C13_holds_outside : forall rs m s cat p, s <> [] ->
  score Q Qmult 0%Q 1%Q false c_upper (parse_s m) rs s = Some (cat, p) -> ~ (p == 0)%Q -> c_case_ok s -> c_generates rs s p.
Proof. exact promise_old_c. Qed.

(* the hypotheses of the promise are satisfiable on a non-trivial instance *)
Example C13_demo :
  score Q Qmult 0%Q 1%Q scorer_rebuild_check c_upper (parse_s (scorer_mw_Q rs_sharp)) rs_sharp w_sharp_lower
    = Some (CatOther, (1 * 1 * (1#2) * 1)%Q) /\
  c_generates rs_sharp w_sharp_lower (1 * 1 * (1#2) * 1)%Q.
Proof. exact demo_promise. Qed.

Print Assumptions C13_promise_Q.
Print Assumptions C13_promise_emitted.
Print Assumptions C13_missing_is_zero.
Print Assumptions C13_refuted_case_sharp_s.
