(* C13 - a non-zero score is a promise the guesser keeps.  Property theorems
   only. *)
From Coq Require Import List ZArith NArith Bool QArith.
From Pcfg Require Import ProbAlg Next NextSpec NextProofs QProb Expand.
From Pcfg Require Import Str Multiword Detect Segment SegCorr Scorer ScorerCorr ScorerProofs ScorerGuesser ScorerInst DetectProofsInst.
From PcfgGen Require Import Consts_gen Unicode_gen.
Import ListNotations.
Open Scope Z_scope.

(* ---- side conditions on the constants regenerated from the scorer's source *)
Theorem C13_side_scorer_min_len : 1 <= s_min_len.
Proof. exact side_scorer_min_len. Qed.
(* parse() zeroes the probability when re-applying the mask to the lower-cased
   word does not give back the alpha section (the repair of R16; the theorem
   below is about the scorer WITH this check, see C13_refuted_case_sharp_s for
   the scorer without it) *)
Theorem C13_source_rebuild_check : scorer_rebuild_check = true.
Proof. exact side_rebuild_check. Qed.

(* Over exact rationals (QProb), for every ruleset (the tables the scorer
   loaded), every state m of its multi-word detector and EVERY non-empty
   string: a non-zero score p means that a pre-terminal `it` of the guesser's
   grammar for these tables (guesser_view: Next-style tables of group
   probabilities, adjacent values of equal probability grouped as the
   guesser's loader does, a capitalisation variable after every alpha
   variable) has s among its guesses (Expand.denote of its value groups,
   masks applied with the interpreter's upper()) and has probability p.
   The agreement of guesser_view with what the real PcfgGrammar loads from the
   same files is a correspondence obligation of every run. *)
Theorem C13_promise_Q : forall rs m s cat p, s <> [] ->
  score Q Qmult 0%Q 1%Q scorer_rebuild_check c_upper (parse_s m) rs s = Some (cat, p) -> ~ (p == 0)%Q ->
  exists it : item QProb, In it (all_preterminals (guesser_view rs)) /\
                          In s (denote c_upper (segs_of rs it)) /\ (iprob it == p)%Q.
Proof. exact promise_preterminal_c. Qed.

(* with C02: that pre-terminal is emitted by the guesser's run, for every
   well-formed view and every admissible priority queue *)
Theorem C13_promise_emitted : forall rs m s cat p, s <> [] ->
  score Q Qmult 0%Q 1%Q scorer_rebuild_check c_upper (parse_s m) rs s = Some (cat, p) -> ~ (p == 0)%Q ->
  wf (guesser_view rs) -> forall pop, pop_ok_okb pop ->
  exists it : item QProb,
    In it (emitted (run pop (guesser_view rs) (total (guesser_view rs)) (start (guesser_view rs)))) /\
    In s (denote c_upper (segs_of rs it)) /\ (iprob it == p)%Q.
Proof. exact promise_emitted_c. Qed.

(* the same promise as a derivation: a base structure and one terminal per position *)
Theorem C13_promise_derivation : forall rs m s cat p, s <> [] ->
  score Q Qmult 0%Q 1%Q scorer_rebuild_check c_upper (parse_s m) rs s = Some (cat, p) -> ~ (p == 0)%Q ->
  c_generates rs s p.
Proof. exact promise_c. Qed.

(* strings in which an e-mail or website is detected are classified as such
   and given probability 0 *)
Theorem C13_email_website_zero : forall (seg : str -> presult) (rs : ruleset Q) s r, seg s = POk r ->
  (p_emails r <> [] -> score Q Qmult 0%Q 1%Q scorer_rebuild_check c_upper seg rs s = Some (CatE, 0%Q)) /\
  (p_emails r = [] -> p_urls r <> [] -> score Q Qmult 0%Q 1%Q scorer_rebuild_check c_upper seg rs s = Some (CatW, 0%Q)).
Proof. exact email_website_zero. Qed.

(* an absent length / value-table / base structure gives 0 *)
Theorem C13_missing_is_zero : forall (rs : ruleset Q) r,
  (base_get Q (r_bases Q rs) (p_base r) = None \/
   (exists w, In w (p_walks r) /\ lookup_len Q 0%Q (r_keyboard Q rs) w = None) \/
   (exists w, In w (p_alpha r) /\ lookup_len Q 0%Q (r_alpha Q rs) w = None) \/
   (exists w, In w (p_masks r) /\ lookup_len Q 0%Q (r_masks Q rs) w = None) \/
   (exists w, In w (p_digits r) /\ lookup_len Q 0%Q (r_digits Q rs) w = None) \/
   (exists w, In w (p_other r) /\ lookup_len Q 0%Q (r_other Q rs) w = None)) ->
  (product Q Qmult 0%Q 1%Q rs r == 0)%Q.
Proof. exact missing_is_zero. Qed.

(* the score is a function of the ruleset tables and the string alone: the
   model has no state to write (the implementation's detector state and tables
   are compared before and after every call by the check) *)
Theorem C13_pure : forall rs m s,
  score Q Qmult 0%Q 1%Q scorer_rebuild_check c_upper (parse_s m) rs s =
  score Q Qmult 0%Q 1%Q scorer_rebuild_check c_upper (parse_s m) rs s.
Proof. exact (fun rs m s => eq_refl). Qed.

(* R16, the scorer as it was (no rebuild check): U+1E9E scores 1/2 under a
   ruleset whose guesser spells that pre-terminal "SS"; with the check it
   scores 0.  Without the check the promise only holds for strings whose case
   mapping is one-to-one (C13_holds_outside). *)
Theorem C13_refuted_case_sharp_s :
  score Q Qmult 0%Q 1%Q false c_upper (parse_s (scorer_mw_Q rs_sharp)) rs_sharp w_sharp = Some (CatOther, (1 * 1 * (1#2) * 1)%Q) /\
  score Q Qmult 0%Q 1%Q scorer_rebuild_check c_upper (parse_s (scorer_mw_Q rs_sharp)) rs_sharp w_sharp = Some (CatOther, 0%Q) /\
  ~ c_case_ok w_sharp /\ forall p, ~ c_generates rs_sharp w_sharp p.
Proof. exact refuted_case_sharp_s. Qed.
Theorem C13_holds_outside : forall rs m s cat p, s <> [] ->
  score Q Qmult 0%Q 1%Q false c_upper (parse_s m) rs s = Some (cat, p) -> ~ (p == 0)%Q -> c_case_ok s -> c_generates rs s p.
Proof. exact promise_old_c. Qed.

(* the hypotheses of the promise are satisfiable on a non-trivial instance *)
Example C13_demo :
  score Q Qmult 0%Q 1%Q scorer_rebuild_check c_upper (parse_s (scorer_mw_Q rs_sharp)) rs_sharp w_sharp_lower
    = Some (CatOther, (1 * 1 * (1#2) * 1)%Q) /\
  c_generates rs_sharp w_sharp_lower (1 * 1 * (1#2) * 1)%Q.
Proof. exact demo_promise. Qed.

(* ---- the translated source (translator tie, added in the second session).
   gen/Scorer_gen.v `py_pcfg_scorer_parse` is the line-by-line image of
   PCFGPasswordScorer.parse (lib_scorer/pcfg_password_scorer.py), written on
   every run by harness/translate_scorer.py (ast only, fail closed) over the
   runtime ScorerRt.v: the detector pipeline in the order of the source with
   the section list threaded through the calls that edit it, the e-mail /
   website return, the product inside `try .. except KeyError`, the rebuild
   check, the cut-off classification.  [c_detectors] are the detectors of
   Detect.v / Segment.v with the constants of this run; [scorer_obj] is the
   scorer object (tables, multi-word detector, cut-off, OMEN scorer as an
   oracle). *)
From Pcfg Require Import ScorerRt ScorerGenProofs ScorerGenInst.
From PcfgGen Require Import Scorer_gen.

(* for EVERY probability type and operations (binary64 with the multiplication
   order of the code as well as Q; pleb / peqb: `<=` / `==`, not used by the
   current source), scorer object and string: what the translated parse
   returns, seen as (e / w / other, probability), is Scorer.score of the model,
   and it never raises where the model does not *)
Theorem C13_source_parse_is_model :
  forall (P : Type) (pmul : P -> P -> P) (p0 p1 : P) (pltb pleb peqb : P -> P -> bool) (self : scorer_obj P) (s : str),
  res_map (view P) (py_pcfg_scorer_parse P pmul p0 p1 pltb pleb peqb c_upper c_detectors self s) =
  lift (score P pmul p0 p1 scorer_rebuild_check c_upper (parse_s (multiword_detector self)) (rs_of self) s).
Proof. exact source_parse_is_model. Qed.

(* the whole tuple: (password, category letter, probability, OMEN score) is
   parse_result of the model's segmentation, b being the outcome of the
   classification cut-off (it decides between the letters o and p only) *)
Theorem C13_source_parse_result :
  forall (P : Type) (pmul : P -> P -> P) (p0 p1 : P) (pltb pleb peqb : P -> P -> bool) (self : scorer_obj P) (s : str),
  exists r b, parse_s (multiword_detector self) s = POk r /\
              py_pcfg_scorer_parse P pmul p0 p1 pltb pleb peqb c_upper c_detectors self s = Ok (parse_result P pmul p0 p1 c_upper b self s r).
Proof. exact source_parse_result. Qed.

(* the cut-off classification decides between the letters o and p only: the
   probability is the model's whatever the limit, the OMEN score and the form
   of the cut-off test are *)
Theorem C13_source_cutoff_only_letter :
  forall (P : Type) (pmul : P -> P -> P) (p0 p1 : P) (pltb pleb peqb : P -> P -> bool) (self : scorer_obj P) s pw c p o,
  py_pcfg_scorer_parse P pmul p0 p1 pltb pleb peqb c_upper c_detectors self s = Ok (pw, c, p, o) ->
  pw = s /\ o = omen_parse (omen self) s /\
  score P pmul p0 p1 scorer_rebuild_check c_upper (parse_s (multiword_detector self)) (rs_of self) s = Some (cat_of_str c, p) /\
  (c = s_e \/ c = s_w \/ c = s_o \/ c = s_p).
Proof. exact source_parse_shape. Qed.

(* C13_pure over the source: two scorer objects with the same tables and the
   same multi-word detector give every string the same class and probability
   (the translator refuses every write to the object: the translated parse is
   a function of its arguments) *)
Theorem C13_source_pure :
  forall (P : Type) (pmul : P -> P -> P) (p0 p1 : P) (pltb pleb peqb : P -> P -> bool) (self1 self2 : scorer_obj P) (s : str),
  rs_of self1 = rs_of self2 -> multiword_detector self1 = multiword_detector self2 ->
  res_map (view P) (py_pcfg_scorer_parse P pmul p0 p1 pltb pleb peqb c_upper c_detectors self1 s) =
  res_map (view P) (py_pcfg_scorer_parse P pmul p0 p1 pltb pleb peqb c_upper c_detectors self2 s).
Proof. exact source_pure. Qed.

(* C13_email_website_zero over the source *)
Theorem C13_source_email_website_zero :
  forall (self : scorer_obj Q) s r, parse_s (multiword_detector self) s = POk r ->
  (p_emails r <> [] ->
   py_pcfg_scorer_parse Q Qmult 0%Q 1%Q Qltb Qleb Qeq_bool c_upper c_detectors self s = Ok (s, s_e, 0%Q, omen_parse (omen self) s)) /\
  (p_emails r = [] -> p_urls r <> [] ->
   py_pcfg_scorer_parse Q Qmult 0%Q 1%Q Qltb Qleb Qeq_bool c_upper c_detectors self s = Ok (s, s_w, 0%Q, omen_parse (omen self) s)).
Proof. exact (source_email_website_zero Q Qmult 0%Q 1%Q Qltb Qleb Qeq_bool). Qed.

(* C13_missing_is_zero over the source *)
Theorem C13_source_missing_is_zero : forall (self : scorer_obj Q) s r,
  parse_s (multiword_detector self) s = POk r ->
  (base_get Q (count_base_structures self) (p_base r) = None \/
   (exists w, In w (p_walks r) /\ lookup_len Q 0%Q (count_keyboard self) w = None) \/
   (exists w, In w (p_alpha r) /\ lookup_len Q 0%Q (count_alpha self) w = None) \/
   (exists w, In w (p_masks r) /\ lookup_len Q 0%Q (count_alpha_masks self) w = None) \/
   (exists w, In w (p_digits r) /\ lookup_len Q 0%Q (count_digits self) w = None) \/
   (exists w, In w (p_other r) /\ lookup_len Q 0%Q (count_other self) w = None)) ->
  exists pw c p o, py_pcfg_scorer_parse Q Qmult 0%Q 1%Q Qltb Qleb Qeq_bool c_upper c_detectors self s = Ok (pw, c, p, o) /\ (p == 0)%Q.
Proof. exact source_missing_is_zero. Qed.

(* C13_promise_derivation over the source: a non-zero probability returned by
   the translated parse is the probability of a derivation of s *)
Theorem C13_source_promise_derivation : forall (self : scorer_obj Q) s pw c p o, s <> [] ->
  py_pcfg_scorer_parse Q Qmult 0%Q 1%Q Qltb Qleb Qeq_bool c_upper c_detectors self s = Ok (pw, c, p, o) -> ~ (p == 0)%Q ->
  c_generates (rs_of self) s p.
Proof. exact source_promise_derivation. Qed.

(* C13_promise_emitted over the source: ... of a pre-terminal the guesser's run emits *)
Theorem C13_source_promise_emitted : forall (self : scorer_obj Q) s pw c p o, s <> [] ->
  py_pcfg_scorer_parse Q Qmult 0%Q 1%Q Qltb Qleb Qeq_bool c_upper c_detectors self s = Ok (pw, c, p, o) -> ~ (p == 0)%Q ->
  wf (guesser_view (rs_of self)) -> forall pop, pop_ok_okb pop ->
  exists it : item QProb,
    In it (emitted (Next.run pop (guesser_view (rs_of self)) (total (guesser_view (rs_of self))) (start (guesser_view (rs_of self))))) /\
    In s (denote c_upper (segs_of (rs_of self) it)) /\ (iprob it == p)%Q.
Proof. exact source_promise_emitted. Qed.

(* the hypotheses are satisfiable: the sharp-s ruleset in a scorer object with
   the default cut-off; the lower-case letter scores 1/2 (letter p), the
   capital one 0 (letter o) *)
Example C13_source_demo :
  py_pcfg_scorer_parse Q Qmult 0%Q 1%Q Qltb Qleb Qeq_bool c_upper c_detectors self_sharp w_sharp_lower
    = Ok (w_sharp_lower, s_p, (1 * 1 * (1#2) * 1)%Q, -1) /\
  py_pcfg_scorer_parse Q Qmult 0%Q 1%Q Qltb Qleb Qeq_bool c_upper c_detectors self_sharp w_sharp = Ok (w_sharp, s_o, 0%Q, -1) /\
  c_generates (rs_of self_sharp) w_sharp_lower (1 * 1 * (1#2) * 1)%Q.
Proof. exact source_demo. Qed.

Print Assumptions C13_promise_Q.
Print Assumptions C13_promise_emitted.
Print Assumptions C13_missing_is_zero.
Print Assumptions C13_refuted_case_sharp_s.
Print Assumptions C13_source_parse_is_model.
Print Assumptions C13_source_promise_emitted.
Print Assumptions C13_source_missing_is_zero.
Print Assumptions C13_source_pure.
