(* C01 - pre-terminals are emitted in non-increasing probability order and the
   reported probability is the left-to-right product.  Property theorems only. *)
From Coq Require Import List Bool Sorting.Permutation Floats.
From Pcfg Require Import ProbAlg F64 Next NextSpec NextProofs NextFacts.
From Pcfg Require Import KernelRt KernelGenProofs.
From PcfgGen Require Import Kernel_gen.

(* every prefix of the run, every probability algebra, every queue meeting the
   heap contract on ok values; the second part is the frontier invariant *)
Theorem C01_sorted_every_prefix :
  forall (A : palg) (rs : ruleset A), wf rs ->
  forall pop n, pop_ok_okb pop ->
    nonincreasing (rev (emitted (run pop rs n (start rs)))) /\
    (forall e q, In e (emitted (run pop rs n (start rs))) ->
                 In q (pending (run pop rs n (start rs))) -> ple (iprob q) (iprob e) = true).
Proof. exact (fun A rs H pop n => C01_sorted_okb rs H pop n). Qed.

Theorem C01_prob_is_product :
  forall (A : palg) (rs : ruleset A), wf rs ->
  forall pop n it, pop_ok_okb pop ->
    In it (emitted (run pop rs n (start rs)) ++ pending (run pop rs n (start rs))) ->
    iprob it = find_prob rs (ipt it) (ibase it) /\ In it (all_preterminals rs).
Proof. exact (fun A rs H pop n it => C01_prob_is_product_okb rs H pop n it). Qed.

Theorem C01_child_never_more_probable :
  forall (A : palg) (rs : ruleset A), wf rs ->
  forall it pos v i, In it (all_preterminals rs) -> nth_error (ipt it) pos = Some (v, i) ->
    S i < length (groups rs v) ->
    ple (find_prob rs (upd (ipt it) pos S) (ibase it)) (find_prob rs (ipt it) (ibase it)) = true /\
    okb (find_prob rs (upd (ipt it) pos S) (ibase it)) = true /\
    okb (find_prob rs (ipt it) (ibase it)) = true.
Proof. exact (fun A rs H it pos v i => find_prob_child_le rs H it pos v i). Qed.

(* the emitted set does not depend on how the heap breaks ties *)
Theorem C01_order_independent_of_queue :
  forall (A : palg) (rs : ruleset A) pop1 pop2, wf rs -> pop_ok_okb pop1 -> pop_ok_okb pop2 ->
  Permutation (emitted (run pop1 rs (total rs) (start rs))) (emitted (run pop2 rs (total rs) (start rs))).
Proof. exact (fun A rs p1 p2 => queue_independent rs p1 p2). Qed.

(* the queue the correspondence runs meets the contract *)
Theorem C01_model_queue_meets_contract : forall A : palg, pop_ok_okb (@pop_first_max A).
Proof. exact (fun A => @pop_first_max_ok_partial A). Qed.

(* binary64: the laws hold for IEEE doubles including ties, subnormals, zero;
   Python's < and == on such values are the algebra's plt / peq; and the
   boolean well-formedness test run on every generated case implies wf *)
Theorem C01_binary64 :
  forall rs : ruleset F64, wfb rs = true ->
  forall n, nonincreasing (rev (emitted (run pop_first_max rs n (start rs)))).
Proof.
  exact (fun rs H n => proj1 (C01_sorted_okb rs (wfb_wf rs H) pop_first_max n (@pop_first_max_ok_partial F64))).
Qed.

Theorem C01_python_lt_is_plt : forall a b : float, okbF a = true -> okbF b = true -> PrimFloat.ltb a b = @plt F64 a b.
Proof. exact plt_F64. Qed.
Theorem C01_python_eq_is_peq : forall a b : float, okbF a = true -> okbF b = true -> PrimFloat.eqb a b = @peq F64 a b.
Proof. exact peq_F64. Qed.

(* non-vacuity *)
Theorem C01_hypotheses_satisfiable : wf demo_rs /\ total demo_rs = 44.
Proof. exact (conj demo_wf demo_total). Qed.

(* ---- second tie to the source: gen/Kernel_gen.v is the translation of the Python text of
   _find_prob, _are_you_my_child, find_children and initalize_base_structures
   (harness/translate_kernel.py, redone on every run); the queue loop over the translated
   functions goes through the model's states, so the two main theorems hold for it verbatim
   (up / un: the arbitrary value of a subscript that raises in Python) *)
Theorem C01_source_find_prob_is_model :
  forall (A : palg) (up : P A) (rs : ruleset A) (t : pt) (b : P A),
  inrange rs t -> py_find_prob up rs t b = find_prob rs t b.
Proof. exact (fun A up rs t b => kernel_find_prob_eq up rs t b). Qed.

Theorem C01_translated_run_is_model :
  forall (A : palg) (up : P A) (un : var * nat) (rs : ruleset A), wf rs -> forall pop n, pop_ok_okb pop ->
  kernel_run up un pop rs n (kernel_start up rs) = run pop rs n (start rs).
Proof. exact (fun A up un rs H pop n => kernel_run_eq up un rs H pop n). Qed.

Theorem C01_sorted_every_prefix_translated :
  forall (A : palg) (up : P A) (un : var * nat) (rs : ruleset A), wf rs ->
  forall pop n, pop_ok_okb pop ->
    nonincreasing (rev (emitted (kernel_run up un pop rs n (kernel_start up rs)))) /\
    (forall e q, In e (emitted (kernel_run up un pop rs n (kernel_start up rs))) ->
                 In q (pending (kernel_run up un pop rs n (kernel_start up rs))) -> ple (iprob q) (iprob e) = true).
Proof. exact (fun A up un rs H pop n => kernel_sorted_every_prefix up un rs H pop n). Qed.

Theorem C01_prob_is_product_translated :
  forall (A : palg) (up : P A) (un : var * nat) (rs : ruleset A), wf rs ->
  forall pop n it, pop_ok_okb pop ->
    In it (emitted (kernel_run up un pop rs n (kernel_start up rs)) ++ pending (kernel_run up un pop rs n (kernel_start up rs))) ->
    iprob it = py_find_prob up rs (ipt it) (ibase it) /\ In it (all_preterminals rs).
Proof. exact (fun A up un rs H pop n it => kernel_prob_is_product up un rs H pop n it). Qed.

Print Assumptions C01_sorted_every_prefix.
Print Assumptions C01_sorted_every_prefix_translated.
Print Assumptions C01_prob_is_product_translated.
Print Assumptions C01_prob_is_product.
Print Assumptions C01_binary64.
Print Assumptions C01_python_lt_is_plt.

(* ---- third tie to the source: gen/Queue_gen.v is the translation of the Python text of the
   priority-queue OBJECT (lib_guesser/priority_queue.py: class QueueItem with its six comparison
   methods, PcfgQueue.__init__ / next / insert_queue; harness/translate_queue.py, redone on every
   run).  heapq itself is not translated: push / pop are arbitrary functions meeting its contract
   for the translated __lt__ (push_ok, heap_ok py_QueueItem_lt).  up / un / ui: the undefined
   values; flit: the meaning of a float literal (the identity for binary64); fuel: only used by a
   restored session. ---- *)
From Coq Require Import NArith.
From Pcfg Require Import QueueRt QueueModel QueueProofs QueueGenProofs.
From PcfgGen Require Import Queue_gen.

(* which field is compared and in which direction: heapq is a min-heap, so __lt__ is "more probable" *)
Theorem C01_source_queue_item_order_is_model :
  forall (A : palg) (a b : item A), okb (iprob a) = true -> okb (iprob b) = true ->
  py_QueueItem_lt a b = plt (iprob b) (iprob a) /\ py_QueueItem_le a b = ple (iprob b) (iprob a) /\
  py_QueueItem_eq a b = peq (iprob a) (iprob b) /\ py_QueueItem_ne a b = negb (peq (iprob a) (iprob b)) /\
  py_QueueItem_gt a b = plt (iprob a) (iprob b) /\ py_QueueItem_ge a b = ple (iprob a) (iprob b).
Proof.
  exact (fun A a b Ha Hb => conj (queue_item_lt_eq a b Ha Hb) (conj (queue_item_le_eq a b Ha Hb) (conj (queue_item_eq_eq a b Ha Hb)
          (conj (queue_item_ne_eq a b Ha Hb) (conj (queue_item_gt_eq a b Ha Hb) (queue_item_ge_eq a b Ha Hb)))))).
Qed.

(* heapq over the translated __lt__ is exactly the queue contract the theorems above assume *)
Theorem C01_source_heap_contract_is_model :
  forall (A : palg) (pop : heap A -> option (item A * heap A)), heap_ok py_QueueItem_lt pop <-> pop_ok_okb pop.
Proof. exact (fun A pop => queue_heap_contract pop). Qed.

(* PcfgQueue.next = the model's next (pop, record the popped probability, push the children, return the
   popped item), for every object, over the translated find_children *)
Theorem C01_source_next_is_model :
  forall (A : palg) (up : P A) (un : var * nat) (ui : item A) (push : heap A -> item A -> heap A)
         (pop : heap A -> option (item A * heap A)) (rs : ruleset A) (q : pcfg_queue A),
  (forall h, pop h = None <-> h = nil) ->
  py_PcfgQueue_next up un ui push pop rs q = q_next push pop (py_find_children up un rs) q.
Proof. exact (fun A up un ui push pop rs q => queue_next_eq up un ui push pop rs q). Qed.

(* PcfgQueue(pcfg) = the model's initial object: the base items pushed on an empty heap, 1.0 / 0.0 / 50000 *)
Theorem C01_source_init_is_model :
  forall (A : palg) (up : P A) (un : var * nat) (flit : float -> P A) (rs : ruleset A), wf rs ->
  forall (push : heap A -> item A -> heap A) (fuel : nat),
  py_PcfgQueue_init up un flit push fuel rs None = q_start push (flit 1%float) (flit 0%float) 50000%N rs.
Proof. exact (fun A up un flit rs H push fuel => queue_init_new_model up un flit rs H push fuel). Qed.

(* one call of the model's next against one step of Next.v: same item, same heap contents *)
Theorem C01_queue_model_step_is_next_step :
  forall (A : palg) (push : heap A -> item A -> heap A) (pop : heap A -> option (item A * heap A)), push_ok push ->
  forall (rs : ruleset A) (s : list (item A) * pcfg_queue A),
  emitted (q_view (q_step (q_next push pop (find_children rs)) s)) = emitted (step pop rs (q_view s)) /\
  Permutation (pending (q_view (q_step (q_next push pop (find_children rs)) s))) (pending (step pop rs (q_view s))).
Proof. exact (fun A push pop H rs s => q_step_view push pop H rs s). Qed.

(* C01 for a session over the translated object: PcfgQueue(pcfg) and n calls of next *)
Theorem C01_sorted_every_prefix_queue_translated :
  forall (A : palg) (up : P A) (un : var * nat) (ui : item A) (flit : float -> P A) (rs : ruleset A), wf rs ->
  forall (push : heap A -> item A -> heap A) (pop : heap A -> option (item A * heap A)),
  push_ok push -> heap_ok py_QueueItem_lt pop -> forall fuel n : nat,
  let s := py_session up un ui flit push pop fuel rs None n in
  nonincreasing (rev (fst s)) /\
  (forall e q, In e (fst s) -> In q (p_queue (snd s)) -> ple (iprob q) (iprob e) = true) /\
  match fst s with
  | nil => max_probability (snd s) = flit 1%float
  | cons x _ => max_probability (snd s) = iprob x
  end.
Proof.
  exact (fun A up un ui flit rs H push pop Hpush Hpop fuel n =>
           queue_sorted_every_prefix up un ui flit rs H push pop Hpush (proj1 (queue_heap_contract pop) Hpop) fuel n).
Qed.

Theorem C01_prob_is_product_queue_translated :
  forall (A : palg) (up : P A) (un : var * nat) (ui : item A) (flit : float -> P A) (rs : ruleset A), wf rs ->
  forall (push : heap A -> item A -> heap A) (pop : heap A -> option (item A * heap A)),
  push_ok push -> heap_ok py_QueueItem_lt pop -> forall (fuel n : nat) (it : item A),
  let s := py_session up un ui flit push pop fuel rs None n in
  In it (fst s ++ p_queue (snd s)) ->
  iprob it = py_find_prob up rs (ipt it) (ibase it) /\ In it (all_preterminals rs).
Proof.
  exact (fun A up un ui flit rs H push pop Hpush Hpop fuel n it =>
           queue_prob_is_product up un ui flit rs H push pop Hpush (proj1 (queue_heap_contract pop) Hpop) fuel n it).
Qed.

(* non-vacuity: the demo ruleset, a list heap, a whole run and a save / restore cycle over the translated object *)
Theorem C01_queue_hypotheses_satisfiable :
  wf demo_rs /\ push_ok (@list_push F64) /\ heap_ok py_QueueItem_lt (@pop_first_max F64) /\
  length (fst (demo_session None 44)) = 44.
Proof.
  exact (conj demo_wf (conj list_push_ok (conj (proj2 (queue_heap_contract _) pop_first_max_ok_partial)
          (proj1 (proj2 (proj2 (proj2 (proj2 queue_hypotheses_satisfiable)))))))).
Qed.

Print Assumptions C01_sorted_every_prefix_queue_translated.
Print Assumptions C01_source_queue_item_order_is_model.
