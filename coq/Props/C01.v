(* placeholder until NextProofs lands *)
From Pcfg Require Import ProbAlg F64.
Theorem C01_F64_laws_available : forall a b : P F64, okb a = true -> okb b = true -> ple a b = true \/ ple b a = true.
Proof. exact (ple_total F64). Qed.
Print Assumptions C01_F64_laws_available.
