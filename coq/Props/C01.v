(* C01 - pre-terminals are emitted in non-increasing probability order and the
   reported probability is the left-to-right product.  Property theorems only. *)
From Coq Require Import List Bool Sorting.Permutation Floats.
From Pcfg Require Import ProbAlg F64 Next NextSpec NextProofs NextFacts.
From Pcfg Require Import KernelRt KernelGenProofs.
From PcfgGen Require Import Kernel_gen.

(* every prefix of the run, every probability algebra, every queue meeting the
   heap contract on ok values; the second part is the frontier invariant *)
Theorem C01_sorted_every_prefix :
  forall (A : palg) (rs : ruleset A), wf rs ->
  forall pop n, pop_ok_okb pop ->
    nonincreasing (rev (emitted (run pop rs n (start rs)))) /\
    (forall e q, In e (emitted (run pop rs n (start rs))) ->
                 In q (pending (run pop rs n (start rs))) -> ple (iprob q) (iprob e) = true).
Proof. exact (fun A rs H pop n => C01_sorted_okb rs H pop n). Qed.

Theorem C01_prob_is_product :
  forall (A : palg) (rs : ruleset A), wf rs ->
  forall pop n it, pop_ok_okb pop ->
    In it (emitted (run pop rs n (start rs)) ++ pending (run pop rs n (start rs))) ->
    iprob it = find_prob rs (ipt it) (ibase it) /\ In it (all_preterminals rs).
Proof. exact (fun A rs H pop n it => C01_prob_is_product_okb rs H pop n it). Qed.

Theorem C01_child_never_more_probable :
  forall (A : palg) (rs : ruleset A), wf rs ->
  forall it pos v i, In it (all_preterminals rs) -> nth_error (ipt it) pos = Some (v, i) ->
    S i < length (groups rs v) ->
    ple (find_prob rs (upd (ipt it) pos S) (ibase it)) (find_prob rs (ipt it) (ibase it)) = true /\
    okb (find_prob rs (upd (ipt it) pos S) (ibase it)) = true /\
    okb (find_prob rs (ipt it) (ibase it)) = true.
Proof. exact (fun A rs H it pos v i => find_prob_child_le rs H it pos v i). Qed.

(* the emitted set does not depend on how the heap breaks ties *)
Theorem C01_order_independent_of_queue :
  forall (A : palg) (rs : ruleset A) pop1 pop2, wf rs -> pop_ok_okb pop1 -> pop_ok_okb pop2 ->
  Permutation (emitted (run pop1 rs (total rs) (start rs))) (emitted (run pop2 rs (total rs) (start rs))).
Proof. exact (fun A rs p1 p2 => queue_independent rs p1 p2). Qed.

(* the queue the correspondence runs meets the contract *)
Theorem C01_model_queue_meets_contract : forall A : palg, pop_ok_okb (@pop_first_max A).
Proof. exact (fun A => @pop_first_max_ok_partial A). Qed.

(* binary64: the laws hold for IEEE doubles including ties, subnormals, zero;
   Python's < and == on such values are the algebra's plt / peq; and the
   boolean well-formedness test run on every generated case implies wf *)
Theorem C01_binary64 :
  forall rs : ruleset F64, wfb rs = true ->
  forall n, nonincreasing (rev (emitted (run pop_first_max rs n (start rs)))).
Proof.
  exact (fun rs H n => proj1 (C01_sorted_okb rs (wfb_wf rs H) pop_first_max n (@pop_first_max_ok_partial F64))).
Qed.

Theorem C01_python_lt_is_plt : forall a b : float, okbF a = true -> okbF b = true -> PrimFloat.ltb a b = @plt F64 a b.
Proof. exact plt_F64. Qed.
Theorem C01_python_eq_is_peq : forall a b : float, okbF a = true -> okbF b = true -> PrimFloat.eqb a b = @peq F64 a b.
Proof. exact peq_F64. Qed.

(* non-vacuity *)
Theorem C01_hypotheses_satisfiable : wf demo_rs /\ total demo_rs = 44.
Proof. exact (conj demo_wf demo_total). Qed.

(* ---- second tie to the source: gen/Kernel_gen.v is the translation of the Python text of
   _find_prob, _are_you_my_child, find_children and initalize_base_structures
   (harness/translate_kernel.py, redone on every run); the queue loop over the translated
   functions goes through the model's states, so the two main theorems hold for it verbatim
   (up / un: the arbitrary value of a subscript that raises in Python) *)
Theorem C01_source_find_prob_is_model :
  forall (A : palg) (up : P A) (rs : ruleset A) (t : pt) (b : P A),
  inrange rs t -> py_find_prob up rs t b = find_prob rs t b.
Proof. exact (fun A up rs t b => kernel_find_prob_eq up rs t b). Qed.

Theorem C01_translated_run_is_model :
  forall (A : palg) (up : P A) (un : var * nat) (rs : ruleset A), wf rs -> forall pop n, pop_ok_okb pop ->
  kernel_run up un pop rs n (kernel_start up rs) = run pop rs n (start rs).
Proof. exact (fun A up un rs H pop n => kernel_run_eq up un rs H pop n). Qed.

Theorem C01_sorted_every_prefix_translated :
  forall (A : palg) (up : P A) (un : var * nat) (rs : ruleset A), wf rs ->
  forall pop n, pop_ok_okb pop ->
    nonincreasing (rev (emitted (kernel_run up un pop rs n (kernel_start up rs)))) /\
    (forall e q, In e (emitted (kernel_run up un pop rs n (kernel_start up rs))) ->
                 In q (pending (kernel_run up un pop rs n (kernel_start up rs))) -> ple (iprob q) (iprob e) = true).
Proof. exact (fun A up un rs H pop n => kernel_sorted_every_prefix up un rs H pop n). Qed.

Theorem C01_prob_is_product_translated :
  forall (A : palg) (up : P A) (un : var * nat) (rs : ruleset A), wf rs ->
  forall pop n it, pop_ok_okb pop ->
    In it (emitted (kernel_run up un pop rs n (kernel_start up rs)) ++ pending (kernel_run up un pop rs n (kernel_start up rs))) ->
    iprob it = py_find_prob up rs (ipt it) (ibase it) /\ In it (all_preterminals rs).
Proof. exact (fun A up un rs H pop n it => kernel_prob_is_product up un rs H pop n it). Qed.

Print Assumptions C01_sorted_every_prefix.
Print Assumptions C01_sorted_every_prefix_translated.
Print Assumptions C01_prob_is_product_translated.
Print Assumptions C01_prob_is_product.
Print Assumptions C01_binary64.
Print Assumptions C01_python_lt_is_plt.
