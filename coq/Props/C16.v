(* C16 - honeywords follow the grammar's probabilities.  Theorems only. *)
From Coq Require Import List Arith Bool QArith ZArith.
From Pcfg Require Import Honey SmallGenProofsWalk.
From PcfgGen Require Import Consts_gen Small_walk_gen.
From Pcfg Require Import SessionRt SessionHoneyGenProofs.
From PcfgGen Require Import SessionHoney_gen.
Import ListNotations.

(* side condition on the source: when rounding leaves the running sum below the
   draw, both selection loops fall back to the last entry *)
Theorem C16_source_walk_falls_back_to_last : walk_fallback_last = true.
Proof. reflexivity. Qed.

(* ANY number type (in particular binary64): the selected index is the first
   one whose running sum, computed exactly as the loop computes it, reaches the
   draw - for every draw, not a sample *)
Theorem C16_select_first :
  forall (T : Type) (zero : T) (add : T -> T -> T) (leb : T -> T -> bool) ws u k,
  select zero add leb ws u = Some k <->
  k < length ws /\ leb u (nth k (cums zero add ws) zero) = true /\
  forall j, j < k -> leb u (nth j (cums zero add ws) zero) = false.
Proof. exact (fun T zero add leb ws u k => select_first zero add leb ws u k). Qed.

Theorem C16_select_none :
  forall (T : Type) (zero : T) (add : T -> T -> T) (leb : T -> T -> bool) ws u,
  select zero add leb ws u = None <->
  forall j, j < length ws -> leb u (nth j (cums zero add ws) zero) = false.
Proof. exact (fun T zero add leb ws u => select_none zero add leb ws u). Qed.

(* exact arithmetic: index k owns exactly the draws in (cum_{k-1}, cum_k], an
   interval whose length is the k-th weight: the chance of a choice equals its
   probability when the draw is uniform *)
Theorem C16_select_interval_Q : forall ws u k,
  (k < length ws)%nat -> Forall (fun w => 0 <= w)%Q ws ->
  (Qsel ws u = Some k <->
   (u <= nth k (Qcums ws) 0)%Q /\ (k = 0%nat \/ (nth (k - 1) (Qcums ws) 0 < u)%Q)).
Proof. exact select_interval_Q. Qed.

Theorem C16_interval_length_Q : forall ws acc k, (S k < length ws)%nat ->
  (nth (S k) (cums_from Qplus ws acc) 0 == nth k (cums_from Qplus ws acc) 0 + nth (S k) ws 0)%Q.
Proof. exact interval_length_Q. Qed.

(* --limit N: each iteration yields at most one word; the loop stops right
   after the N-th *)
Theorem C16_exactly_N : forall iters n,
  n >= 1 -> Forall (fun w => length w <= 1) iters -> length (concat iters) >= n ->
  honey_loop iters n = firstn n (concat iters) /\ length (honey_loop iters n) = n.
Proof. exact honey_exactly_N. Qed.

(* ---- translator tie: the Python text of PcfgGrammar.random_walk, translated on
   every run into gen/Small_walk_gen.v, IS the model the theorems above are about ----
   for every number type and operations (binary64 included), every grammar with a
   base structure and every draw list that is long enough: the walk the source
   computes is the model's walk (with the fall-back to the last entry), its
   base_prob is 1.0 and its prob is _find_prob of the walk *)
Theorem C16_source_random_walk_is_model :
  forall (T : Type) (zero one : T) (add mul : T -> T -> T) (leb ltb : T -> T -> bool) (ofnat : nat -> T)
         (find_prob : list (nat * nat) -> T -> T)
         (undef_draw : T) (undef_node : nat * nat) (undef_group : T * nat) (undef_base : T * list nat)
         (g : @hgrammar T) (u0 : T) (us : list T),
  hbases g <> [] ->
  (forall b, In b (hbases g) -> length (snd b) <= length us) ->
  exists w, random_walk zero add mul leb ofnat true g u0 us = Some w /\
            py_random_walk zero one add mul leb ltb ofnat find_prob undef_draw undef_node undef_group undef_base
                           g (u0 :: us) = (w, one, find_prob w one).
Proof. exact (@small_random_walk_eq). Qed.

(* the main statement transported to the source: over Q, the structure
   random_walk returns for the draw u0 is entry k of self.base exactly when u0
   lies in (cum_{k-1}, cum_k], an interval whose length is the k-th probability
   (C16_interval_length_Q) *)
Theorem C16_source_walk_base_interval_Q :
  forall one (ltb : Q -> Q -> bool) find_prob undef_draw undef_node undef_group undef_base
         (g : @hgrammar Q) (u0 : Q) (us : list Q) (k : nat),
  hbases g <> [] ->
  (forall b, In b (hbases g) -> length (snd b) <= length us) ->
  (k < length (hbases g))%nat -> Forall (fun w => 0 <= w)%Q (map fst (hbases g)) ->
  (u0 <= nth k (Qcums (map fst (hbases g))) 0)%Q ->
  (k = 0%nat \/ (nth (k - 1) (Qcums (map fst (hbases g))) 0 < u0)%Q) ->
  map fst (fst (fst (py_random_walk 0%Q one Qplus Qmult Qle_bool ltb (fun n => inject_Z (Z.of_nat n)) find_prob
                       undef_draw undef_node undef_group undef_base g (u0 :: us))))
  = snd (nth k (hbases g) (0%Q, [])).
Proof. exact small_walk_base_interval_Q. Qed.

(* ... and position i holds group ix of its variable exactly when the position's
   draw lies in the interval of that group's weight prob * |values| *)
Theorem C16_source_walk_group_interval_Q :
  forall one (ltb : Q -> Q -> bool) find_prob undef_draw undef_node undef_group undef_base
         (g : @hgrammar Q) (u0 : Q) (us : list Q) (i v ix k : nat) (u : Q),
  hbases g <> [] ->
  (forall b, In b (hbases g) -> length (snd b) <= length us) ->
  nth_error (fst (fst (py_random_walk 0%Q one Qplus Qmult Qle_bool ltb (fun n => inject_Z (Z.of_nat n)) find_prob
                         undef_draw undef_node undef_group undef_base g (u0 :: us)))) i = Some (v, ix) ->
  nth_error us i = Some u ->
  let ws := weights Qmult (fun n => inject_Z (Z.of_nat n)) (nth v (htable g) []) in
  (k < length ws)%nat -> Forall (fun w => 0 <= w)%Q ws ->
  (u <= nth k (Qcums ws) 0)%Q -> (k = 0%nat \/ (nth (k - 1) (Qcums ws) 0 < u)%Q) ->
  ix = k.
Proof. exact small_walk_group_interval_Q. Qed.

(* the hypotheses are satisfiable and the generated function runs: two base
   structures (1/4: [0], 3/4: [1; 0]), two variables with two groups each *)
Example C16_source_walk_example :
  let g := {| hbases := [((1#4)%Q, [0]); ((3#4)%Q, [1; 0])];
              htable := [[((1#4)%Q, 2); ((1#2)%Q, 1)]; [((1#2)%Q, 1); ((1#6)%Q, 3)]] |} in
  hbases g <> [] /\ (forall b, In b (hbases g) -> length (snd b) <= 2) /\
  fst (fst (py_random_walk 0%Q 1%Q Qplus Qmult Qle_bool (fun a b => negb (Qle_bool b a)) (fun n => inject_Z (Z.of_nat n)) (fun _ p => p)
              0%Q (0, 0) (0%Q, 0) (0%Q, []) g [(1#2)%Q; (3#4)%Q; (1#2)%Q])) = [(1, 1); (0, 0)].
Proof.
  cbv zeta. split; [discriminate|]. split.
  - intros b [<-|[<-|[]]]; simpl; auto.
  - vm_compute. reflexivity.
Qed.


(* ---- translator tie of the honeyword loop: gen/SessionHoney_gen.v is the translation of the
   Python text of lib_guesser/honeyword_session.py HoneywordSession.run
   (harness/translate_session.py, redone on every run).  The world: self.random_seed
   ([cur_seed]), what random.seed was last called with ([rng]); [words s] = what
   create_guesses(.., is_honeyword=True, ..) writes for the structure random_walk() returns
   right after random.seed(s); the contract [honey_world] says what each operation does to
   these observations (create_guesses: the first `limit` words, all for None / 0, and their
   number).  Then for every limit n >= 1, as soon as the first k iterations hold n words,
   the translated loop writes exactly what the model [honey_loop] writes for the iterations
   words(s0), words(s0+1), ...: the seed is advanced by one per iteration, the limit is
   decremented by the RETURNED count and the loop stops at <= 0 as in the source *)
Theorem C16_source_honeyword_run_is_model :
  forall (W Item Pt : Type) (item_pt : Item -> Pt)
         (create_guesses : Pt -> bool -> option Z -> W -> sres Z * list nat * W)
         (random_walk : W -> Item * W) (get_random_seed : W -> Z) (set_random_seed seed_random : Z -> W -> W)
         (cur_seed : W -> Z) (rng : W -> option Z) (expansion : Pt -> list nat) (words : Z -> list nat),
  honey_world item_pt create_guesses random_walk get_random_seed set_random_seed seed_random cur_seed rng expansion words ->
  (forall s, length (words s) <= 1) ->
  forall (n k fuel : nat) (w : W),
  n >= 1 -> length (concat (iterations words (cur_seed w) k)) >= n -> k < fuel ->
  exists w', py_honeyword_run item_pt create_guesses random_walk get_random_seed set_random_seed seed_random
                              fuel (Some (Z.of_nat n)) w =
             (SOk tt, honey_loop (iterations words (cur_seed w) k) n, w').
Proof. exact (@honey_eq). Qed.

(* C16_exactly_N transported to the source *)
Theorem C16_source_exactly_N :
  forall (W Item Pt : Type) (item_pt : Item -> Pt)
         (create_guesses : Pt -> bool -> option Z -> W -> sres Z * list nat * W)
         (random_walk : W -> Item * W) (get_random_seed : W -> Z) (set_random_seed seed_random : Z -> W -> W)
         (cur_seed : W -> Z) (rng : W -> option Z) (expansion : Pt -> list nat) (words : Z -> list nat),
  honey_world item_pt create_guesses random_walk get_random_seed set_random_seed seed_random cur_seed rng expansion words ->
  (forall s, length (words s) <= 1) ->
  forall (n k fuel : nat) (w : W),
  n >= 1 -> length (concat (iterations words (cur_seed w) k)) >= n -> k < fuel ->
  let out := snd (fst (py_honeyword_run item_pt create_guesses random_walk get_random_seed set_random_seed seed_random
                                        fuel (Some (Z.of_nat n)) w)) in
  out = firstn n (concat (iterations words (cur_seed w) k)) /\ length out = n.
Proof. exact (@source_exactly_N). Qed.

(* limit None / 0 (`if limit:` false): the loop has no exit of its own; after any number of
   iterations it has written all their words (honey_loop iters 0) and goes on *)
Theorem C16_source_unlimited_never_stops :
  forall (W Item Pt : Type) (item_pt : Item -> Pt)
         (create_guesses : Pt -> bool -> option Z -> W -> sres Z * list nat * W)
         (random_walk : W -> Item * W) (get_random_seed : W -> Z) (set_random_seed seed_random : Z -> W -> W)
         (cur_seed : W -> Z) (rng : W -> option Z) (expansion : Pt -> list nat) (words : Z -> list nat),
  honey_world item_pt create_guesses random_walk get_random_seed set_random_seed seed_random cur_seed rng expansion words ->
  (forall s, length (words s) <= 1) ->
  forall (l : option Z) (k : nat) (w : W), l = None \/ l = Some 0%Z ->
  exists w', py_honeyword_run item_pt create_guesses random_walk get_random_seed set_random_seed seed_random k l w =
             (SExc OutOfFuel, honey_loop (iterations words (cur_seed w) k) 0, w').
Proof. exact (@honey_unlimited). Qed.

(* the hypotheses are satisfiable and the translated loop computes: seeds 1, 2, ... where
   every third seed yields no word (a Markov structure) *)
Example C16_source_honeyword_run_example :
  let words := fun z : Z => if Z.eqb (z mod 3) 0 then @nil nat else [Z.to_nat z] in
  honey_world (fun it : sw_item => it) sw_create (sw_walk words) sw_get sw_set sw_seed (fun w => fst w) (fun w => snd w)
              (fun pt => pt) words /\
  py_honeyword_run (fun it : sw_item => it) sw_create (sw_walk words) sw_get sw_set sw_seed 10 (Some 4%Z) (1%Z, None)
  = (SOk tt, [1; 2; 4; 5], (5%Z, Some 5%Z)).
Proof. exact (conj (seed_world_ok _) (proj1 seed_world_example)). Qed.

Print Assumptions C16_select_first.
Print Assumptions C16_source_random_walk_is_model.
Print Assumptions C16_source_walk_base_interval_Q.
Print Assumptions C16_source_walk_group_interval_Q.
Print Assumptions C16_select_interval_Q.
Print Assumptions C16_exactly_N.
Print Assumptions C16_source_honeyword_run_is_model.
Print Assumptions C16_source_exactly_N.
