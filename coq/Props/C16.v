(* C16 - honeywords follow the grammar's probabilities.  Theorems only. *)
From Coq Require Import List Arith Bool QArith.
From Pcfg Require Import Honey.
From PcfgGen Require Import Consts_gen.
Import ListNotations.

(* side condition on the source: when rounding leaves the running sum below the
   draw, both selection loops fall back to the last entry *)
Theorem C16_source_walk_falls_back_to_last : walk_fallback_last = true.
Proof. reflexivity. Qed.

(* ANY number type (in particular binary64): the selected index is the first
   one whose running sum, computed exactly as the loop computes it, reaches the
   draw - for every draw, not a sample *)
Theorem C16_select_first :
  forall (T : Type) (zero : T) (add : T -> T -> T) (leb : T -> T -> bool) ws u k,
  select zero add leb ws u = Some k <->
  k < length ws /\ leb u (nth k (cums zero add ws) zero) = true /\
  forall j, j < k -> leb u (nth j (cums zero add ws) zero) = false.
Proof. exact (fun T zero add leb ws u k => select_first zero add leb ws u k). Qed.

Theorem C16_select_none :
  forall (T : Type) (zero : T) (add : T -> T -> T) (leb : T -> T -> bool) ws u,
  select zero add leb ws u = None <->
  forall j, j < length ws -> leb u (nth j (cums zero add ws) zero) = false.
Proof. exact (fun T zero add leb ws u => select_none zero add leb ws u). Qed.

(* exact arithmetic: index k owns exactly the draws in (cum_{k-1}, cum_k], an
   interval whose length is the k-th weight: the chance of a choice equals its
   probability when the draw is uniform *)
Theorem C16_select_interval_Q : forall ws u k,
  (k < length ws)%nat -> Forall (fun w => 0 <= w)%Q ws ->
  (Qsel ws u = Some k <->
   (u <= nth k (Qcums ws) 0)%Q /\ (k = 0%nat \/ (nth (k - 1) (Qcums ws) 0 < u)%Q)).
Proof. exact select_interval_Q. Qed.

Theorem C16_interval_length_Q : forall ws acc k, (S k < length ws)%nat ->
  (nth (S k) (cums_from Qplus ws acc) 0 == nth k (cums_from Qplus ws acc) 0 + nth (S k) ws 0)%Q.
Proof. exact interval_length_Q. Qed.

(* --limit N: each iteration yields at most one word; the loop stops right
   after the N-th *)
Theorem C16_exactly_N : forall iters n,
  n >= 1 -> Forall (fun w => length w <= 1) iters -> length (concat iters) >= n ->
  honey_loop iters n = firstn n (concat iters) /\ length (honey_loop iters n) = n.
Proof. exact honey_exactly_N. Qed.

Print Assumptions C16_select_first.
Print Assumptions C16_select_interval_Q.
Print Assumptions C16_exactly_N.
