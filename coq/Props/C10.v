(* C10: the OMEN generator enumerates each level exactly, independently of the
   shared lookup cache.  Model: theories/Omen.v (run by the correspondence on
   the indexed table cp_fast G); specification: theories/OmenSpec.v. *)
From Coq Require Import List Bool NArith ZArith.
From Pcfg Require Import OmenSpec Omen OmenCorr OmenProofs OmenProofs2 OmenProofs3 OmenProofs4 OmenProofs5
     OmenLevelProofs.
From PcfgGen Require Import Consts_gen.
Import ListNotations.

(* ---- side condition on the regenerated constants: _find_first_object scans
   range(0, max_level) or range(0, max_level + 1), nothing else ---- *)
Theorem C10_source_first_object_range : omen_first_object_extra <= 1.
Proof. unfold omen_first_object_extra. repeat constructor. Qed.

(* ---- the tables the model runs on are the tables of the files ---- *)
Theorem C10_cp_fast_ok : forall G p l, cp_fast G p l = cp_at G p l.
Proof. exact cp_fast_ok. Qed.

Theorem C10_wf_tablesb_sound : forall G, wf_tablesb G = true -> wf_tables G.
Proof. exact wf_tablesb_sound. Qed.

(* ---- _fill_out_parse_tree with the memo table ---- *)
Theorem C10_cache_ok_empty : forall cpf maxl, cache_ok cpf maxl cempty.
Proof. exact cache_ok_empty. Qed.

Theorem C10_fill_is_first : forall cpf maxl optmax k c p lvl,
  1 <= k -> cache_ok cpf maxl c ->
  fst (fill cpf maxl optmax k c p lvl) = hd_error (completions_f cpf maxl k p lvl) /\
  cache_ok cpf maxl (snd (fill cpf maxl optmax k c p lvl)).
Proof. exact fill_is_first. Qed.

Theorem C10_fill_cache_independent : forall cpf maxl optmax k c1 c2 p lvl,
  1 <= k -> cache_ok cpf maxl c1 -> cache_ok cpf maxl c2 ->
  fst (fill cpf maxl optmax k c1 p lvl) = fst (fill cpf maxl optmax k c2 p lvl).
Proof. exact fill_cache_independent. Qed.

(* ---- GuessStructure.next_guess is the successor function of the canonical list ---- *)
Theorem C10_gs_first_is_head : forall cpf maxl optmax c ip k target,
  1 <= k -> cache_ok cpf maxl c ->
  fst (gs_next cpf maxl optmax c ip k target []) = hd_error (completions_f cpf maxl k ip target).
Proof. exact gs_first_is_head. Qed.

Theorem C10_gs_next_is_successor : forall cpf maxl optmax c ip k target xs t t' ys,
  1 <= k -> cache_ok cpf maxl c ->
  completions_f cpf maxl k ip target = xs ++ t :: t' :: ys ->
  fst (gs_next cpf maxl optmax c ip k target t) = Some t'.
Proof. exact gs_next_is_successor. Qed.

Theorem C10_gs_next_last_is_none : forall cpf maxl optmax c ip k target xs t,
  1 <= k -> cache_ok cpf maxl c ->
  completions_f cpf maxl k ip target = xs ++ [t] ->
  fst (gs_next cpf maxl optmax c ip k target t) = None.
Proof. exact gs_next_last_is_none. Qed.

Theorem C10_NoDup_completions : forall cpf maxl k p lvl, NoDup (completions_f cpf maxl k p lvl).
Proof. exact NoDup_compl. Qed.

(* ---- the whole level: what the correspondence evaluates (m_enumerate) returns
   exactly level_strings G T and then reports exhaustion; fuel never runs out;
   the final cache is again sound ---- *)
Theorem C10_exact : forall G T c starts,
  cache_ok (cp_fast G) (og_max_level G) c ->
  mc_starts (ip_at G) (ln_at G) (og_max_level G) omen_first_object_extra = Some starts ->
  exists st' c',
    m_enumerate G (cp_fast G) (S (length (level_strings G T))) c T = Some (level_strings G T, Done, st', c') /\
    cache_ok (cp_fast G) (og_max_level G) c'.
Proof.
  exact (fun G => enumerate_exact G omen_optimizer_max_length omen_first_object_extra C10_source_first_object_range).
Qed.

Theorem C10_prefix_never_out_of_fuel : forall G T c n starts,
  cache_ok (cp_fast G) (og_max_level G) c ->
  mc_starts (ip_at G) (ln_at G) (og_max_level G) omen_first_object_extra = Some starts ->
  exists st' c',
    m_enumerate G (cp_fast G) n c T =
      Some (firstn n (level_strings G T), run_status n (level_strings G T), st', c') /\
    cache_ok (cp_fast G) (og_max_level G) c'.
Proof.
  exact (fun G => enumerate_prefix G omen_optimizer_max_length omen_first_object_extra C10_source_first_object_range).
Qed.

Theorem C10_run_status_is_not_out_of_fuel : forall n R, run_status n R <> OutOfFuel.
Proof. exact run_status_not_oof. Qed.

(* the constructor succeeds when some IP and some length sit below max_level *)
Theorem C10_first_below_max_constructs : forall G,
  first_below_max G ->
  exists starts, mc_starts (ip_at G) (ln_at G) (og_max_level G) omen_first_object_extra = Some starts.
Proof. exact (fun G => first_below_max_starts G omen_first_object_extra). Qed.

(* second sentence of the property *)
Theorem C10_cache_independent : forall G T c1 c2 n starts,
  cache_ok (cp_fast G) (og_max_level G) c1 -> cache_ok (cp_fast G) (og_max_level G) c2 ->
  mc_starts (ip_at G) (ln_at G) (og_max_level G) omen_first_object_extra = Some starts ->
  option_map (fun r => fst (fst r)) (m_enumerate G (cp_fast G) n c1 T) =
  option_map (fun r => fst (fst r)) (m_enumerate G (cp_fast G) n c2 T).
Proof.
  exact (fun G => enumerate_cache_independent G omen_optimizer_max_length omen_first_object_extra C10_source_first_object_range).
Qed.

(* ---- the list is the level set, each string once (proved by the C11/C18
   owner over the same OmenSpec definitions) ---- *)
Theorem C10_set : forall G, wf_tables G ->
  forall s L, In s (level_strings G (Z.of_nat L)) <-> level_of G s = Some L.
Proof. exact ol_level_strings_iff. Qed.

Theorem C10_set_nonnegative : forall G, wf_tables G -> forall T s, In s (level_strings G T) -> (0 <= T)%Z.
Proof. exact ol_level_strings_neg. Qed.

Theorem C10_NoDup : forall G, wf_tables G -> forall T, NoDup (level_strings G T).
Proof. exact ol_NoDup_level_strings. Qed.

(* ---- R17: without first_below_max the as-coded scan refutes the property ---- *)
Theorem C10_refuted_first_object : omen_first_object_extra = 0 -> omen_max_level = 10 ->
  m_enumerate (G17 omen_max_level) (cp_fast (G17 omen_max_level)) 1 cempty 10%Z = None /\
  level_strings (G17 omen_max_level) 10%Z = [[97%N; 97%N]] /\
  wf_tablesb (G17 omen_max_level) = true.
Proof. exact (first_object_refuted omen_first_object_extra omen_max_level omen_optimizer_max_length). Qed.

(* ---- the hypotheses are satisfiable on a non-trivial instance ---- *)
Theorem C10_example_hypotheses : wf_tables (Gex 10) /\ first_below_max (Gex 10).
Proof. exact (conj Gex_wf Gex_first_below_max). Qed.

Print Assumptions C10_exact.
Print Assumptions C10_gs_next_is_successor.
Print Assumptions C10_fill_is_first.
Print Assumptions C10_cache_independent.
Print Assumptions C10_set.
Print Assumptions C10_NoDup.
Print Assumptions C10_refuted_first_object.

(* ================================================================== *)
From Pcfg Require Import OmenGenRt OmenGenRtProofs OmenGenOptProofs OmenGenGsProofs OmenGenGsNextProofs OmenGenMcProofs
     OmenGenGenProofs.
From PcfgGen Require Import Consts_gen OmenGen_opt_gen OmenGen_gs_gen OmenGen_mc_gen.
(* Translator tie (second tie to the source): gen/OmenGen_{opt,gs,mc}_gen.v are
   re-translated from the Python text of optimizer.py, guess_structure.py and
   markov_cracker.py on every run (harness/translate_omen_gen.py); the theorems
   below say that the translated methods compute what the model of Omen.v
   computes, for all inputs, and restate the main theorems over them. *)

(* ---- Optimizer ---- *)
Theorem C10_source_optimizer_init_is_model : forall fuel optmax,
  exists o, py_opt_init fuel (Z.of_nat optmax) = Ok o /\ crel optmax o cempty.
Proof. exact gen_opt_init. Qed.

Theorem C10_source_optimizer_lookup_is_model : forall fuel optmax o c k p l,
  crel optmax o c -> k <= optmax ->
  py_opt_lookup fuel o p (Z.of_nat k) l =
  Ok (match clookup c (k, p, l) with Some v => (true, otree_py v) | None => (false, None) end).
Proof. exact gen_opt_lookup. Qed.

Theorem C10_source_optimizer_update_is_model : forall fuel optmax o c k p l v,
  crel optmax o c -> k <= optmax -> v <> Some [] ->
  exists o', py_opt_update fuel o p (Z.of_nat k) l (otree_py v) = Ok (tt, o') /\
             crel optmax o' (cupdate c (k, p, l) v).
Proof. exact gen_opt_update. Qed.

(* ---- GuessStructure ---- *)
Theorem C10_source_find_cp_is_model : forall cp maxl, cp_nonempty cp ->
  forall fuel self p top bottom, gs_ok cp maxl self ->
  fuel > Z.to_nat (Z.min top (Z.of_nat maxl) - bottom + 1) ->
  py_gs_find_cp fuel self p top bottom = Ok (fcp_py cp p (find_cp (cpf_of cp) maxl p top bottom)).
Proof. exact gen_find_cp. Qed.

Theorem C10_source_fill_out_parse_tree_is_model : forall cp maxl optmax, cp_nonempty cp ->
  forall self, gs_ok cp maxl self ->
  forall k fuel o c p lvl, 1 <= k -> crel optmax o c -> fuel >= fill_fuel cp maxl k ->
  exists o', py_gs_fill_out_parse_tree fuel self o p (Z.of_nat k) lvl =
               Ok (otree_py (fst (fill (cpf_of cp) maxl optmax k c p lvl)), o') /\
             crel optmax o' (snd (fill (cpf_of cp) maxl optmax k c p lvl)).
Proof. exact gen_fill. Qed.

Theorem C10_source_format_guess_is_model : forall cp maxl, cp_nonempty cp ->
  forall fuel self T, gs_cp self = cp -> tree_valid cp maxl T ->
  py_gs_format_guess fuel (with_pt self T) = Ok (format_guess (cpf_of cp) (gs_ip self) T).
Proof. exact gen_format_guess. Qed.

Theorem C10_source_gs_next_guess_is_model : forall cp maxl optmax, cp_nonempty cp ->
  forall self, gs_ok cp maxl self ->
  forall fuel s o c k t,
  inv cp maxl optmax o c -> 1 <= k ->
  t = [] \/ In t (completions_f (cpf_of cp) maxl k (gs_ip self) (gs_target_level self)) ->
  gs_cp_length self = Z.of_nat k ->
  s = with_pt self t \/ t = [] /\ s = set_gs_parse_tree self None ->
  fuel >= gs_fuel cp maxl k t ->
  exists o' pt',
    py_gs_next_guess fuel s o =
      Ok (option_map (format_guess (cpf_of cp) (gs_ip self))
                     (fst (gs_next (cpf_of cp) maxl optmax c (gs_ip self) k (gs_target_level self) t)),
          set_gs_parse_tree self pt', o') /\
    inv cp maxl optmax o' (snd (gs_next (cpf_of cp) maxl optmax c (gs_ip self) k (gs_target_level self) t)) /\
    match fst (gs_next (cpf_of cp) maxl optmax c (gs_ip self) k (gs_target_level self) t) with
    | Some t' => pt' = Some (tree_py t') /\
                 In t' (completions_f (cpf_of cp) maxl k (gs_ip self) (gs_target_level self))
    | None => pt' = Some [] \/ pt' = None
    end.
Proof. exact gen_gs_next. Qed.

(* ---- MarkovCracker ---- *)
Theorem C10_source_find_first_object_is_model : forall maxl X fuel m (f : nat -> list X),
  m_max_level m = Z.of_nat maxl ->
  py_mc_find_first_object fuel m (Z.of_nat maxl, f) =
  match find_first_object maxl omen_first_object_extra f with
  | Some l => Ok (Z.of_nat l)
  | None => Raise PyException
  end.
Proof. exact (fun maxl X fuel m f H => @gen_find_first_object maxl X fuel m f H C10_source_first_object_range). Qed.

Theorem C10_source_mc_init_is_model : forall ipf lnf cp maxl ngramZ fuel T,
  py_mc_init fuel (gram ipf lnf cp maxl ngramZ) T =
  match mc_starts ipf lnf maxl omen_first_object_extra with
  | Some (a, b) => Ok (py_obj ipf lnf cp maxl ngramZ a b T None None None)
  | None => Raise PyException
  end.
Proof. exact (fun ipf lnf cp maxl ngramZ fuel T => gen_mc_init ipf lnf cp maxl ngramZ fuel T C10_source_first_object_range). Qed.

Theorem C10_source_increase_ip_is_model : forall ipf lnf cp maxl ngramZ s_ip s_len fuel T lc ic g bound,
  cvalid maxl lnf lc -> cvalid maxl ipf ic -> fuel > maxl ->
  py_mc_increase_ip_for_target fuel
    (py_obj ipf lnf cp maxl ngramZ s_ip s_len T (Some (cursor_py lc)) (Some (cursor_py ic)) g) bound =
  Ok (match increase maxl ipf ic bound with
      | Some ic' => (Some true, py_obj ipf lnf cp maxl ngramZ s_ip s_len T (Some (cursor_py lc)) (Some (cursor_py ic'))
                                       (Some (gs_for ipf lnf cp maxl true lc ic' T (Some []))))
      | None => (Some false, py_obj ipf lnf cp maxl ngramZ s_ip s_len T (Some (cursor_py lc)) (Some (cursor_py ic)) g)
      end).
Proof.
  exact (fun ipf lnf cp maxl ngramZ s_ip s_len =>
           gen_increase_ip ipf lnf cp maxl ngramZ s_ip s_len C10_source_first_object_range).
Qed.

Theorem C10_source_increase_len_is_model : forall ipf lnf cp maxl ngramZ s_ip s_len,
  find_first_object maxl omen_first_object_extra ipf = Some s_ip ->
  forall fuel T lc ic g, cvalid maxl lnf lc -> fuel > maxl ->
  py_mc_increase_len_for_target fuel (py_obj ipf lnf cp maxl ngramZ s_ip s_len T (Some (cursor_py lc)) ic g) =
  Ok (match increase maxl lnf lc T with
      | Some lc' => (Some true, py_obj ipf lnf cp maxl ngramZ s_ip s_len T (Some (cursor_py lc')) (Some (cursor_py (s_ip, 0)))
                                       (Some (gs_for ipf lnf cp maxl true lc' (s_ip, 0) T (Some []))))
      | None => (Some false, py_obj ipf lnf cp maxl ngramZ s_ip s_len T (Some (cursor_py lc)) ic g)
      end).
Proof.
  exact (fun ipf lnf cp maxl ngramZ s_ip s_len H =>
           gen_increase_len ipf lnf cp maxl ngramZ s_ip s_len H C10_source_first_object_range).
Qed.

Theorem C10_source_mc_next_guess_is_model : forall ipf lnf cp maxl optmax ngramZ,
  cp_nonempty cp -> (forall l k, In k (lnf l) -> 1 <= k) ->
  forall s_ip s_len,
  find_first_object maxl omen_first_object_extra ipf = Some s_ip ->
  find_first_object maxl omen_first_object_extra lnf = Some s_len ->
  forall fuelM fuel st m o c,
  mc_rel ipf lnf cp maxl ngramZ s_ip s_len st m -> st_ok ipf lnf cp maxl st -> inv cp maxl optmax o c ->
  fuel >= mc_py_fuel lnf cp maxl fuelM ->
  fst (fst (mc_next ipf (cpf_of cp) lnf maxl optmax fuelM (s_ip, s_len) c st)) <> Omen.OutOfFuel ->
  exists o2 m2,
    py_mc_next_guess fuel m o =
      Ok (out_py (fst (fst (mc_next ipf (cpf_of cp) lnf maxl optmax fuelM (s_ip, s_len) c st))), m2, o2) /\
    inv cp maxl optmax o2 (snd (mc_next ipf (cpf_of cp) lnf maxl optmax fuelM (s_ip, s_len) c st)) /\
    mc_rel ipf lnf cp maxl ngramZ s_ip s_len (snd (fst (mc_next ipf (cpf_of cp) lnf maxl optmax fuelM (s_ip, s_len) c st))) m2 /\
    st_ok ipf lnf cp maxl (snd (fst (mc_next ipf (cpf_of cp) lnf maxl optmax fuelM (s_ip, s_len) c st))).
Proof.
  exact (fun ipf lnf cp maxl optmax ngramZ Hne Hpos s_ip s_len Ha Hb =>
           gen_mc_next ipf lnf cp maxl optmax ngramZ Hne Hpos s_ip s_len Ha Hb C10_source_first_object_range).
Qed.

(* the table the loader builds has no empty level: the hypothesis of the equalities holds for every G *)
Theorem C10_source_loader_table_nonempty : forall G, cp_nonempty (build_cp (og_cp G)).
Proof. exact (fun G => build_cp_nonempty (og_cp G)). Qed.

(* ---- the main theorems over the translated code: an Optimizer and a MarkovCracker
   built by the translated constructors, next_guess called until None (py_mc_run) ---- *)
Theorem C10_source_new_optimizer_is_sound : forall G fuel,
  exists o, py_opt_init fuel (Z.of_nat omen_optimizer_max_length) = Ok o /\ oinv G omen_optimizer_max_length o cempty.
Proof. exact (fun G => opt_init_translated G omen_optimizer_max_length). Qed.

Theorem C10_source_exact : forall G T c o starts fuel,
  oinv G omen_optimizer_max_length o c ->
  mc_starts (ip_at G) (ln_at G) (og_max_level G) omen_first_object_extra = Some starts ->
  fuel >= omen_fuel G ->
  exists m0, py_mc_init fuel (gram_of G) T = Ok m0 /\
  exists m2 o2 c2,
    py_mc_run (S (length (level_strings G T))) fuel m0 o = Ok (level_strings G T, true, m2, o2) /\
    oinv G omen_optimizer_max_length o2 c2.
Proof. exact (fun G => exact_translated G omen_optimizer_max_length C10_source_first_object_range). Qed.

Theorem C10_source_prefix_never_out_of_fuel : forall G T c o n starts fuel,
  oinv G omen_optimizer_max_length o c ->
  mc_starts (ip_at G) (ln_at G) (og_max_level G) omen_first_object_extra = Some starts ->
  fuel >= omen_fuel G ->
  exists m0, py_mc_init fuel (gram_of G) T = Ok m0 /\
  exists m2 o2 c2,
    py_mc_run n fuel m0 o = Ok (firstn n (level_strings G T), negb (Nat.leb n (length (level_strings G T))), m2, o2) /\
    oinv G omen_optimizer_max_length o2 c2.
Proof. exact (fun G => prefix_translated G omen_optimizer_max_length C10_source_first_object_range). Qed.

Theorem C10_source_cache_independent : forall G T c1 o1 c2 o2 n starts fuel m0,
  oinv G omen_optimizer_max_length o1 c1 -> oinv G omen_optimizer_max_length o2 c2 ->
  mc_starts (ip_at G) (ln_at G) (og_max_level G) omen_first_object_extra = Some starts ->
  fuel >= omen_fuel G ->
  py_mc_init fuel (gram_of G) T = Ok m0 ->
  exists r1 r2, py_mc_run n fuel m0 o1 = Ok r1 /\ py_mc_run n fuel m0 o2 = Ok r2 /\
                fst (fst (fst r1)) = fst (fst (fst r2)) /\ snd (fst (fst r1)) = snd (fst (fst r2)).
Proof. exact (fun G => cache_independent_translated G omen_optimizer_max_length C10_source_first_object_range). Qed.

Print Assumptions C10_source_exact.
Print Assumptions C10_source_cache_independent.
Print Assumptions C10_source_gs_next_guess_is_model.
Print Assumptions C10_source_fill_out_parse_tree_is_model.
Print Assumptions C10_source_mc_next_guess_is_model.

(* ---------------------------------------------------------------- translator tie of the two readers of the OMEN files (T19)

   gen/Loader2_gen.v: lib_guesser/omen/input_file_io.py load_rules (what the generator walks) and
   lib_scorer/omen_scorer.py OmenScorer.__init__ / _load_omen (what the scorer looks levels up in), translated
   from the current source on every run (harness/translate_loader2.py, runtime theories/Loader2Rt.v; equalities
   with the models in theories/Loader2GenProofs.v, see Props/C07.v).  "Generator and scorer read the same
   tables from the same files": for EVERY world (whatever configparser, int() and the open calls return), when
   load_rules returns True and the constructor returns - on a directory whose IP / CP / LN.level the two open
   calls read as the same lines up to the line ends - the dict the guesser walks and the object of the scorer
   are built from the same items and agree on every n-gram and level. *)
From Pcfg Require Import TextFile LoaderRt Loader2Rt Loader2Model Loader2GenProofs Loader2OmenFacts.
From PcfgGen Require Import Loader2_gen.

Theorem C10_source_omen_readers_agree :
  forall (fo : fops) (C SS : Type) (W : world fo C SS) (iws : N -> bool) (dz : list N),
  (forall s, w_pint W s = parse_int iws dz s) ->
  forall (dir base enc : pstr) (vmax g obj r : pyval (F fo) C SS),
  py_omen_load_rules fo W (VStr dir) (VDict []) = XDone (g, VBool true) ->
  py_omen_scorer_init fo W (VObj []) (VStr base) (VStr enc) vmax = XDone (obj, r) ->
  (forall genc lg ls, w_codecs_open W (w_path_join W [dir; n_ip_level]) (Some genc) (Some k_strict) = XDone lg ->
                      w_open W (w_path_join W [base; n_omen; n_ip_level]) (Some enc) None = XDone ls -> same_lines lg ls) ->
  (forall genc lg ls, w_codecs_open W (w_path_join W [dir; n_cp_level]) (Some genc) (Some k_strict) = XDone lg ->
                      w_open W (w_path_join W [base; n_omen; n_cp_level]) (Some enc) None = XDone ls -> same_lines lg ls) ->
  (forall lg ls, w_open W (w_path_join W [dir; n_ln_level]) None None = XDone lg ->
                 w_open W (w_path_join W [base; n_omen; n_ln_level]) None None = XDone ls -> same_lines lg ls) ->
  exists gt st ip cp,
    g = enc_omen_tables gt /\ obj = enc_scorer (VStr enc) vmax st /\
    ot_ip gt = ip_buckets ip /\ st_ip st = ep_dict ip /\ cp_dict cp = Some (ot_cp gt) /\ st_cp st = ep_dict cp /\
    ot_ln gt = ln_guesser (ot_ngram gt) (st_ln st) /\
    (* an initial n-gram is in grammar['ip'][l] iff scorer.ip says l *)
    (NoDup (map snd ip) -> forall s l, (l < 11)%nat ->
       (In s (nth l (ot_ip gt) []) <-> dict_get s (st_ip st) = Some (Z.of_nat l))) /\
    (* a character c is in grammar['cp'][p][l] iff scorer.cp[p + c] says l *)
    (NoDup (map snd cp) -> forall p l c,
       (In c (cp_chars (ot_cp gt) p l) <-> dict_get (p ++ [c]) (st_cp st) = Some l)) /\
    (* len - (ngram - 1) is in grammar['ln'][l] iff line len of LN.level (scorer.ln[len]) says l *)
    (forall i l, (i < length (st_ln st))%nat -> (l < 11)%nat -> (ot_ngram gt <= Z.of_nat (S i))%Z ->
       (In (Z.of_nat (S i) - (ot_ngram gt - 1))%Z (nth l (ot_ln gt) []) <-> nth_error (st_ln st) i = Some (Z.of_nat l))).
Proof. exact (@source_omen_readers_agree). Qed.

(* the hypotheses are satisfiable and both translated readers run: a directory with two IP lines, two CP lines and
   three lengths (ngram 3) *)
Theorem C10_source_omen_readers_example :
  (exists gt, py_omen_load_rules ex_fo ex_world (VStr [79; 109; 101; 110]%N) (VDict []) = XDone (enc_omen_tables gt, VBool true) /\
              ot_ngram gt = 3%Z /\ nth 1 (ot_ip gt) [] = [[97; 98]%N] /\ nth 0 (ot_ip gt) [] = [[98; 97]%N] /\
              cp_chars (ot_cp gt) [97; 98]%N 2%Z = [99%N] /\ nth 1 (ot_ln gt) [] = [1%Z]) /\
  (exists st, py_omen_scorer_init ex_fo ex_world (VObj []) (VStr []) (VStr [117; 116; 102; 45; 56]%N) (VInt 9) =
              XDone (enc_scorer (VStr [117; 116; 102; 45; 56]%N) (VInt 9) st, VNone) /\
              dict_get [97; 98]%N (st_ip st) = Some 1%Z /\ dict_get [97; 98; 99]%N (st_cp st) = Some 2%Z /\
              st_ngram st = 3%Z /\ st_ln st = [0; 3; 1]%Z) /\
  (forall s, w_pint ex_world s = parse_int ex_iws ex_dz s).
Proof. exact source_omen_readers_example. Qed.

Print Assumptions C10_source_omen_readers_agree.
Print Assumptions C10_source_omen_readers_example.
