(* C10: the OMEN generator enumerates each level exactly, independently of the
   shared lookup cache.  Model: theories/Omen.v (run by the correspondence on
   the indexed table cp_fast G); specification: theories/OmenSpec.v. *)
From Coq Require Import List Bool NArith ZArith.
From Pcfg Require Import OmenSpec Omen OmenCorr OmenProofs OmenProofs2 OmenProofs3 OmenProofs4 OmenProofs5
     OmenLevelProofs.
From PcfgGen Require Import Consts_gen.
Import ListNotations.

(* ---- side condition on the regenerated constants: _find_first_object scans
   range(0, max_level) or range(0, max_level + 1), nothing else ---- *)
Theorem C10_source_first_object_range : omen_first_object_extra <= 1.
Proof. unfold omen_first_object_extra. repeat constructor. Qed.

(* ---- the tables the model runs on are the tables of the files ---- *)
Theorem C10_cp_fast_ok : forall G p l, cp_fast G p l = cp_at G p l.
Proof. exact cp_fast_ok. Qed.

Theorem C10_wf_tablesb_sound : forall G, wf_tablesb G = true -> wf_tables G.
Proof. exact wf_tablesb_sound. Qed.

(* ---- _fill_out_parse_tree with the memo table ---- *)
Theorem C10_cache_ok_empty : forall cpf maxl, cache_ok cpf maxl cempty.
Proof. exact cache_ok_empty. Qed.

Theorem C10_fill_is_first : forall cpf maxl optmax k c p lvl,
  1 <= k -> cache_ok cpf maxl c ->
  fst (fill cpf maxl optmax k c p lvl) = hd_error (completions_f cpf maxl k p lvl) /\
  cache_ok cpf maxl (snd (fill cpf maxl optmax k c p lvl)).
Proof. exact fill_is_first. Qed.

Theorem C10_fill_cache_independent : forall cpf maxl optmax k c1 c2 p lvl,
  1 <= k -> cache_ok cpf maxl c1 -> cache_ok cpf maxl c2 ->
  fst (fill cpf maxl optmax k c1 p lvl) = fst (fill cpf maxl optmax k c2 p lvl).
Proof. exact fill_cache_independent. Qed.

(* ---- GuessStructure.next_guess is the successor function of the canonical list ---- *)
Theorem C10_gs_first_is_head : forall cpf maxl optmax c ip k target,
  1 <= k -> cache_ok cpf maxl c ->
  fst (gs_next cpf maxl optmax c ip k target []) = hd_error (completions_f cpf maxl k ip target).
Proof. exact gs_first_is_head. Qed.

Theorem C10_gs_next_is_successor : forall cpf maxl optmax c ip k target xs t t' ys,
  1 <= k -> cache_ok cpf maxl c ->
  completions_f cpf maxl k ip target = xs ++ t :: t' :: ys ->
  fst (gs_next cpf maxl optmax c ip k target t) = Some t'.
Proof. exact gs_next_is_successor. Qed.

Theorem C10_gs_next_last_is_none : forall cpf maxl optmax c ip k target xs t,
  1 <= k -> cache_ok cpf maxl c ->
  completions_f cpf maxl k ip target = xs ++ [t] ->
  fst (gs_next cpf maxl optmax c ip k target t) = None.
Proof. exact gs_next_last_is_none. Qed.

Theorem C10_NoDup_completions : forall cpf maxl k p lvl, NoDup (completions_f cpf maxl k p lvl).
Proof. exact NoDup_compl. Qed.

(* ---- the whole level: what the correspondence evaluates (m_enumerate) returns
   exactly level_strings G T and then reports exhaustion; fuel never runs out;
   the final cache is again sound ---- *)
Theorem C10_exact : forall G T c starts,
  cache_ok (cp_fast G) (og_max_level G) c ->
  mc_starts (ip_at G) (ln_at G) (og_max_level G) omen_first_object_extra = Some starts ->
  exists st' c',
    m_enumerate G (cp_fast G) (S (length (level_strings G T))) c T = Some (level_strings G T, Done, st', c') /\
    cache_ok (cp_fast G) (og_max_level G) c'.
Proof.
  exact (fun G => enumerate_exact G omen_optimizer_max_length omen_first_object_extra C10_source_first_object_range).
Qed.

Theorem C10_prefix_never_out_of_fuel : forall G T c n starts,
  cache_ok (cp_fast G) (og_max_level G) c ->
  mc_starts (ip_at G) (ln_at G) (og_max_level G) omen_first_object_extra = Some starts ->
  exists st' c',
    m_enumerate G (cp_fast G) n c T =
      Some (firstn n (level_strings G T), run_status n (level_strings G T), st', c') /\
    cache_ok (cp_fast G) (og_max_level G) c'.
Proof.
  exact (fun G => enumerate_prefix G omen_optimizer_max_length omen_first_object_extra C10_source_first_object_range).
Qed.

Theorem C10_run_status_is_not_out_of_fuel : forall n R, run_status n R <> OutOfFuel.
Proof. exact run_status_not_oof. Qed.

(* the constructor succeeds when some IP and some length sit below max_level *)
Theorem C10_first_below_max_constructs : forall G,
  first_below_max G ->
  exists starts, mc_starts (ip_at G) (ln_at G) (og_max_level G) omen_first_object_extra = Some starts.
Proof. exact (fun G => first_below_max_starts G omen_first_object_extra). Qed.

(* second sentence of the property *)
Theorem C10_cache_independent : forall G T c1 c2 n starts,
  cache_ok (cp_fast G) (og_max_level G) c1 -> cache_ok (cp_fast G) (og_max_level G) c2 ->
  mc_starts (ip_at G) (ln_at G) (og_max_level G) omen_first_object_extra = Some starts ->
  option_map (fun r => fst (fst r)) (m_enumerate G (cp_fast G) n c1 T) =
  option_map (fun r => fst (fst r)) (m_enumerate G (cp_fast G) n c2 T).
Proof.
  exact (fun G => enumerate_cache_independent G omen_optimizer_max_length omen_first_object_extra C10_source_first_object_range).
Qed.

(* ---- the list is the level set, each string once (proved by the C11/C18
   owner over the same OmenSpec definitions) ---- *)
Theorem C10_set : forall G, wf_tables G ->
  forall s L, In s (level_strings G (Z.of_nat L)) <-> level_of G s = Some L.
Proof. exact ol_level_strings_iff. Qed.

Theorem C10_set_nonnegative : forall G, wf_tables G -> forall T s, In s (level_strings G T) -> (0 <= T)%Z.
Proof. exact ol_level_strings_neg. Qed.

Theorem C10_NoDup : forall G, wf_tables G -> forall T, NoDup (level_strings G T).
Proof. exact ol_NoDup_level_strings. Qed.

(* ---- R17: without first_below_max the as-coded scan refutes the property ---- *)
Theorem C10_refuted_first_object : omen_first_object_extra = 0 -> omen_max_level = 10 ->
  m_enumerate (G17 omen_max_level) (cp_fast (G17 omen_max_level)) 1 cempty 10%Z = None /\
  level_strings (G17 omen_max_level) 10%Z = [[97%N; 97%N]] /\
  wf_tablesb (G17 omen_max_level) = true.
Proof. exact (first_object_refuted omen_first_object_extra omen_max_level omen_optimizer_max_length). Qed.

(* ---- the hypotheses are satisfiable on a non-trivial instance ---- *)
Theorem C10_example_hypotheses : wf_tables (Gex 10) /\ first_below_max (Gex 10).
Proof. exact (conj Gex_wf Gex_first_below_max). Qed.

Print Assumptions C10_exact.
Print Assumptions C10_gs_next_is_successor.
Print Assumptions C10_fill_is_first.
Print Assumptions C10_cache_independent.
Print Assumptions C10_set.
Print Assumptions C10_NoDup.
Print Assumptions C10_refuted_first_object.
