(* C10: the OMEN generator enumerates each level exactly (work in progress). *)
From Coq Require Import List Bool NArith ZArith.
From Pcfg Require Import OmenSpec Omen OmenCorr.
From PcfgGen Require Import Consts_gen.
Import ListNotations.

Definition G0 : omen := mk_omen 2 omen_max_level [(0, [97]%N); (1, [98]%N)]
  [(0, [97; 97]%N); (1, [97; 98]%N); (0, [98; 97]%N); (2, [98; 98]%N)] [1; 0; 0; 1].

Theorem C10_example_runs :
  match m_enumerate G0 (cp_fast G0) 20 cempty 1%Z with
  | Some (l, Done, _, _) => strs_eqb l (level_strings G0 1%Z) && negb (is_nil l)
  | _ => false
  end = true.
Proof. vm_compute. reflexivity. Qed.
