(* C18 - the saved OMEN keyspace is what a level really produces.
   Property theorems only.  Models: theories/OmenKeyspace.v (_rec_calc_keyspace
   with its cache threaded through, calc_omen_keyspace with the level / IP /
   length loops and the max_keyspace cut-off, pcfg_omen_prob), against
   theories/OmenSpec.v (what the Markov generator must emit per level).
   Proofs: theories/OmenKeyspaceProofs.v; the translator tie at the end: theories/OmenRt.v,
   gen/OmenKeyspace_gen.v, theories/OmenKeyspaceGenProofs.v. *)
From Coq Require Import List Arith NArith ZArith Floats.
From Pcfg Require Import OmenSpec OmenLevel OmenKeyspace OmenLevelProofs OmenKeyspaceProofs.
From PcfgGen Require Import Consts_gen.
Import ListNotations.

(* _rec_calc_keyspace(level, length = k, ip) is the number of completions of ip
   with k transitions at exactly that level, for EVERY cache state reachable
   from the empty cache (cache invariant) *)
Theorem C18_rec_keyspace_counts :
  forall T, wf_ttab T -> levels_le guesser_max_level T ->
  forall c, reachable T c -> forall k lvl ip, 1 <= k ->
  fst (rec_ks T k c lvl ip) = N.of_nat (length (completions (gview T) k ip (Z.of_nat lvl))).
Proof. exact ol_rec_keyspace_counts. Qed.

Theorem C18_cache_invariant :
  forall T c, reachable T c -> cache_ok T c.
Proof. exact reachable_ok. Qed.

(* with `level_minus_ip >= 0` and `length < ngram: continue`: every listed level
   whose value did not trigger the cut-off holds the number of strings the
   generator must emit at that level, which are pairwise distinct *)
Theorem C18_keyspace :
  forall T, wf_ttab T -> levels_le guesser_max_level T ->
  forall c, reachable T c -> forall max_level maxks L v,
  In (L, v) (ks_done (calc_keyspace T max_level maxks false false c)) -> (v <= maxks)%N ->
  v = N.of_nat (length (level_strings (gview T) (Z.of_nat L))) /\ NoDup (level_strings (gview T) (Z.of_nat L)).
Proof. exact ol_keyspace. Qed.

(* the probability saved for a listed level = (training passwords the
   generator emits at the level / N) / the number of strings of the level *)
Theorem C18_prob :
  forall T, wf_ttab T -> levels_le guesser_max_level T ->
  forall c, reachable T c -> forall max_level maxks pws nvalid L p,
  let st := calc_keyspace T max_level maxks false false c in
  In (L, p) (omen_prob (fun l => count_at (levels_count T pws) (Some l)) nvalid (ks_done st)) ->
  (forall v, In (L, v) (ks_done st) -> (v <= maxks)%N) ->
  let members := level_strings (gview T) (Z.of_nat L) in
  p = PrimFloat.div
        (PrimFloat.div (float_of_N (N.of_nat (length (filter (fun pw => existsb (ostr_eqb pw) members) pws))))
                       (float_of_N (N.of_nat nvalid)))
        (float_of_N (N.of_nat (length members))).
Proof. exact ol_prob. Qed.

(* the comparisons of the code as found contradict the property: witnesses *)
Theorem C18_refuted_len_eq_ngram :
  keyspace_of (calc_keyspace T_r9 18 10000000000 false true []) 1 = Some 0%N /\
  level_strings (gview T_r9) 1 = [[97%N; 98%N]].
Proof. exact ol_refuted_len_eq_ngram. Qed.

Theorem C18_refuted_len_level0 :
  keyspace_of (calc_keyspace T_r9 18 10000000000 true false []) 10 = Some 1%N /\
  level_strings (gview T_r9) 10 = [[98%N; 97%N; 98%N; 97%N]; [97%N; 98%N; 97%N]].
Proof. exact ol_refuted_zero_remainder. Qed.

(* hypotheses satisfiable, non-trivially; the cut-off level holds a partial count *)
Theorem C18_hypotheses_satisfiable :
  wf_ttab T_r9 /\ levels_le guesser_max_level T_r9 /\ closedb T_r9 = true /\ reachable T_r9 [] /\
  keyspace_of (calc_keyspace T_r9 18 10000000000 false false []) 10 = Some 2%N /\
  ks_done (calc_keyspace T_r9 18 0 false false []) = [(1, 1%N)] /\
  ks_stopped (calc_keyspace T_r9 18 0 false false []) = true.
Proof. exact ol_c18_satisfiable. Qed.

Print Assumptions C18_rec_keyspace_counts.
Print Assumptions C18_keyspace.
Print Assumptions C18_prob.
Print Assumptions C18_refuted_len_eq_ngram.

(* Side conditions on the constants re-extracted from the source on every run
   (harness/consts/omen_level.py).  They come LAST so that everything above is
   checked even when they fail.  The theorems C18_keyspace / C18_prob are about
   `level_minus_ip >= 0` and `length < ngram`; the source must use them (the
   tree as found has `> 0` and `<=`, refuted above). *)
Theorem C18_source_default_bounds :
  keyspace_default_max_level = 18 /\ keyspace_default_max_keyspace = [10000000000%N].
Proof. split; reflexivity. Qed.

Theorem C18_source_len_skip_is_lt : keyspace_len_skip_le = false.
Proof. reflexivity. Qed.

Theorem C18_source_ip_guard_is_ge : keyspace_ip_guard_strict = false.
Proof. reflexivity. Qed.

(* ---- second tie to the source: gen/OmenKeyspace_gen.v is the translation of the Python
   text of _rec_calc_keyspace and calc_omen_keyspace (lib_trainer/omen/evaluate_password.py)
   (harness/translate_omen_level.py, redone on every run).  The Python functions keep
   their memo cache in nested dicts inside the trainer's grammar (kc : kcache, threaded
   explicitly), the model in one association list; [krel kc c] says both hold the same
   count for every (ip, length, level).  From related caches the translated functions
   return the model's values and leave related caches: for every closed table
   ([closedb]: elsewhere Python raises KeyError where the model counts nothing), every
   fuel above the length argument / table, and for the model's parameters
   ip_strict = false, len_le = false - the equalities no longer hold when the source
   compares with `> 0` or `<=` again.  These come LAST: the Require fails when the
   translation or its equality proofs no longer check. *)
From Pcfg Require Import OmenRt OmenKeyspaceGenProofs.
From PcfgGen Require Import OmenKeyspace_gen.

Theorem C18_source_rec_calc_keyspace_is_model :
  forall T, closedb T = true -> forall k, 1 <= k ->
  forall fuel kc c lvl ip e, k <= fuel -> find_entry ip (tt_grammar T) = Some e -> krel kc c ->
  exists kc',
    py_rec_calc_keyspace fuel T kc (Z.of_nat lvl) (Z.of_nat k) ip = Ok (Z.of_N (fst (rec_ks T k c lvl ip)), kc') /\
    krel kc' (snd (rec_ks T k c lvl ip)).
Proof. exact gen_rec_calc_keyspace_eq. Qed.

Theorem C18_source_calc_omen_keyspace_is_model :
  forall T max_level maxks fuel kc c,
  closedb T = true -> length (tt_ln T) < fuel -> krel kc c ->
  exists kc',
    py_calc_omen_keyspace fuel T kc (Z.of_nat max_level) (Z.of_N maxks) =
      Ok (counter_of (ks_done (calc_keyspace T max_level maxks false false c)), kc') /\
    krel kc' (ks_cache (calc_keyspace T max_level maxks false false c)).
Proof. exact gen_calc_omen_keyspace_eq. Qed.

(* a trainer object whose grammar has no 'keyspace_cache' yet is related to the empty cache *)
Theorem C18_source_fresh_cache_related : krel [] [] /\ forall T, kreachable T [].
Proof. exact (conj krel_nil kreachable_nil). Qed.

(* C18_rec_keyspace_counts over the translated _rec_calc_keyspace *)
Theorem C18_rec_keyspace_counts_translated :
  forall T, wf_ttab T -> levels_le guesser_max_level T -> closedb T = true ->
  forall kc, kreachable T kc -> forall fuel k lvl ip e, 1 <= k -> k <= fuel -> find_entry ip (tt_grammar T) = Some e ->
  exists kc',
    py_rec_calc_keyspace fuel T kc (Z.of_nat lvl) (Z.of_nat k) ip =
      Ok (Z.of_nat (length (completions (gview T) k ip (Z.of_nat lvl))), kc') /\
    kreachable T kc'.
Proof. exact gen_rec_keyspace_counts. Qed.

(* C18_keyspace over the translated calc_omen_keyspace: it returns a Counter in which every
   listed level whose value did not trigger the cut-off holds the number of strings the
   generator must emit at that level, which are pairwise distinct; listed levels lie in
   1..max_level; the cache it leaves is reachable again (the statement applies to the
   next call on the same trainer object) *)
Theorem C18_keyspace_translated :
  forall T, wf_ttab T -> levels_le guesser_max_level T -> closedb T = true ->
  forall kc, kreachable T kc -> forall fuel max_level maxks, length (tt_ln T) < fuel ->
  exists cnt kc',
    py_calc_omen_keyspace fuel T kc (Z.of_nat max_level) (Z.of_N maxks) = Ok (cnt, kc') /\
    kreachable T kc' /\
    forall l v, In (l, v) cnt -> (v <= Z.of_N maxks)%Z ->
      (1 <= l <= Z.of_nat max_level)%Z /\
      v = Z.of_nat (length (level_strings (gview T) l)) /\ NoDup (level_strings (gview T) l).
Proof. exact gen_keyspace_translated. Qed.

(* as run_trainer calls it: fresh trainer object, default bounds *)
Theorem C18_keyspace_translated_fresh :
  forall T, wf_ttab T -> levels_le guesser_max_level T -> closedb T = true ->
  forall fuel, length (tt_ln T) < fuel ->
  exists cnt kc',
    py_calc_omen_keyspace fuel T [] 18 10000000000 = Ok (cnt, kc') /\
    forall l v, In (l, v) cnt -> (v <= 10000000000)%Z ->
      v = Z.of_nat (length (level_strings (gview T) l)) /\ NoDup (level_strings (gview T) l).
Proof. exact gen_keyspace_translated_fresh. Qed.

Theorem C18_translated_hypotheses_satisfiable :
  wf_ttab T_r9 /\ levels_le guesser_max_level T_r9 /\ closedb T_r9 = true /\
  (exists kc', py_calc_omen_keyspace 5 T_r9 [] 18 10000000000 =
     Ok ([(1, 1); (2, 0); (3, 0); (4, 0); (5, 0); (6, 0); (7, 0); (8, 0); (9, 0); (10, 2); (11, 1);
          (12, 0); (13, 0); (14, 0); (15, 0); (16, 0); (17, 0); (18, 0)]%Z, kc')) /\
  (exists kc', py_calc_omen_keyspace 5 T_r9 [] 18 0 = Ok ([(1, 1)]%Z, kc')) /\
  fst (match py_rec_calc_keyspace 5 T_r9 [] 0 2 [98%N] with Ok r => r | Raise _ => (-1, [])%Z end) = 1%Z.
Proof. exact gen_keyspace_example. Qed.

Print Assumptions C18_source_rec_calc_keyspace_is_model.
Print Assumptions C18_source_calc_omen_keyspace_is_model.
Print Assumptions C18_keyspace_translated.

(* ---- the writer's side of C18: gen/OmenTrainerOut_gen.v is the translation of
   save_omen_rules_to_disk (lib_trainer/omen/omen_file_output.py; harness/translate_omen_trainer.py,
   redone on every run).  It equals the model OmenTrainer.save_rules; its probability loop is the
   model's omen_prob, so C18_prob holds for what the translated writer puts into pcfg_omen_prob.txt.
   These come LAST: the Require fails when the translation or its equality proofs no longer check. *)
From Pcfg Require Import OmenTrainer OmenTrainerRt OmenTrainerGenProofsOut OmenTrainerGenInstOut.
From PcfgGen Require Import OmenTrainerOut_gen.

Theorem C18_source_save_omen_rules_is_model :
  forall repr sc A T ks lc nvalid base pi fs, ttab_of A = Some T ->
  py_save_omen_rules_to_disk repr sc A ks lc nvalid base pi fs = save_rules repr sc T ks lc nvalid base pi fs.
Proof. exact gen_save_omen_rules_eq. Qed.

(* the Counter of probabilities of the model of the writer is omen_prob of the model of C18_prob
   (levels pairwise different: a Counter; N <> 0; lc is omen_levels_count) *)
Theorem C18_source_prob_loop_is_model :
  forall (cnt : nat -> nat) (lc : list (Z * Z)) nvalid ksl,
  nvalid <> 0 -> NoDup (map fst ksl) -> (forall l, zcount lc (Z.of_nat l) = Z.of_nat (cnt l)) ->
  prob_counter (zcounter_of ksl) lc (Z.of_nat nvalid) = TOk (zprob_of (omen_prob cnt nvalid ksl)).
Proof. exact prob_counter_is_omen_prob. Qed.

Theorem C18_prob_translated :
  forall repr sc A T, ttab_of A = Some T -> wf_ttab T -> levels_le guesser_max_level T ->
  forall c, reachable T c -> forall max_level maxks pws nvalid lc base pi fs fs',
  let st := calc_keyspace T max_level maxks false false c in
  nvalid <> 0 -> config_frame sc ->
  (forall l, zcount lc (Z.of_nat l) = Z.of_nat (count_at (levels_count T pws) (Some l))) ->
  py_save_omen_rules_to_disk repr sc A (zcounter_of (ks_done st)) lc (Z.of_nat nvalid) base pi fs = TOk (true, fs') ->
  exists prob,
    fs_get fs' (path_join (path_join base n_Omen) n_prob) = Some (zf_text repr (most_common_by PrimFloat.ltb (zprob_of prob))) /\
    forall L p, In (L, p) prob -> (forall v, In (L, v) (ks_done st) -> (v <= maxks)%N) ->
      let members := level_strings (gview T) (Z.of_nat L) in
      p = PrimFloat.div
            (PrimFloat.div (float_of_N (N.of_nat (length (filter (fun pw => existsb (ostr_eqb pw) members) pws))))
                           (float_of_N (N.of_nat nvalid)))
            (float_of_N (N.of_nat (length members))).
Proof. exact gen_prob_translated. Qed.

(* ... with the Counters as run_trainer.py passes them: omen_keyspace = what calc_omen_keyspace returned,
   omen_levels_count = the tally of find_omen_level over the training passwords (key -1: not generable) *)
Theorem C18_prob_translated_run :
  forall repr sc A T, ttab_of A = Some T -> wf_ttab T -> levels_le guesser_max_level T ->
  forall c, reachable T c -> forall max_level maxks pws nvalid base pi fs fs',
  let st := calc_keyspace T max_level maxks false false c in
  nvalid <> 0 -> config_frame sc ->
  py_save_omen_rules_to_disk repr sc A (zcounter_of (ks_done st)) (zlevels_count (levels_count T pws)) (Z.of_nat nvalid) base pi fs
    = TOk (true, fs') ->
  exists prob,
    fs_get fs' (path_join (path_join base n_Omen) n_prob) = Some (zf_text repr (most_common_by PrimFloat.ltb (zprob_of prob))) /\
    forall L p, In (L, p) prob -> (forall v, In (L, v) (ks_done st) -> (v <= maxks)%N) ->
      let members := level_strings (gview T) (Z.of_nat L) in
      p = PrimFloat.div
            (PrimFloat.div (float_of_N (N.of_nat (length (filter (fun pw => existsb (ostr_eqb pw) members) pws))))
                           (float_of_N (N.of_nat nvalid)))
            (float_of_N (N.of_nat (length members))).
Proof. exact gen_prob_translated_run. Qed.

Theorem C18_translated_writer_hypotheses_satisfiable :
  ttab_of A_r9 = Some T_r9 /\ wf_ttab T_r9 /\ levels_le guesser_max_level T_r9 /\ reachable T_r9 [] /\
  config_frame (fun d f _ fs => Some (fs_put fs (path_join d f) [])) /\
  let pws := [[97; 98]; [97; 98; 97]; [98; 97; 98; 97]; [99; 99]]%N in
  let st := calc_keyspace T_r9 18 10000000000 false false [] in
  exists fs',
    py_save_omen_rules_to_disk (fun _ => [63]%N) (fun d f _ fs => Some (fs_put fs (path_join d f) []))
      A_r9 (zcounter_of (ks_done st)) (zlevels_count (levels_count T_r9 pws)) 4 [100]%N (mk_pinfo [] 2 [97; 98]%N) [] = TOk (true, fs') /\
    zlevels_count (levels_count T_r9 pws) = [(1, 1); (10, 2); (-1, 1)]%Z /\
    fs_get fs' (path_join (path_join [100]%N n_Omen) n_keyspace) <> None /\
    exists prob, prob_counter (zcounter_of (ks_done st)) (zlevels_count (levels_count T_r9 pws)) 4 = TOk prob /\ length prob = 3.
Proof. exact gen_prob_example. Qed.

Print Assumptions C18_source_save_omen_rules_is_model.
Print Assumptions C18_source_prob_loop_is_model.
Print Assumptions C18_prob_translated.
Print Assumptions C18_prob_translated_run.
