(* C09 - --limit is exact (the stdout-only part of the property is decided by
   the static print-site scan and the byte-exact CLI comparison, see DESIGN). *)
From Coq Require Import List Arith NArith.
From Coq Require Import ZArith.
From Pcfg Require Import Expand ExpandProofs Session SessionProofs.
From Pcfg Require Import KernelRt ExpandRt ExpandGenProofs.
From PcfgGen Require Import Expand_gen.
From Pcfg Require Import SessionRt SessionModel SessionModelProofs SessionGenProofs.
From PcfgGen Require Import Session_gen.
Import ListNotations.

(* the session loop: each pre-terminal writes the first l of its guesses, the
   loop subtracts and stops at <= 0  ==>  exactly the first N lines, min(N,total) *)
Theorem C09_limit_exact : forall pts n, n >= 1 ->
  limited pts (Some n) = firstn n (concat pts) /\
  length (limited pts (Some n)) = Nat.min n (length (concat pts)).
Proof. exact C09_limit_exact. Qed.

Theorem C09_limit_none : forall pts, limited pts None = concat pts.
Proof. exact C09_limit_none. Qed.
Theorem C09_limit_zero_means_unlimited : forall pts, limited pts (Some 0) = concat pts.
Proof. exact C09_limit_zero. Qed.

(* inside one pre-terminal (what [limited] assumes of each group): C04_limit *)
Theorem C09_limit_inside_preterminal :
  forall (upper_c : N -> str) (omen : str -> list str) segs cur n,
  segs <> [] -> Forall seg_ok' segs -> n >= 1 ->
  expand upper_c omen (flat_map slots_of segs) cur (Some n) =
    Some (firstn n (map (app cur) (denote upper_c segs)), Nat.min n (length (denote upper_c segs))).
Proof. exact (fun u o segs cur n => C04_limit u o segs cur n). Qed.

(* inside a Markov level: omen_generate_guesses stops after N guesses *)
Theorem C09_limit_inside_markov_level :
  forall (omen : str -> list str) lv n, omen_emit omen lv (Some (S n)) = firstn (S n) (omen lv).
Proof. reflexivity. Qed.

Theorem C09_example : limited [[1;2]; []; []; [3;4;5]; [6]] (Some 4) = [1;2;3;4].
Proof. exact C09_limit_empty_groups. Qed.

(* ---- second tie to the source: gen/Expand_gen.v is the translation of the Python text
   of omen_generate_guesses, _recursive_guesses and create_guesses
   (harness/translate_expand.py, redone on every run); the limit bookkeeping
   (`if limit:`, `limit = limit - n`, `limit <= 0` / `limit == 0`) is translated as
   written and proved equal to the model's lim / exhausted / lim_sub *)
Theorem C09_source_recursive_guesses_is_model :
  forall (upper_c : N -> pstr) (gv : pstr -> Z -> option (list pstr)) (py_int : pstr -> Z) (mcr : Z -> list pstr)
         (pt : list pnode) (slots : list slot),
  resolve gv pt = Some slots ->
  forall (fuel : nat) (cur : str) (l : lim), length pt < fuel ->
  py_recursive_guesses upper_c gv py_int mcr false fuel cur pt (zlim l) =
  lift (expand upper_c (omen_of py_int mcr) slots cur l).
Proof. exact recursive_guesses_eq. Qed.

(* --limit N inside a pre-terminal, for the translated create_guesses: exactly the first
   N lines are printed and min(N, total) is returned *)
Theorem C09_source_limit_inside_preterminal :
  forall (upper_c : N -> pstr) (gv : pstr -> Z -> option (list pstr)) (py_int : pstr -> Z) (mcr : Z -> list pstr)
         (honey : pstr -> list pnode -> option Z -> res (list pstr * Z))
         (segs : list seg) (pt : list pnode) (fuel n : nat),
  segs <> [] -> Forall seg_ok' segs -> n >= 1 ->
  resolve gv pt = Some (flat_map slots_of segs) -> length pt < fuel ->
  py_create_guesses upper_c gv py_int mcr false honey fuel pt false (Some (Z.of_nat n)) =
  Ok (firstn n (denote upper_c segs), Z.of_nat (Nat.min n (length (denote upper_c segs)))).
Proof. exact source_create_guesses_limit. Qed.

(* inside a Markov level, for the translated omen_generate_guesses *)
Theorem C09_source_limit_inside_markov_level :
  forall (gs : list str) (n : nat), n >= 1 ->
  py_omen_generate_guesses false gs (Some (Z.of_nat n)) = Ok (firstn n gs, Z.of_nat (Nat.min n (length gs))).
Proof. exact source_omen_limit. Qed.

(* limit 0 is no limit (Python's `if limit:`), for the translated functions *)
Theorem C09_source_limit_zero_means_unlimited :
  forall (upper_c : N -> pstr) (gv : pstr -> Z -> option (list pstr)) (py_int : pstr -> Z) (mcr : Z -> list pstr)
         (honey : pstr -> list pnode -> option Z -> res (list pstr * Z))
         (pt : list pnode) (slots : list slot) (fuel : nat),
  resolve gv pt = Some slots -> length pt < fuel ->
  py_create_guesses upper_c gv py_int mcr false honey fuel pt false (Some 0%Z) =
  py_create_guesses upper_c gv py_int mcr false honey fuel pt false None.
Proof. exact source_create_guesses_limit_zero. Qed.

Theorem C09_source_example :
  resolve gv_ex pt_ex = Some (flat_map slots_of segs_ex) /\
  (segs_ex <> [] /\ Forall seg_ok' segs_ex /\ length pt_ex < 5) /\
  py_create_guesses up_ascii gv_ex int_ex mcr_ex false honey_ex 5 pt_ex false (Some 5%Z) =
    Ok (firstn 5 (denote up_ascii segs_ex), 5%Z) /\
  py_create_guesses up_ascii gv_ex int_ex mcr_ex false honey_ex 2 [([77%N], 0%Z)] false (Some 2%Z) =
    Ok ([[97]; [98]]%N, 2%Z).
Proof.
  exact (conj source_example_resolves (conj source_example_wellformed
        (conj source_example_limit source_example_markov))).
Qed.


(* ---- translator tie of the session loop itself: gen/Session_gen.v is the translation of the
   Python text of CrackingSession.run (harness/translate_session.py, redone on every run; it
   equals SessionModel.m_run in every world: C12_source_run_is_model).  In EVERY world in
   which nobody asks to quit ([quiet_world]: the queue hands out the pre-terminals [pending]
   one by one, the quit flag reads False, create_guesses meets the contract proved of it
   above - the first `limit` guesses of the expansion, all for None / 0, and their number -
   and saving / the keyboard thread do not touch the queue), a new session with --limit l
   (None, 0 = no limit, n >= 1) and fuel above the number of pre-terminals writes exactly
   what the model [limited] writes: `if limit:`, `limit = limit - num_generated_guesses` and
   `if limit <= 0: break` are the source's *)
Theorem C09_source_run_is_limited :
  forall (W Item Pt : Type) (new_queue restore_queue : W -> W) (queue_next : W -> option Item * W)
         (queue_update_save_config : W -> W) (item_pt : Item -> Pt)
         (create_guesses : Pt -> bool -> option Z -> W -> sres Z * list nat * W)
         (restore_omen : Z -> W -> sres Z * list nat * W) (read_should_exit : W -> bool * W)
         (get_omen_exit : W -> bool) (get_omen_guess_num : W -> Z) (cfg_has_omen_number : W -> bool)
         (cfg_omen_number : W -> Z) (cfg_remove_omen_number : W -> W) (cfg_set_omen_number : Z -> W -> W)
         (write_save_file : W -> sres unit * W) (start_keypress_thread : W -> W)
         (pending : W -> list Item) (expansion : Pt -> list nat),
  quiet_world queue_next queue_update_save_config create_guesses read_should_exit cfg_set_omen_number
              write_save_file start_keypress_thread pending expansion ->
  forall (l : option nat) (fuel : nat) (w : W), length (pending (new_queue w)) < fuel ->
  exists w',
    py_cracking_run new_queue restore_queue queue_next queue_update_save_config item_pt create_guesses restore_omen
                    read_should_exit get_omen_exit get_omen_guess_num cfg_has_omen_number cfg_omen_number
                    cfg_remove_omen_number cfg_set_omen_number write_save_file start_keypress_thread
                    fuel false (zlimit l) w =
    (SOk tt, limited (qgroups item_pt pending expansion (new_queue w)) l, w').
Proof. exact (@source_run_is_limited). Qed.

(* C09_limit_exact transported to the source: exactly the first N lines, min(N, total) *)
Theorem C09_source_limit_exact :
  forall (W Item Pt : Type) (new_queue restore_queue : W -> W) (queue_next : W -> option Item * W)
         (queue_update_save_config : W -> W) (item_pt : Item -> Pt)
         (create_guesses : Pt -> bool -> option Z -> W -> sres Z * list nat * W)
         (restore_omen : Z -> W -> sres Z * list nat * W) (read_should_exit : W -> bool * W)
         (get_omen_exit : W -> bool) (get_omen_guess_num : W -> Z) (cfg_has_omen_number : W -> bool)
         (cfg_omen_number : W -> Z) (cfg_remove_omen_number : W -> W) (cfg_set_omen_number : Z -> W -> W)
         (write_save_file : W -> sres unit * W) (start_keypress_thread : W -> W)
         (pending : W -> list Item) (expansion : Pt -> list nat),
  quiet_world queue_next queue_update_save_config create_guesses read_should_exit cfg_set_omen_number
              write_save_file start_keypress_thread pending expansion ->
  forall (n fuel : nat) (w : W), n >= 1 -> length (pending (new_queue w)) < fuel ->
  let out :=
    snd (fst (py_cracking_run new_queue restore_queue queue_next queue_update_save_config item_pt create_guesses
                restore_omen read_should_exit get_omen_exit get_omen_guess_num cfg_has_omen_number cfg_omen_number
                cfg_remove_omen_number cfg_set_omen_number write_save_file start_keypress_thread
                fuel false (Some (Z.of_nat n)) w)) in
  out = firstn n (concat (qgroups item_pt pending expansion (new_queue w))) /\
  length out = Nat.min n (length (concat (qgroups item_pt pending expansion (new_queue w)))).
Proof. exact (@source_limit_exact). Qed.

(* the hypotheses are satisfiable (the queue is a list of groups, nobody quits, saving does
   nothing) and the translated function computes: C09_example on the source *)
Theorem C09_source_run_example :
  quiet_world qw_next (fun w => w) qw_create (fun w : list (list nat) => (false, w)) (fun _ w => w)
              (fun w => (SOk tt, w)) (fun w => w) (fun w => w) (fun gs : list nat => gs) /\
  qw_run 6 false (Some 4%Z) [[1;2]; []; []; [3;4;5]; [6]] = (SOk tt, [1;2;3;4], [[6]]).
Proof. exact (conj list_world_quiet (proj1 list_world_limit_example)). Qed.

Print Assumptions C09_limit_exact.
Print Assumptions C09_limit_inside_preterminal.
Print Assumptions C09_source_recursive_guesses_is_model.
Print Assumptions C09_source_limit_inside_preterminal.
Print Assumptions C09_source_run_is_limited.
Print Assumptions C09_source_limit_exact.

(* ---- translator tie of the command line glue (task T17): gen/Cli_gen.v is the translation of
   pcfg_guesser.py (main, parse_command_line, create_save_config, load_save; harness/translate_cli.py,
   redone on every run); see Props/C14.v for the equalities of the other translated functions *)
From Coq Require Import String.
From Pcfg Require Import CliModel CliModelProofs CliRt CliGenProofs.
From PcfgGen Require Import Cli_gen.

Theorem C09_source_main_is_model : forall E, run_main (py_main E) world0 = m_main E gen_version.
Proof. exact main_eq. Qed.

(* (4) the limit a session is run with is the typed one - for every argv, in every mode, also when
   a session is restored (the save file never replaces it); the sessions get the grammar main built *)
Theorem C09_limit_reaches_session : forall E o e log,
  m_parse (e_int_of E) (e_argv E) = Some (true, o) -> run_main (py_main E) world0 = (e, log) ->
  Forall (fun ev => match ev with
                    | ECrackRun s ld lim =>
                      ld = VBool (o_load o) /\ lim = v_limit (o_limit o) /\
                      cs_save_filename s = VStr (save_name E o) /\ In (EGrammar (g_call (cs_pcfg s))) log
                    | EHoneyRun s lim =>
                      lim = v_limit (o_limit o) /\ hs_mode s = VStr (o_mode o) /\ In (EGrammar (g_call (hs_pcfg s))) log
                    | _ => True
                    end) log.
Proof. exact source_session_arguments. Qed.

(* the --limit validation: parse_command_line returns False exactly for a negative limit ... *)
Theorem C09_limit_validation : forall int_of argv b o, m_parse int_of argv = Some (b, o) ->
  (b = false <-> exists z, o_limit o = Some z /\ (z < 0)%Z).
Proof. exact m_parse_refuses. Qed.

(* ... and a refused command line (usage error, --help, negative limit) builds and runs nothing *)
Theorem C09_refused_command_line_runs_nothing : forall E,
  match m_parse (e_int_of E) (e_argv E) with
  | None => run_main (py_main E) world0 = (MRaise SystemExit, [])
  | Some (false, _) => run_main (py_main E) world0 = (MDone, [])
  | Some (true, _) => True
  end.
Proof. exact source_refused. Qed.

(* main, parse_command_line, create_save_config and load_save themselves write nothing to standard
   output: every print of theirs goes to sys.stderr (a print without file=sys.stderr is translated to
   the event EStdout) *)
Theorem C09_main_prints_nothing_on_stdout : forall E, ~ In EStdout (snd (run_main (py_main E) world0)).
Proof. exact source_no_stdout. Qed.

Print Assumptions C09_source_main_is_model.
Print Assumptions C09_limit_reaches_session.
Print Assumptions C09_main_prints_nothing_on_stdout.
