(* C09 - --limit is exact (the stdout-only part of the property is decided by
   the static print-site scan and the byte-exact CLI comparison, see DESIGN). *)
From Coq Require Import List Arith NArith.
From Pcfg Require Import Expand ExpandProofs Session SessionProofs.
Import ListNotations.

(* the session loop: each pre-terminal writes the first l of its guesses, the
   loop subtracts and stops at <= 0  ==>  exactly the first N lines, min(N,total) *)
Theorem C09_limit_exact : forall pts n, n >= 1 ->
  limited pts (Some n) = firstn n (concat pts) /\
  length (limited pts (Some n)) = Nat.min n (length (concat pts)).
Proof. exact C09_limit_exact. Qed.

Theorem C09_limit_none : forall pts, limited pts None = concat pts.
Proof. exact C09_limit_none. Qed.
Theorem C09_limit_zero_means_unlimited : forall pts, limited pts (Some 0) = concat pts.
Proof. exact C09_limit_zero. Qed.

(* inside one pre-terminal (what [limited] assumes of each group): C04_limit *)
Theorem C09_limit_inside_preterminal :
  forall (upper_c : N -> str) (omen : str -> list str) segs cur n,
  segs <> [] -> Forall seg_ok' segs -> n >= 1 ->
  expand upper_c omen (flat_map slots_of segs) cur (Some n) =
    Some (firstn n (map (app cur) (denote upper_c segs)), Nat.min n (length (denote upper_c segs))).
Proof. exact (fun u o segs cur n => C04_limit u o segs cur n). Qed.

(* inside a Markov level: omen_generate_guesses stops after N guesses *)
Theorem C09_limit_inside_markov_level :
  forall (omen : str -> list str) lv n, omen_emit omen lv (Some (S n)) = firstn (S n) (omen lv).
Proof. reflexivity. Qed.

Theorem C09_example : limited [[1;2]; []; []; [3;4;5]; [6]] (Some 4) = [1;2;3;4].
Proof. exact C09_limit_empty_groups. Qed.

Print Assumptions C09_limit_exact.
Print Assumptions C09_limit_inside_preterminal.
