(* C12 - the guess stream does not depend on thread timing or on stdin.
   Property theorems only (proofs in SessionProofs.v). *)
From Coq Require Import List Arith.
From Pcfg Require Import Session SessionProofs.
From PcfgGen Require Import Consts_gen.
Import ListNotations.

(* side condition, re-extracted from cracking_session.py on every run: the main
   loop decides to quit by reading the flag, not by polling thread liveness *)
Theorem C12_source_loop_polls_quit_flag : session_polls_quit_flag = true.
Proof. reflexivity. Qed.

(* no explicit quit in the schedule: status/help requests and the helper thread
   ending at ANY point for ANY reason (EOF, closed stdin, errors) change nothing *)
Theorem C12_schedule_independent : forall sch pts,
  (forall t, ~ In EvQuitFlag (sch t)) ->
  run_session true sch pts = run_session true quiet pts /\
  out (run_session true sch pts) = full_stream pts /\
  finished (run_session true sch pts) = true /\
  saved_at (run_session true sch pts) = None /\
  omen_saved (run_session true sch pts) = None.
Proof. exact C12_schedule_independent. Qed.

(* every schedule: never reordered or altered, only possibly shortened *)
Theorem C12_prefix : forall sch pts,
  exists rest, full_stream pts = out (run_session true sch pts) ++ rest.
Proof. exact (fun sch pts => C12_prefix_partial true sch pts (or_introl eq_refl)). Qed.

(* an early stop happens only at the pop of some pre-terminal p, after the
   session was saved with p's probability; everything before p was written
   completely, except that the pre-terminal just before p, if a Markov level,
   may have been cut after its j-th guess - exactly the cut that was saved *)
Theorem C12_quit_boundary : forall sch pts o,
  o = run_session true sch pts -> finished o = false ->
  exists before p after, pts = before ++ p :: after /\ saved_at o = Some (pid p) /\
    ( (omen_saved o = None /\ out o = full_stream before) \/
      (exists b1 m j,
          before = b1 ++ [m] /\ markov m = true /\
          omen_saved o = Some (pid m, j) /\ 1 <= j <= length (guesses m) /\
          out o = full_stream b1 ++ firstn j (guesses m)) ).
Proof. exact C12_quit_boundary_polling. Qed.

(* a run that reports exhaustion is complete, with one exception that the code
   really has (known finding R18): a quit inside the FINAL Markov level *)
Theorem C12_finished : forall sch pts o,
  o = run_session true sch pts -> finished o = true ->
  saved_at o = None /\
  ( (omen_saved o = None /\ out o = full_stream pts) \/
    (exists b1 m j, pts = b1 ++ [m] /\ markov m = true /\
        omen_saved o = Some (pid m, j) /\ 1 <= j <= length (guesses m) /\
        out o = full_stream b1 ++ firstn j (guesses m)) ).
Proof. exact C12_finished_polling. Qed.

(* the loop as it was found (liveness polling): EOF on stdin truncates, and the
   window between flag and thread end lets further Markov levels start *)
Theorem C12_refuted_prefix_for_liveness_polling :
  ~ (forall polls sch pts, exists rest, full_stream pts = out (run_session polls sch pts) ++ rest).
Proof. exact C12_prefix_refuted. Qed.

Print Assumptions C12_schedule_independent.
Print Assumptions C12_prefix.
Print Assumptions C12_quit_boundary.
Print Assumptions C12_finished.
