(* C12 placeholder until SessionProofs lands *)
From Pcfg Require Import Session.
From PcfgGen Require Import Consts_gen.
Theorem C12_source_loop_polls_quit_flag : session_polls_quit_flag = true.
Proof. reflexivity. Qed.
