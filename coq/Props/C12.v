(* C12 - the guess stream does not depend on thread timing or on stdin.
   Property theorems only (proofs in SessionProofs.v). *)
From Coq Require Import List Arith.
From Pcfg Require Import Session SessionProofs.
From PcfgGen Require Import Consts_gen.
From Coq Require Import ZArith NArith.
From Pcfg Require Import SessionRt SessionModel SessionModelProofs SessionGenProofs.
From PcfgGen Require Import Session_gen.
Import ListNotations.

(* side condition, re-extracted from cracking_session.py on every run: the main
   loop decides to quit by reading the flag, not by polling thread liveness *)
Theorem C12_source_loop_polls_quit_flag : session_polls_quit_flag = true.
Proof. reflexivity. Qed.

(* no explicit quit in the schedule: status/help requests and the helper thread
   ending at ANY point for ANY reason (EOF, closed stdin, errors) change nothing *)
Theorem C12_schedule_independent : forall sch pts,
  (forall t, ~ In EvQuitFlag (sch t)) ->
  run_session true sch pts = run_session true quiet pts /\
  out (run_session true sch pts) = full_stream pts /\
  finished (run_session true sch pts) = true /\
  saved_at (run_session true sch pts) = None /\
  omen_saved (run_session true sch pts) = None.
Proof. exact C12_schedule_independent. Qed.

(* every schedule: never reordered or altered, only possibly shortened *)
Theorem C12_prefix : forall sch pts,
  exists rest, full_stream pts = out (run_session true sch pts) ++ rest.
Proof. exact (fun sch pts => C12_prefix_partial true sch pts (or_introl eq_refl)). Qed.

(* an early stop happens only at the pop of some pre-terminal p, after the
   session was saved with p's probability; everything before p was written
   completely, except that the pre-terminal just before p, if a Markov level,
   may have been cut after its j-th guess - exactly the cut that was saved *)
Theorem C12_quit_boundary : forall sch pts o,
  o = run_session true sch pts -> finished o = false ->
  exists before p after, pts = before ++ p :: after /\ saved_at o = Some (pid p) /\
    ( (omen_saved o = None /\ out o = full_stream before) \/
      (exists b1 m j,
          before = b1 ++ [m] /\ markov m = true /\
          omen_saved o = Some (pid m, j) /\ 1 <= j <= length (guesses m) /\
          out o = full_stream b1 ++ firstn j (guesses m)) ).
Proof. exact C12_quit_boundary_polling. Qed.

(* a run that reports exhaustion is complete, with one exception that the code
   really has (known finding R18): a quit inside the FINAL Markov level *)
Theorem C12_finished : forall sch pts o,
  o = run_session true sch pts -> finished o = true ->
  saved_at o = None /\
  ( (omen_saved o = None /\ out o = full_stream pts) \/
    (exists b1 m j, pts = b1 ++ [m] /\ markov m = true /\
        omen_saved o = Some (pid m, j) /\ 1 <= j <= length (guesses m) /\
        out o = full_stream b1 ++ firstn j (guesses m)) ).
Proof. exact C12_finished_polling. Qed.

(* the loop as it was found (liveness polling): EOF on stdin truncates, and the
   window between flag and thread end lets further Markov levels start *)
Theorem C12_refuted_prefix_for_liveness_polling :
  ~ (forall polls sch pts, exists rest, full_stream pts = out (run_session polls sch pts) ++ rest).
Proof. exact C12_prefix_refuted. Qed.


(* ---- translator tie: gen/Session_gen.v is the translation of the Python text of
   CrackingSession.run and CrackingSession._save_session (lib_guesser/cracking_session.py;
   harness/translate_session.py, redone on every run).  Every use of a collaborator (the
   queue, the grammar object with its quit flag and OMEN counters, the save configuration and
   its file, the keyboard thread) is an operation on an abstract world.  For EVERY world,
   every choice of these operations, every load_session / limit / fuel, the translated run()
   is the hand-written model SessionModel.m_run (prologue; then per iteration: pop - empty
   queue: return without saving - read the quit flag - set: save and stop - otherwise
   create_guesses with the limit, subtract the returned count, stop at <= 0) ---- *)
Theorem C12_source_run_is_model :
  forall (W Item Pt G : Type) (new_queue restore_queue : W -> W) (queue_next : W -> option Item * W)
         (queue_update_save_config : W -> W) (item_pt : Item -> Pt)
         (create_guesses : Pt -> bool -> option Z -> W -> sres Z * list G * W)
         (restore_omen : Z -> W -> sres Z * list G * W) (read_should_exit : W -> bool * W)
         (get_omen_exit : W -> bool) (get_omen_guess_num : W -> Z) (cfg_has_omen_number : W -> bool)
         (cfg_omen_number : W -> Z) (cfg_remove_omen_number : W -> W) (cfg_set_omen_number : Z -> W -> W)
         (write_save_file : W -> sres unit * W) (start_keypress_thread : W -> W)
         (fuel : nat) (load_session : bool) (limit : option Z) (w : W),
  py_cracking_run new_queue restore_queue queue_next queue_update_save_config item_pt create_guesses restore_omen
                  read_should_exit get_omen_exit get_omen_guess_num cfg_has_omen_number cfg_omen_number
                  cfg_remove_omen_number cfg_set_omen_number write_save_file start_keypress_thread
                  fuel load_session limit w =
  m_run new_queue restore_queue queue_next queue_update_save_config item_pt create_guesses restore_omen
        read_should_exit get_omen_exit get_omen_guess_num cfg_has_omen_number cfg_omen_number
        cfg_remove_omen_number cfg_set_omen_number write_save_file start_keypress_thread
        fuel load_session limit w.
Proof. exact (@cracking_run_eq). Qed.

(* in the world of Session.v (SessionModel.sworld: time = atomic steps of the main loop, the
   keyboard thread consuming the events of the schedule once started, the queue a list of
   pre-terminals, create_guesses = emit_plain / emit_markov, the save file a log) the
   translated run() of a new session without a limit IS run_session true, for every schedule
   and every list of pre-terminals, whenever fuel exceeds their number (never out of fuel) *)
Theorem C12_source_run_is_run_session :
  forall (sch : schedule) (pts restored : list pterm) (level_rest : nat -> nat -> list nat) (l : option Z),
  l = None \/ l = Some 0%Z -> forall (fuel : nat) (cfg : option nat), length pts < fuel ->
  fst (fst (src_run sch pts restored level_rest fuel false l (w_init cfg None))) = SOk tt /\
  w_outcome (src_run sch pts restored level_rest fuel false l (w_init cfg None)) = run_session true sch pts.
Proof. exact source_run_is_run_session. Qed.

(* C12_prefix / C12_quit_boundary / C12_schedule_independent for the translated source *)
Theorem C12_source_prefix :
  forall (sch : schedule) (pts restored : list pterm) (level_rest : nat -> nat -> list nat) (l : option Z),
  l = None \/ l = Some 0%Z -> forall (fuel : nat) (cfg : option nat), length pts < fuel ->
  exists rest, full_stream pts = snd (fst (src_run sch pts restored level_rest fuel false l (w_init cfg None))) ++ rest.
Proof. exact source_prefix. Qed.

Theorem C12_source_quit_boundary :
  forall (sch : schedule) (pts restored : list pterm) (level_rest : nat -> nat -> list nat) (l : option Z),
  l = None \/ l = Some 0%Z -> forall (fuel : nat) (cfg : option nat) (o : outcome), length pts < fuel ->
  o = w_outcome (src_run sch pts restored level_rest fuel false l (w_init cfg None)) -> finished o = false ->
  exists before p after, pts = before ++ p :: after /\ saved_at o = Some (pid p) /\
    ( (omen_saved o = None /\ out o = full_stream before) \/
      (exists b1 m j,
          before = b1 ++ [m] /\ markov m = true /\
          omen_saved o = Some (pid m, j) /\ 1 <= j <= length (guesses m) /\
          out o = full_stream b1 ++ firstn j (guesses m)) ).
Proof. exact source_quit_boundary. Qed.

Theorem C12_source_schedule_independent :
  forall (sch : schedule) (pts restored : list pterm) (level_rest : nat -> nat -> list nat) (l : option Z),
  l = None \/ l = Some 0%Z -> forall (fuel : nat) (cfg : option nat), length pts < fuel ->
  (forall t, ~ In EvQuitFlag (sch t)) ->
  snd (fst (src_run sch pts restored level_rest fuel false l (w_init cfg None))) = full_stream pts.
Proof. exact source_schedule_independent. Qed.

(* the translated function computes: a plain pre-terminal, a Markov level, a plain one; 'q'
   arrives while the second guess of the Markov level is written *)
Example C12_source_example :
  let pts := [plainp 0 [10; 11]; markovp 1 [20; 21; 22]; plainp 2 [30]] in
  let sch := at_step 5 [EvQuitFlag] quiet in
  w_outcome (src_run sch pts [] (fun _ _ => []) 4 false None (w_init None None)) =
    {| out := [10; 11; 20; 21]; saved_at := Some 2; omen_saved := Some (1, 2); finished := false |} /\
  run_session true sch pts =
    {| out := [10; 11; 20; 21]; saved_at := Some 2; omen_saved := Some (1, 2); finished := false |} /\
  sw_saves (snd (src_run sch pts [] (fun _ _ => []) 4 false None (w_init None None))) = [(None, None); (Some 2, Some 2)].
Proof. exact session_world_example. Qed.


(* ---- the keyboard thread: gen/Session_gen.v also holds the translation of keypress.  In the
   world of the thread (SessionModel.kworld: the lines input() will return, each with whether
   stderr still works while it is handled, or an error of input(); the end of the list is end of
   file) the translated function ends for every list of inputs (fuel above their number is never
   exhausted), writes nothing to stdout, and leaves pcfg.should_exit exactly as the events
   [kp_trace] of Session.v say under h_step: only a line 'q' - read while the main thread is
   alive and handled while stderr works - sets the flag, and the thread ends right after it;
   end of file, an error of input(), a dead main thread and a failing print to stderr end
   the thread WITHOUT setting the flag (the R5 repair) ---- *)
Theorem C12_source_keypress_is_model : forall (fuel : nat) (w : kworld), length (kw_inputs w) < fuel ->
  exists w', src_keypress fuel w = (SOk tt, [], w') /\
    kw_flag w' = should_exit (h_steps {| alive := true; should_exit := kw_flag w |}
                                      (kp_trace (kw_main_alive w) (kw_inputs w))) /\
    alive (h_steps {| alive := true; should_exit := kw_flag w |} (kp_trace (kw_main_alive w) (kw_inputs w))) = false.
Proof. exact keypress_is_trace. Qed.

Example C12_source_keypress_example :
  src_keypress 5 (mkK [KLine [] true; KLine [104%N] true; KLine [113%N] true; KLine [] true] true true false)
  = (SOk tt, [], mkK [KLine [] true] true true true) /\
  src_keypress 5 (mkK [KLine [] true; KLine [113%N] false] true true false) = (SOk tt, [], mkK [] false true false) /\
  kp_trace true [KLine [] true; KLine [104%N] true; KLine [113%N] true; KLine [] true]
  = [EvStatus; EvHelp; EvQuitFlag; EvThreadEnds].
Proof. exact keypress_example. Qed.

Print Assumptions C12_schedule_independent.
Print Assumptions C12_prefix.
Print Assumptions C12_quit_boundary.
Print Assumptions C12_finished.
Print Assumptions C12_source_run_is_model.
Print Assumptions C12_source_run_is_run_session.
Print Assumptions C12_source_quit_boundary.
Print Assumptions C12_source_keypress_is_model.
