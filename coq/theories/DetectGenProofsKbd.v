(* The generated keyboard-walk detector (gen/DetectKbd_gen.v: the translation of the
   Python text of find_keyboard_row_column, is_next_on_keyboard, interesting_keyboard and
   detect_keyboard_walk, redone on every run) against the hand-written model of Detect.v
   that keyboard_split_ok and the C05 pipeline theorems are about.

   The Python code keeps, per character, a dict from the NAME of a layout to the key's
   (row, position) on it, and per run a dict from layout names to a record of the last
   step; the model keeps one entry per layout BY POSITION (list (option (Z * Z)), list
   bool).  [dict_of names l] is the dict that represents the positional list l for the
   layouts called names (pairwise different, which the proofs need and the instance
   checks); [sel names bl] the keys of a dict that represents the flags bl.  The third
   result of detect_keyboard_walk (detected_keyboards, not used by the parser) is not
   part of the model: the theorems are about the first two. *)
From Coq Require Import List ZArith NArith Bool Lia.
From Pcfg Require Import Str Multiword Detect DetectRt DetectRt2 DetectProofsStr DetectProofsKbd DetectGenProofs DetectGenProofsMw.
From PcfgGen Require Import Consts_gen DetectKbd_gen.
Import ListNotations.
Open Scope Z_scope.

(* ------------------------------------------------------------------ *)
(* dicts keyed by layout names and positional lists                    *)
(* ------------------------------------------------------------------ *)
Fixpoint dict_of {V : Type} (names : list str) (l : list (option V)) : dict V :=
  match names, l with
  | n :: ns, o :: r => match o with Some v => (n, v) :: dict_of ns r | None => dict_of ns r end
  | _, _ => []
  end.

Fixpoint sel {X : Type} (names : list X) (bl : list bool) : list X :=
  match names, bl with
  | n :: ns, b :: r => if b then n :: sel ns r else sel ns r
  | _, _ => []
  end.

(* the entry of the layout called n, by position *)
Fixpoint look {V : Type} (names : list str) (l : list (option V)) (n : str) : option V :=
  match names, l with
  | m :: ns, o :: r => if str_eqb m n then o else look ns r n
  | _, _ => None
  end.

Lemma d_keys_dict_of {V} : forall names (l : list (option V)),
  d_keys (dict_of names l) = sel names (map (fun o => match o with Some _ => true | None => false end) l).
Proof.
  induction names as [|n ns IH]; intros [|[v|] l]; cbn [dict_of sel map d_keys fst]; try reflexivity.
  - f_equal. apply IH.
  - apply IH.
Qed.

Lemma sel_in {X} : forall (names : list X) bl x, In x (sel names bl) -> In x names.
Proof.
  induction names as [|n ns IH]; intros [|b bl] x; cbn [sel In]; try tauto.
  destruct b; cbn [In]; intros H; [destruct H as [->|H]|]; eauto.
Qed.

Lemma d_get_notin {V} (d : dict V) n : ~ In n (d_keys d) -> d_get d n = None.
Proof.
  induction d as [|[k v] d IH]; cbn [d_get d_keys map fst In]; [reflexivity|]. intros H.
  destruct (str_eqb k n) eqn:E; [apply seqb_eq in E; tauto|]. apply IH. tauto.
Qed.

Lemma d_get_dict_of {V} : forall names (l : list (option V)) n, NoDup names ->
  d_get (dict_of names l) n = look names l n.
Proof.
  induction names as [|m ns IH]; intros [|o l] n Hnd; cbn [dict_of look d_get]; try reflexivity.
  inversion Hnd as [|? ? Hm Hns]; subst. destruct o as [v|]; cbn [d_get].
  - destruct (str_eqb m n); [reflexivity|now apply IH].
  - destruct (str_eqb m n) eqn:E; [|now apply IH]. apply seqb_eq in E. subst n.
    apply d_get_notin. rewrite d_keys_dict_of. intros H. apply sel_in in H. tauto.
Qed.

Lemma d_set_new {V} (d : dict V) n v : ~ In n (d_keys d) -> d_set d n v = d ++ [(n, v)].
Proof.
  induction d as [|[k w] d IH]; cbn [d_set d_keys map fst In app]; [reflexivity|]. intros H.
  destruct (str_eqb k n) eqn:E; [apply seqb_eq in E; tauto|]. rewrite IH by tauto. reflexivity.
Qed.

Lemma d_keys_app {V} (a b : dict V) : d_keys (a ++ b) = d_keys a ++ d_keys b.
Proof. apply map_app. Qed.

Lemma d_has_keys {V} (d : dict V) n : d_has d n = existsb (fun k => str_eqb k n) (d_keys d).
Proof.
  unfold d_has. induction d as [|[k v] d IH]; cbn [d_get d_keys map fst existsb is_some]; [reflexivity|].
  destruct (str_eqb k n); [reflexivity|exact IH].
Qed.

(* a loop whose body only goes on goes on *)
Lemma for_from_total {X R L L' : Type} (body : Z -> X -> L -> ctl R L L) :
  (forall pos x s, exists s', body pos x s = Next s') ->
  forall l pos s, exists s', for_from (L' := L') pos l s body = Next s'.
Proof.
  intros Hb. induction l as [|x l IH]; intros pos s; cbn [for_from]; [eauto|].
  destruct (Hb pos x s) as (s' & ->). apply IH.
Qed.

(* ------------------------------------------------------------------ *)
(* find_keyboard_row_column                                            *)
(* ------------------------------------------------------------------ *)
Lemma mem_c_index c : forall r k, mem_c c r = match index_of c r k with Some _ => true | None => false end.
Proof.
  unfold mem_c. induction r as [|x r IH]; intros k; cbn [existsb index_of]; [reflexivity|].
  rewrite N.eqb_sym. destruct (N.eqb x c); [reflexivity|apply IH].
Qed.

Definition board_ok (b : pyboard) : Prop := length (b_rows b) = 8%nat.

Theorem py_find_keyboard_row_column_eq c (kbds : list pyboard) :
  NoDup (map b_name kbds) -> Forall board_ok kbds ->
  py_find_keyboard_row_column c kbds = Some (dict_of (map b_name kbds) (pos_list (map b_rows kbds) c)).
Proof.
  intros Hnd Hok. unfold py_find_keyboard_row_column, for_each. cbv zeta.
  match goal with |- context [for_from 0 _ _ ?b] => set (body := b) end.
  assert (L : forall rest pos (d : list (str * (Z * Z))), NoDup (map b_name rest) -> Forall board_ok rest ->
                (forall b, In b rest -> ~ In (b_name b) (d_keys d)) ->
                for_from (R := list (str * (Z * Z))) (L' := Empty_set) pos rest d body =
                Next (d ++ dict_of (map b_name rest) (pos_list (map b_rows rest) c))).
  { clear. induction rest as [|b rest IH]; intros pos d Hnd Hok Hd; cbn [for_from map dict_of pos_list].
    - now rewrite app_nil_r.
    - inversion Hnd as [|? ? Hb Hnd']; subst. inversion Hok as [|? ? Hb8 Hok']; subst.
      assert (Hnew : ~ In (b_name b) (d_keys d)) by (apply Hd; now left).
      assert (Hstep : forall v, for_from (R := list (str * (Z * Z))) (L' := Empty_set) (pos + 1) rest (d_set d (b_name b) v) body =
                Next (d ++ (b_name b, v) :: dict_of (map b_name rest) (pos_list (map b_rows rest) c))).
      { intros v. rewrite d_set_new by assumption. rewrite IH; [now rewrite <- app_assoc|assumption|assumption|].
        intros b' Hb'. rewrite d_keys_app, in_app_iff. cbn [d_keys map fst In]. intros [H|[H|[]]].
        - apply (Hd b'); [now right|assumption].
        - apply Hb. rewrite H. now apply in_map. }
      unfold board_ok in Hb8. unfold body at 1. cbv beta. unfold brow, row_index.
      destruct (b_rows b) as [|r0 [|r1 [|r2 [|r3 [|r4 [|r5 [|r6 [|r7 [|? ?]]]]]]]]]; try discriminate Hb8.
      cbn [nth find_row]. fold (pos_list (map b_rows rest) c).
      repeat (match goal with |- context [mem_c c ?r] => rewrite (mem_c_index c r 0); destruct (index_of c r 0) as [?p|] end;
              cbn [bind call]; [apply Hstep|]).
      apply IH; [assumption|assumption|]. intros b' Hb'. apply Hd. now right. }
  rewrite (L kbds 0 [] Hnd Hok) by (intros; cbn; tauto). reflexivity.
Qed.

(* ------------------------------------------------------------------ *)
(* is_next_on_keyboard                                                 *)
(* ------------------------------------------------------------------ *)
Lemma look_nil {V} names n : @look V names [] n = None.
Proof. now destruct names. Qed.

Lemma next_on_nil_r past : next_on past [] = [].
Proof. now destruct past. Qed.

Ltac z_cases :=
  repeat match goal with
         | |- context [if ?c then _ else _] => bool_atom c ltac:(fun a => destruct a eqn:?); cbn [negb andb orb bind]
         end.

Lemma sel_nil {X} (ns : list X) : sel ns [] = [].
Proof. now destruct ns. Qed.

(* one more layout: its flag and the rest *)
Lemma sel_next_on_cons {X} (n : X) ns p past cur :
  sel (n :: ns) (next_on (p :: past) cur) =
  (if match p, hd None cur with Some a, Some b => adjacent a b | _, _ => false end then [n] else []) ++
  sel ns (next_on past (tl cur)).
Proof.
  destruct cur as [|c cur]; cbn [next_on sel tl hd]; [destruct p; now rewrite next_on_nil_r, sel_nil|].
  destruct p as [a|]; [|reflexivity]. destruct c as [b|]; [|reflexivity]. now destruct (adjacent a b).
Qed.

Theorem py_is_next_on_keyboard_eq names past cur : NoDup names ->
  exists d, py_is_next_on_keyboard (dict_of names past) (dict_of names cur) = Some d /\
            d_keys d = sel names (next_on past cur).
Proof.
  intros Hnd. unfold py_is_next_on_keyboard, for_each. cbv zeta.
  set (D := dict_of names cur).
  match goal with |- context [for_from 0 _ _ ?b] => set (body := b) end.
  assert (L : forall ns past' cur' pos (acc : list (str * (Z * Z * Z * Z))), NoDup ns ->
                (forall n, In n ns -> ~ In n (d_keys acc)) ->
                (forall n, In n ns -> d_get D n = look ns cur' n) ->
                exists d, for_from (R := list (str * (Z * Z * Z * Z))) (L' := Empty_set) pos (dict_of ns past') acc body = Next d /\
                          d_keys d = d_keys acc ++ sel ns (next_on past' cur')).
  { clear Hnd. induction ns as [|n ns IH]; intros past' cur' pos acc Hnd Hacc HD.
    - cbn [dict_of for_from sel]. exists acc. now rewrite app_nil_r.
    - inversion Hnd as [|? ? Hn Hnd']; subst.
      destruct past' as [|p past'']; [cbn [dict_of for_from next_on sel]; exists acc; now rewrite app_nil_r|].
      rewrite sel_next_on_cons.
      (* the rest of the loop, for the remaining layouts *)
      assert (Hrest : forall pos' acc', (forall m, In m ns -> ~ In m (d_keys acc')) ->
                exists d, for_from (R := list (str * (Z * Z * Z * Z))) (L' := Empty_set) pos' (dict_of ns past'') acc' body = Next d /\
                          d_keys d = d_keys acc' ++ sel ns (next_on past'' (tl cur'))).
      { intros pos' acc' Hacc'. apply IH; [assumption|assumption|].
        intros m Hm. rewrite (HD m (or_intror Hm)). destruct cur' as [|c cur'']; cbn [look tl]; [now rewrite look_nil|].
        destruct (str_eqb n m) eqn:E; [apply seqb_eq in E; subst m; tauto|reflexivity]. }
      assert (Hsame : exists d, for_from (R := list (str * (Z * Z * Z * Z))) (L' := Empty_set) (pos + 1) (dict_of ns past'') acc body = Next d /\
                                d_keys d = d_keys acc ++ [] ++ sel ns (next_on past'' (tl cur')))
        by (apply Hrest; intros m Hm; apply Hacc; now right).
      assert (Hn' : d_get D n = hd None cur').
      { rewrite (HD n (or_introl eq_refl)). destruct cur' as [|c cur'']; cbn [look hd]; [reflexivity|now rewrite seqb_refl]. }
      destruct p as [[pr pp]|]; cbn [dict_of]; [|exact (Hrest pos acc (fun m Hm => Hacc m (or_intror Hm)))].
      cbn [for_from]. unfold body at 1. cbv beta iota zeta. unfold d_has. rewrite Hn'.
      destruct (hd None cur') as [[cr cp]|]; cbn [is_some negb bind call fst snd]; [|exact Hsame].
      (* both keys are on this layout: the adjacency test *)
      assert (Hadd : exists d, for_from (R := list (str * (Z * Z * Z * Z))) (L' := Empty_set) (pos + 1) (dict_of ns past'')
                                 (d_set acc n (pr, pp, cr, cp)) body = Next d /\
                               d_keys d = d_keys acc ++ [n] ++ sel ns (next_on past'' (tl cur'))).
      { rewrite d_set_new by (apply Hacc; now left).
        destruct (Hrest (pos + 1) (acc ++ [(n, (pr, pp, cr, cp))])) as (d & Ed & Hk).
        - intros m Hm. rewrite d_keys_app, in_app_iff. cbn [d_keys map fst In]. intros [H|[H|[]]]; [apply (Hacc m); [now right|assumption]|].
          subst m. tauto.
        - exists d. split; [assumption|]. rewrite Hk, d_keys_app, <- app_assoc. reflexivity. }
      unfold adjacent.
      (* == is symmetric: the operands in the model's order, whichever way the source writes them *)
      rewrite ?(Z.eqb_sym pr cr), ?(Z.eqb_sym pp cp), ?(Z.eqb_sym (pp - 1) cp), ?(Z.eqb_sym (pp + 1) cp),
        ?(Z.eqb_sym (pr + 1) cr), ?(Z.eqb_sym (pr - 1) cr).
      z_cases; first [exact Hadd | exact Hsame]. }
  destruct (L names past cur 0 [] Hnd) as (d & Ed & Hk).
  - intros; cbn; tauto.
  - intros n _. unfold D. now apply d_get_dict_of.
  - rewrite Ed. cbn [bind run]. exists d. split; [reflexivity|exact Hk].
Qed.

(* ------------------------------------------------------------------ *)
(* interesting_keyboard                                                *)
(* ------------------------------------------------------------------ *)
Lemma bind_sub_s {R L St St' : Type} (s : str) (i : Z) (f : N -> ctl R L St) (k : St -> ctl R L St') :
  bind (sub_s s i f) k = sub_s s i (fun c => bind (f c) k).
Proof. unfold sub_s. now destruct (getc s i). Qed.

Section Interesting.
Variables isalpha isdigit : N -> bool.
Variable lower_c : N -> str.

(* for item in false_positive_words: if item in full_lower_word: return False *)
Lemma fp_loop_sim {L' : Type} (w : str) (body : Z -> str -> unit -> ctl bool unit unit) :
  (forall pos item u, body pos item u = if contains w item then Return false else Next tt) ->
  forall l pos,
  for_from (L' := L') pos l tt body = if existsb (fun item => contains w item) l then Return false else Next tt.
Proof.
  intros Hb. induction l as [|x l IH]; intros pos; cbn [for_from existsb]; [reflexivity|].
  rewrite Hb. destruct (contains w x); [reflexivity|apply IH].
Qed.

(* for value in combo: alpha / digit / special = 1 *)
Lemma class_loop_sim {R L' : Type} (body : Z -> N -> Z * Z * Z -> ctl R (Z * Z * Z) (Z * Z * Z)) :
  (forall pos v a s d, body pos v (a, s, d) =
     Next (if isalpha v then (1, s, d) else if isdigit v then (a, s, 1) else (a, 1, d))) ->
  forall l pos a s d,
  for_from (L' := L') pos l (a, s, d) body =
  Next (if existsb isalpha l then 1 else a,
        if existsb (fun c => negb (isalpha c) && negb (isdigit c)) l then 1 else s,
        if existsb (fun c => negb (isalpha c) && isdigit c) l then 1 else d).
Proof.
  intros Hb. induction l as [|x l IH]; intros pos a s d; cbn [for_from existsb]; [reflexivity|].
  rewrite Hb. destruct (isalpha x); cbn [negb andb orb].
  - rewrite IH. now destruct (existsb isalpha l).
  - destruct (isdigit x); cbn [negb andb orb]; rewrite IH; [now destruct (existsb (fun c => negb (isalpha c) && isdigit c) l)|].
    now destruct (existsb (fun c => negb (isalpha c) && negb (isdigit c)) l).
Qed.

(* symbolic execution of the guards at the head of the function *)
Ltac known_or_destruct c :=
  first [ match goal with H : c = _ |- _ => rewrite H end | destruct c eqn:? ].
Ltac guard_step :=
  lazymatch goal with
  | |- run (sub_s ?s ?i _) = _ =>
      unfold sub_s at 1; known_or_destruct (getc s i); cbv beta iota; try reflexivity
  | |- run (bind (sub_s _ _ _) _) = _ => rewrite bind_sub_s
  | |- run (bind (if ?c then _ else _) _) = _ => known_or_destruct c; cbn [bind run]; cbv beta iota; try reflexivity
  | |- run (if ?c then _ else _) = _ => known_or_destruct c; cbn [bind run]; cbv beta iota; try reflexivity
  | |- run (bind (Next tt) _) = _ => cbn [bind]
  end.

Theorem py_interesting_keyboard_eq (combo : str) :
  py_interesting_keyboard isalpha isdigit lower_c combo =
  interesting isalpha isdigit lower_c kb_false_positive_words combo.
Proof.
  unfold py_interesting_keyboard, interesting, is_c, oand, complexity, c_e, c_r, c_t, c_y, c_1, c_2, c_3, c_q, c_Q.
  cbv zeta.
  repeat guard_step.
  all: unfold for_each.
  all: match goal with |- context [for_from 0 ?l tt _] => change l with kb_false_positive_words end.
  all: erewrite fp_loop_sim by (intros; reflexivity).
  all: match goal with |- context [existsb ?f kb_false_positive_words] => destruct (existsb f kb_false_positive_words) end;
         cbn [bind run]; [reflexivity|].
  all: erewrite class_loop_sim by (intros pos v a s d; cbv beta iota; destruct (isalpha v); [|destruct (isdigit v)]; reflexivity).
  all: cbn [bind].
  all: match goal with |- context [if ?c then _ else _] => destruct c end; reflexivity.
Qed.

End Interesting.

(* ------------------------------------------------------------------ *)
(* the run bookkeeping of detect_keyboard_walk                         *)
(* ------------------------------------------------------------------ *)
Lemma nonempty_sel_any {X} : forall (names : list X) bl, (length bl <= length names)%nat ->
  nonempty (sel names bl) = any bl.
Proof.
  unfold any. induction names as [|n ns IH]; intros [|b bl] H; cbn [sel existsb nonempty length] in *; try reflexivity; try lia.
  destruct b; [reflexivity|]. apply IH. lia.
Qed.

Lemma existsb_sel_notin (n : str) : forall ns bl, ~ In n ns -> existsb (fun x => str_eqb x n) (sel ns bl) = false.
Proof.
  intros ns bl H. destruct (existsb (fun x => str_eqb x n) (sel ns bl)) eqn:E; [|reflexivity].
  apply existsb_exists in E. destruct E as (x & Hx & Ex). apply seqb_eq in Ex. subst x. apply sel_in in Hx. tauto.
Qed.

Lemma filter_all {X} (P : X -> bool) l : (forall x, In x l -> P x = true) -> filter P l = l.
Proof.
  induction l as [|x l IH]; intros H; cbn [filter]; [reflexivity|].
  rewrite (H x (or_introl eq_refl)). f_equal. apply IH. intros y Hy. apply H. now right.
Qed.

Lemma filter_none {X} (P : X -> bool) l : (forall x, In x l -> P x = false) -> filter P l = [].
Proof.
  induction l as [|x l IH]; intros H; cbn [filter]; [reflexivity|].
  rewrite (H x (or_introl eq_refl)). apply IH. intros y Hy. apply H. now right.
Qed.

(* the layouts of the run that are also layouts of the current step *)
Lemma sel_filter : forall names b1 b2, NoDup names ->
  filter (fun k => existsb (fun x => str_eqb x k) (sel names b2)) (sel names b1) = sel names (and_list b1 b2).
Proof.
  induction names as [|n ns IH]; intros b1 b2 Hnd; [now destruct b1|].
  inversion Hnd as [|? ? Hn Hnd']; subst.
  destruct b1 as [|x b1]; [reflexivity|]. destruct b2 as [|y b2].
  - cbn [and_list sel]. apply filter_none. reflexivity.
  - cbn [and_list sel].
    assert (Htail : forall l, (forall k, In k l -> In k ns) ->
              filter (fun k => existsb (fun x0 => str_eqb x0 k) (if y then n :: sel ns b2 else sel ns b2)) l =
              filter (fun k => existsb (fun x0 => str_eqb x0 k) (sel ns b2)) l).
    { intros l Hl. apply filter_ext_in. intros k Hk. destruct y; [|reflexivity]. cbn [existsb].
      destruct (str_eqb n k) eqn:E; [|reflexivity]. apply seqb_eq in E. subst k. apply Hl in Hk. tauto. }
    destruct x; cbn [andb filter].
    + replace (existsb (fun x0 => str_eqb x0 n) (if y then n :: sel ns b2 else sel ns b2)) with y.
      * rewrite Htail by (intros k Hk; eapply sel_in; eassumption). rewrite IH by assumption. now destruct y.
      * destruct y; cbn [existsb]; [now rewrite seqb_refl|]. symmetry. now apply existsb_sel_notin.
    + rewrite Htail by (intros k Hk; eapply sel_in; eassumption). now apply IH.
Qed.

Lemma NoDup_sel {X} : forall (names : list X) bl, NoDup names -> NoDup (sel names bl).
Proof.
  induction names as [|n ns IH]; intros [|b bl] H; cbn [sel]; try constructor.
  inversion H as [|? ? Hn Hns]; subst. destruct b; [constructor; [|now apply IH]|now apply IH].
  intros Hi. apply sel_in in Hi. tauto.
Qed.

Lemma d_keys_pop {V} (d : dict V) k : NoDup (d_keys d) ->
  d_keys (d_pop d k) = filter (fun x => negb (str_eqb x k)) (d_keys d).
Proof.
  induction d as [|[k0 v] d IH]; intros Hnd; cbn [d_pop d_keys map fst filter]; [reflexivity|].
  inversion Hnd as [|? ? Hk Hnd']; subst. destruct (str_eqb k0 k) eqn:E; cbn [negb d_keys map fst].
  - apply seqb_eq in E. subst k0. symmetry. fold (d_keys d).
    apply filter_all. intros x Hx. destruct (str_eqb x k) eqn:E; [apply seqb_eq in E; subst x; tauto|reflexivity].
  - f_equal. now apply IH.
Qed.

Lemma NoDup_filter {X} (P : X -> bool) l : NoDup l -> NoDup (filter P l).
Proof.
  induction 1 as [|x l Hx Hl IH]; cbn [filter]; [constructor|]. destruct (P x); [constructor; [|assumption]|assumption].
  intros H. apply filter_In in H. tauto.
Qed.

Lemma filter_filter {X} (P Q : X -> bool) l : filter P (filter Q l) = filter (fun x => Q x && P x) l.
Proof.
  induction l as [|x l IH]; cbn [filter]; [reflexivity|]. destruct (Q x); cbn [filter andb]; [destruct (P x)|]; now rewrite IH.
Qed.

(* for key in list(keyboard_run_list): if key not in current_runs: keyboard_run_list.pop(key, None) *)
Lemma pop_loop_sim {V W R L' : Type} (cr : dict W) (body : Z -> str -> dict V -> ctl R (dict V) (dict V)) :
  (forall pos key d, body pos key d = if negb (d_has cr key) then Next (d_pop d key) else Next d) ->
  forall K pos d, NoDup (d_keys d) ->
  exists d', for_from (L' := L') pos K d body = Next d' /\
             d_keys d' = filter (fun x => negb (existsb (fun k => str_eqb x k) K) || d_has cr x) (d_keys d).
Proof.
  intros Hb. induction K as [|k K IH]; intros pos d Hnd; cbn [for_from existsb].
  - exists d. split; [reflexivity|]. symmetry. now apply filter_all.
  - rewrite Hb. destruct (d_has cr k) eqn:Ek; cbn [negb].
    + destruct (IH (pos + 1) d Hnd) as (d' & -> & Hk). exists d'. split; [reflexivity|]. rewrite Hk.
      apply filter_ext. intros x. destruct (str_eqb x k) eqn:E; cbn [orb negb]; [|reflexivity].
      apply seqb_eq in E. subst x. rewrite Ek. now destruct (negb _).
    + destruct (IH (pos + 1) (d_pop d k)) as (d' & -> & Hk).
      * rewrite d_keys_pop by assumption. now apply NoDup_filter.
      * exists d'. split; [reflexivity|]. rewrite Hk, d_keys_pop by assumption. rewrite filter_filter.
        apply filter_ext. intros x. destruct (str_eqb x k) eqn:E; cbn [orb negb andb]; [|reflexivity].
        apply seqb_eq in E. subst x. now rewrite Ek.
Qed.

Lemma filter_self_mem (P : str -> bool) (l : list str) :
  filter (fun x => negb (existsb (fun k => str_eqb x k) l) || P x) l = filter P l.
Proof.
  apply filter_ext_in. intros x Hx. replace (existsb (fun k => str_eqb x k) l) with true; [reflexivity|].
  symmetry. apply existsb_exists. exists x. split; [assumption|apply seqb_refl].
Qed.

Lemma dict_of_nones {V} : forall names (X : Type) (l : list X), @dict_of V names (map (fun _ => None) l) = [].
Proof. induction names as [|n ns IH]; intros X [|x l]; cbn [dict_of map]; try reflexivity. apply IH. Qed.

(* ------------------------------------------------------------------ *)
(* detect_keyboard_walk                                                *)
(* ------------------------------------------------------------------ *)
(* the layouts the source lists, in its order *)
Definition py_keyboards : list pyboard := [kb_us; kb_jcuken].
Definition py_kbs : list board := map b_rows py_keyboards.

Lemma py_keyboards_names_differ : NoDup (map b_name py_keyboards).
Proof.
  cbn [map py_keyboards]. constructor; [|constructor; [intros []|constructor]].
  intros [H|[]]. discriminate H.
Qed.
Lemma py_keyboards_ok : Forall board_ok py_keyboards.
Proof. repeat constructor. Qed.

(* what the caller sees of a result: the section list and the found list *)
Definition kw_view (r : option (list section * list str * list str)) : option (list section * list str) :=
  option_map (fun x => (fst (fst x), snd (fst x))) r.

Section Walk.
Variables isalpha isdigit : N -> bool.
Variable lower_c : N -> str.

Notation names := (map b_name py_keyboards).
Notation model := (detect_keyboard_walk isalpha isdigit lower_c py_kbs kb_false_positive_words 4).
Notation first := (py_detect_first_keyboard_walk isalpha isdigit lower_c).
Notation py := (py_detect_keyboard_walk isalpha isdigit lower_c).
Notation R := (list section * list str * list str * option str)%type.
Notation St := (str * list section * list str * list str * list (str * (Z * Z)) * list (str * (Z * Z * Z * Z)))%type.

(* the first walk of a password in the model: its sections, what was found, and what is
   left to parse (None: the password is finished) *)
Definition kw_first (pw : str) : option (list section * list str * option str) :=
  match kw_loop isalpha isdigit lower_c py_kbs kb_false_positive_words 4 pw 0 (map (fun _ => None) py_kbs) [] [] with
  | KErr => None
  | KFound index combo =>
      Some ((if len combo =? index then [] else [(slice pw 0 (index - len combo), None)]) ++
            [(combo, Some (LK (len combo)))], [combo], Some (sfrom pw index))
  | KEnd combo =>
      if 4 <=? len combo then
        match interesting isalpha isdigit lower_c kb_false_positive_words combo with
        | None => None
        | Some true =>
            Some ((if len combo =? len pw then [] else [(slice pw 0 (len pw - len combo), None)]) ++
                  [(combo, Some (LK (len combo)))], [combo], None)
        | Some false => Some ([(pw, None)], [], None)
        end
      else Some ([(pw, None)], [], None)
  end.

(* the loop `for index, value in enumerate(password)` against Detect.kw_loop *)
Definition loop_rel (pw : str) (c : ctl R Empty_set St) (m : kw_outcome) : Prop :=
  match m with
  | KErr => c = Raise
  | KFound index combo =>
      index < len pw /\
      exists dk', c = Return ((if len combo =? index then [] else [(slice pw 0 (index - len combo), None)]) ++
                             [(combo, Some (LK (len combo)))], [combo], dk', Some (sfrom pw index))
  | KEnd combo => exists dk' pp kk, c = Next (combo, [], [], dk', pp, kk)
  end.

(* _detect_first_keyboard_walk: what it returns, up to the detected keyboards; and a walk
   found inside the loop ends before the end of the password *)
Theorem py_detect_first_keyboard_walk_eq pw :
  option_map (fun x => (fst (fst (fst x)), snd (fst (fst x)), snd x)) (first pw 4) = kw_first pw /\
  (forall index combo,
     kw_loop isalpha isdigit lower_c py_kbs kb_false_positive_words 4 pw 0 (map (fun _ => None) py_kbs) [] [] =
     KFound index combo -> index < len pw).
Proof.
  unfold py_detect_first_keyboard_walk, kw_first. cbv zeta.
  cbn [append app]. fold py_keyboards. unfold for_enum.
  match goal with |- context [for_from 0 pw _ ?b] => set (body := b) end.
  assert (L : forall rest done pos past rcombo krl dk (kr : list (str * (Z * Z * Z * Z))),
    pw = done ++ rest -> pos = len done -> length past = length names -> (length krl <= length names)%nat ->
    d_keys kr = sel names krl ->
    loop_rel pw (for_from (R := R) (L' := Empty_set) pos rest (rev rcombo, [], [], dk, dict_of names past, kr) body)
             (kw_loop isalpha isdigit lower_c py_kbs kb_false_positive_words 4 rest pos past rcombo krl)).
  { induction rest as [|value rest IH]; intros done pos past rcombo krl dk kr Hpw Hpos Hpast Hkrl Hkr;
      cbn [kw_loop for_from]; [cbn [loop_rel]; now eexists _, _, _|].
    cbv zeta. set (pl := pos_list py_kbs value). set (crm := next_on past pl).
    set (krl' := if any krl then and_list krl crm else crm).
    unfold body at 1. cbv beta iota zeta.
    (* pos_list = find_keyboard_row_column(value, keyboards) *)
    rewrite (py_find_keyboard_row_column_eq value py_keyboards py_keyboards_names_differ py_keyboards_ok).
    cbn [call]. fold py_kbs. fold pl.
    (* detected_keyboards: some list *)
    match goal with |- context [bind (if pos =? 0 then ?A else ?B) _] =>
      assert (Hdk : exists dk', (if pos =? 0 then A else B) = Next (R := R) (L := St) dk') end.
    { destruct (pos =? 0); [|now eexists]. unfold for_each.
      match goal with |- context [@for_from ?X0 ?R0 ?L0 ?L1 0 ?l ?s ?b] =>
        destruct (@for_from_total X0 R0 L0 L1 b
                    ltac:(intros ? board d; cbv beta; destruct (negb (mem_str board d)); now eexists) l 0 s) as (s' & ->) end.
      now eexists. }
    destruct Hdk as (dk' & ->). cbn [bind].
    (* current_runs = is_next_on_keyboard(past_pos_list, pos_list) *)
    destruct (py_is_next_on_keyboard_eq names past pl py_keyboards_names_differ) as (cr & -> & Hcr). fold crm in Hcr.
    cbn [call].
    (* keyboard_run_list *)
    assert (Hlen_crm : (length crm <= length names)%nat).
    { unfold crm. pose proof (length_next_on past pl). lia. }
    assert (Hlen_krl' : (length krl' <= length names)%nat).
    { unfold krl'. destruct (any krl); [pose proof (length_and_list krl crm); lia|assumption]. }
    match goal with |- context [bind (if negb (nonempty kr) then ?A else ?B) _] =>
      assert (Hk : exists kr' : list (str * (Z * Z * Z * Z)),
                (if negb (nonempty kr) then A else B) = Next (R := R) (L := St) kr' /\ d_keys kr' = sel names krl') end.
    { replace (nonempty kr) with (any krl)
        by (rewrite <- (nonempty_sel_any names krl Hkrl), <- Hkr; now destruct kr).
      unfold krl'. destruct (any krl); cbn [negb]; [|now exists cr].
      unfold for_each.
      match goal with |- context [@for_from ?X0 ?R0 ?L0 ?L1 0 ?K ?d ?b] =>
        destruct (@pop_loop_sim _ _ R0 L1 cr b ltac:(intros; reflexivity) K 0 d) as (d' & Ed' & Hd');
        [|replace (@for_from X0 R0 L0 L1 0 K d b) with (@Next R0 L1 L0 d') by (symmetry; exact Ed')] end.
      - rewrite Hkr. apply NoDup_sel. exact py_keyboards_names_differ.
      - exists d'. split; [reflexivity|]. rewrite Hd', filter_self_mem, Hkr.
        rewrite (filter_ext _ (fun k => existsb (fun x => str_eqb x k) (sel names crm))).
        + apply sel_filter. exact py_keyboards_names_differ.
        + intros k. now rewrite d_has_keys, Hcr. }
    destruct Hk as (kr' & -> & Hkr'). cbn [bind].
    replace (nonempty kr') with (any krl')
      by (rewrite <- (nonempty_sel_any names krl' Hlen_krl'), <- Hkr'; now destruct kr').
    assert (Hpl : length pl = length names) by (unfold pl, pos_list, py_kbs; now rewrite !map_length).
    assert (Hpw' : pw = (done ++ [value]) ++ rest) by (now rewrite <- app_assoc).
    assert (Hpos' : pos + 1 = len (done ++ [value])) by (rewrite len_app, Hpos; reflexivity).
    destruct (any krl').
    - (* the run goes on *)
      change (rev rcombo ++ [value]) with (rev (value :: rcombo)).
      exact (IH (done ++ [value]) (pos + 1) pl (value :: rcombo) krl' dk' kr' Hpw' Hpos' Hpl Hlen_krl' Hkr').
    - (* the run ends here *)
      assert (Hnext : loop_rel pw
                (for_from (R := R) (L' := Empty_set) (pos + 1) rest ([value], [], [], dk', dict_of names pl, kr') body)
                (kw_loop isalpha isdigit lower_c py_kbs kb_false_positive_words 4 rest (pos + 1) pl [value] krl'))
        by exact (IH (done ++ [value]) (pos + 1) pl [value] krl' dk' kr' Hpw' Hpos' Hpl Hlen_krl' Hkr').
      rewrite len_rev. destruct (4 <=? len rcombo); cbn [bind]; [|exact Hnext].
      rewrite py_interesting_keyboard_eq.
      destruct (interesting isalpha isdigit lower_c kb_false_positive_words (rev rcombo)) as [[|]|]; cbn [call bind];
        [|exact Hnext|reflexivity].
      (* an interesting walk: what remains is handed back to the caller *)
      assert (Hlt : pos < len pw).
      { rewrite Hpw, len_app, len_cons, Hpos. pose proof (len_nonneg rest). lia. }
      assert (Hne : (pos =? len pw) = false) by (apply Z.eqb_neq; lia).
      rewrite Hne. cbn [negb]. unfold loop_rel. rewrite ?len_rev. split; [exact Hlt|].
      destruct (len rcombo =? pos); cbn [negb bind append app]; now eexists. }
  pose proof (L pw [] 0 (map (fun _ => None) py_kbs) [] [] [] [] eq_refl eq_refl) as HL.
  rewrite dict_of_nones in HL. cbn [rev] in HL.
  specialize (HL ltac:(unfold py_kbs; now rewrite !map_length) ltac:(cbn; lia) eq_refl).
  match goal with |- context [@for_from ?X0 ?R0 ?L0 ?L1 0 pw ?st body] =>
    set (LOOP := @for_from X0 R0 L0 L1 0 pw st body);
    change (loop_rel pw LOOP
              (kw_loop isalpha isdigit lower_c py_kbs kb_false_positive_words 4 pw 0 (map (fun _ => None) py_kbs) [] [])) in HL
  end.
  unfold loop_rel in HL.
  destruct (kw_loop isalpha isdigit lower_c py_kbs kb_false_positive_words 4 pw 0 (map (fun _ => None) py_kbs) [] [])
    as [|index combo|combo].
  - rewrite HL. split; [reflexivity|discriminate].
  - destruct HL as (Hlt & dk' & ->). split; [reflexivity|]. intros ? ? E. injection E as <- _. exact Hlt.
  - destruct HL as (dk' & pp & kk & ->). split; [|discriminate]. cbn [bind]. rewrite ?py_interesting_keyboard_eq.
    destruct (4 <=? len combo); cbn [bind run option_map fst snd append app]; [|reflexivity].
    destruct (interesting isalpha isdigit lower_c kb_false_positive_words combo) as [[|]|];
      cbn [call bind run option_map fst snd append app]; [|reflexivity|reflexivity].
    destruct (len combo =? len pw); reflexivity.
Qed.

(* the model's recursion, one walk at a time *)
Lemma model_unfold fuel pw :
  model fuel pw =
  match kw_first pw with
  | None => None
  | Some (s, f, None) => Some (s, f)
  | Some (s, f, Some rest) =>
      match fuel with
      | O => None
      | S n => match model n rest with
               | None => None
               | Some (secs, found) => Some (s ++ secs, f ++ found)
               end
      end
  end.
Proof.
  destruct (py_detect_first_keyboard_walk_eq pw) as (_ & Hlt). unfold kw_first.
  destruct fuel; cbn [detect_keyboard_walk]; cbv zeta;
    (destruct (kw_loop isalpha isdigit lower_c py_kbs kb_false_positive_words 4 pw 0 (map (fun _ => None) py_kbs) [] [])
       as [|index combo|combo];
     [ reflexivity
     | replace (index =? len pw) with false by (symmetry; apply Z.eqb_neq; specialize (Hlt index combo eq_refl); lia);
       try reflexivity
     | destruct (4 <=? len combo); [|reflexivity];
       destruct (interesting isalpha isdigit lower_c kb_false_positive_words combo) as [[|]|]; reflexivity ]).
  destruct (detect_keyboard_walk isalpha isdigit lower_c py_kbs kb_false_positive_words 4 fuel (sfrom pw index)) as [[secs found]|];
    [|reflexivity]. now rewrite <- app_assoc.
Qed.

(* the model never fails when its fuel is the length of the password *)
Lemma model_total pw : exists r, model (length pw) pw = Some r.
Proof.
  destruct pw as [|c pw].
  - now eexists.
  - destruct (kw_ok isalpha isdigit lower_c py_kbs kb_false_positive_words 4 [] [] ltac:(lia) (length (c :: pw)) (c :: pw)
                (Nat.le_refl _) ltac:(discriminate)) as (sl & f & E & _).
    rewrite E. now eexists.
Qed.

Lemma lpop_snoc {X} (l : list X) x : lpop (l ++ [x]) = Some (l, x).
Proof. unfold lpop. rewrite rev_app_distr. cbn [rev app]. now rewrite rev_involutive. Qed.

Lemma nonempty_snoc {X} (l : list X) : l <> [] -> exists l' x, l = l' ++ [x].
Proof. intros H. destruct (exists_last H) as (l' & x & ->). eauto. Qed.

(* the loop `while detected_per_part:` that folds the detected keyboards: it ends with the
   list empty whenever the fuel is at least the length of the list *)
Lemma fold_loop_total {R0 L' : Type} (cond : list str * list (list str) -> bool)
      (body : list str * list (list str) -> ctl R0 (list str * list (list str)) (list str * list (list str))) :
  (forall dk l, cond (dk, l) = nonempty l) ->
  (forall dk l, body (dk, l) = call (lpop l) (fun '(l', e) => Next (filter (fun key => mem_str key e) dk, l'))) ->
  forall fuel l dk, (length l <= fuel)%nat ->
  exists dk', while_ (L' := L') fuel (dk, l) cond body = Next (dk', []).
Proof.
  intros Hc Hb. induction fuel as [|f IH]; intros l dk Hl.
  - destruct l; [|cbn in Hl; lia]. cbn [while_]. rewrite Hc. now eexists.
  - cbn [while_]. rewrite Hc. destruct l as [|a l0]; [now eexists|]. cbn [nonempty].
    destruct (nonempty_snoc (a :: l0) ltac:(discriminate)) as (l' & x & E). rewrite E in *.
    rewrite Hb, lpop_snoc. cbn [call]. apply IH. rewrite app_length in Hl. cbn in Hl. lia.
Qed.

Notation Wst := (Z * list section * list str * list (list str) * option str)%type.

Theorem py_detect_keyboard_walk_eq_total : forall pw,
  exists dk, py pw 4 = Some (fst (match model (length pw) pw with Some r => r | None => ([], []) end),
                             snd (match model (length pw) pw with Some r => r | None => ([], []) end), dk) /\
             model (length pw) pw <> None.
Proof.
  intros pw. destruct (model_total pw) as (r & Er). rewrite Er. cbn [fst snd].
  unfold py_detect_keyboard_walk. cbv zeta.
  match goal with |- context [while_ _ (4, _, _, _, _) ?c ?b] => set (wcond := c); set (wbody := b) end.
  (* the loop over the walks, for every number of walks the model's fuel allows *)
  assert (W : forall n pw0 sl fl dpp r0, model n pw0 = Some r0 -> forall fuel, (n < fuel)%nat ->
    exists dpp', while_ (R := list section * list str * list str) (L' := Empty_set) fuel (4, sl, fl, dpp, Some pw0) wcond wbody =
                 Next (4, sl ++ fst r0, fl ++ snd r0, dpp', None) /\
                 (length dpp < length dpp' <= length dpp + S n)%nat).
  { clear. induction n as [|n IH]; intros pw0 sl fl dpp r0 Em fuel Hf; (destruct fuel as [|fu]; [lia|]);
      rewrite model_unfold in Em; cbn [while_]; unfold wcond at 1; cbn [is_none negb]; unfold wbody at 1; cbn [call];
      destruct (py_detect_first_keyboard_walk_eq pw0) as (Ef & _);
      destruct (kw_first pw0) as [[[s f] rem]|]; try discriminate;
      destruct (first pw0 4) as [[[[s' f'] dk] rem']|]; try discriminate;
      cbn [option_map fst snd] in Ef; injection Ef as -> -> ->; cbn [call]; unfold extend, append.
    - destruct rem as [rest|]; [discriminate|]. injection Em as <-. cbn [fst snd].
      exists (dpp ++ [dk]). split; [|rewrite app_length; cbn; lia].
      destruct fu; cbn [while_]; reflexivity.
    - destruct rem as [rest|].
      + destruct (model n rest) as [[secs found]|] eqn:En; [|discriminate]. injection Em as <-. cbn [fst snd].
        destruct (IH rest (sl ++ s) (fl ++ f) (dpp ++ [dk]) (secs, found) En fu ltac:(lia)) as (dpp' & -> & Hl).
        exists dpp'. cbn [fst snd]. rewrite <- !app_assoc. split; [reflexivity|]. rewrite app_length in Hl. cbn in Hl. lia.
      + injection Em as <-. cbn [fst snd]. exists (dpp ++ [dk]). split; [|rewrite app_length; cbn; lia].
        destruct fu; cbn [while_]; reflexivity. }
  destruct (W (length pw) pw [] [] [] r Er (S (length pw)) ltac:(lia)) as (dpp' & Ew & Hl).
  cbn [app] in Ew.
  match goal with |- context [@while_ ?R0 ?L0 ?L1 ?f ?st wcond wbody] =>
    replace (@while_ R0 L0 L1 f st wcond wbody) with (@Next R0 L1 L0 (4, fst r, snd r, dpp', @None str))
      by (symmetry; exact Ew) end.
  cbn [bind].
  destruct (nonempty_snoc dpp' ltac:(destruct dpp'; [cbn in Hl; lia|discriminate])) as (l' & x & ->).
  rewrite lpop_snoc. cbn [call].
  match goal with |- context [@while_ ?R0 ?L0 ?L1 ?f ?st ?c ?b] =>
    destruct (@fold_loop_total R0 L1 c b ltac:(reflexivity) ltac:(reflexivity) f l' x) as (dk' & Ed);
    [|replace (@while_ R0 L0 L1 f st c b) with (@Next R0 L1 L0 (dk', @nil (list str))) by (symmetry; exact Ed)] end.
  - rewrite app_length in Hl. cbn in Hl. lia.
  - cbn [bind run]. exists dk'. split; [reflexivity|discriminate].
Qed.

(* detect_keyboard_walk with the default min_keyboard_run: the model's answer (with the
   fuel the model needs), whatever the length of the password *)
Theorem py_detect_keyboard_walk_eq : forall pw, kw_view (py pw 4) = model (length pw) pw.
Proof.
  intros pw. destruct (py_detect_keyboard_walk_eq_total pw) as (dk & -> & Hm).
  destruct (model (length pw) pw) as [[sl f]|]; [reflexivity|congruence].
Qed.

(* R24: the translated function never raises and its loops never run out of the fuel the
   translation gives them (one more than the length of the password), for EVERY password *)
Theorem py_detect_keyboard_walk_total : forall pw, py pw 4 <> None.
Proof. intros pw. destruct (py_detect_keyboard_walk_eq_total pw) as (dk & -> & _). discriminate. Qed.

End Walk.
