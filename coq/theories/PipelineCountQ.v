(* PipelineCountQ.v - "the probabilities of all emitted guesses sum to 1" with
   every pre-terminal weighted by the number of guesses the guesser really
   prints for it (exact rationals, same pipeline). *)
From Coq Require Import String List NArith ZArith QArith Bool Lia Sorting.Permutation.
From Pcfg Require Import ProbAlg QProb Str Detect Segment TextFile Counters Loader Next NextSpec NextProofs QSum Expand
     DetectProofsDrive DetectProofsPipe Pipeline PipelineStr PipelineTrain PipelineLoad PipelineProofs PipelineQ PipelineCount.
Import ListNotations.
Local Open Scope nat_scope.

Section CountQ.
Variable E : env.
Hypothesis HE : env_ok E.

Lemma train_all_facts (o : options QProb) raw tr : train E o raw = Some tr ->
  exists rs, tr = trained_of E o raw rs /\ Forall (parsed_ok E) rs /\ Forall (fun r => p_sections r <> []) rs /\
    forall pw, In pw raw -> accepted_pw E pw = true -> exists r, In r rs /\ segments E o raw pw = POk r.
Proof.
  intros H. destruct (train_inv E o raw tr H) as (rs & HF & _ & Etr). exists rs. split; [exact Etr|].
  destruct (train_sections_nonempty E HE o raw tr H) as (rs' & Etr' & Hrs' & Hsecs').
  assert (Hall : Forall (fun pw => pw <> []) (train_pws E raw)).
  { apply Forall_forall. intros pw Hpw. apply filter_In in Hpw. apply (accepted_nonempty E pw (ok_rej_empty E HE)). tauto. }
  assert (Hboth : Forall (parsed_ok E) rs /\ Forall (fun r => p_sections r <> []) rs).
  { clear -HE HF Hall. induction HF as [|pw r pws rs Hpr _ IH]; [split; constructor|]. inversion Hall as [|? ? Hne Hall']; subst.
    destruct (IH Hall') as (I1 & I2).
    destruct (parse_pw_facts E HE (train_map E o raw) pw Hne) as (r' & Er' & Ht & Hok).
    assert (r' = r) by congruence. subst r'. split; constructor; try assumption.
    intros Hnil. rewrite Hnil in Ht. apply tiles_nil_inv in Ht. contradiction. }
  destruct Hboth as (H1 & H2). split; [assumption|]. split; [assumption|].
  intros pw Hin Hacc. destruct (train_parsed E o raw rs pw HF Hin Hacc) as (r & Hr & Er). exists r. now split.
Qed.

Theorem C03_sum_one_guesses_Q (o : options QProb) raw tr pw :
  train E o raw = Some tr -> In pw raw -> accepted_pw E pw = true -> supported_pw E o raw pw = true -> cov_ok o ->
  exists L, pipeline_Q E o raw = Some L /\
    forall pop, pop_ok_okb pop ->
      (forall it, In it (session pop L) -> exists out, guesses_of RQ E L it = Some (out, length out)) /\
      (Qsum (map (fun it : Qitem => iprob it * Qn (nguesses RQ E L it))
                 (emitted (run pop (l_rs L) (NextSpec.total (l_rs L)) (start (l_rs L))))) == 1)%Q.
Proof.
  intros Htr Hin Hacc Hsup Hcov.
  destruct (PipelineQ.C03_sum_one_Q E HE o raw tr pw Htr Hin Hacc Hsup Hcov) as (L & HL & Hsum).
  exists L. split; [exact HL|]. intros pop Hpop.
  destruct (train_all_facts o raw tr Htr) as (rs & Etr & Hrs & Hsecs & Hpw).
  destruct (Hpw pw Hin Hacc) as (r & Hr & Eseg).
  assert (Hrsup : r_supported r = true).
  { unfold supported_pw in Hsup. rewrite Eseg in Hsup. rewrite Forall_forall in Hrs. destruct (Hrs r Hr) as (_ & _ & Hc).
    destruct Hc as (_ & _ & _ & _ & _ & _ & _ & _ & _ & _ & _ & Hps & _). rewrite Hps in Hsup. exact Hsup. }
  subst tr.
  pose proof (no_zero_div_Q E HE o raw rs r Hcov Hrs Hr Hrsup) as Hz.
  destruct (load_saved RQ E HE o raw rs Hrs Hz) as (bl & Hload & HF).
  unfold pipeline_Q, pipeline in HL. rewrite Htr in HL. rewrite Hload in HL. injection HL as <-.
  pose proof (loaded_wf_Q E HE o raw rs r bl Hcov Hrs Hr Hrsup HF) as Hwf.
  match goal with |- context [nguesses RQ E ?L0 _] => set (LL := L0) in * end.
  destruct (C02_exactly_once_okb (l_rs LL) Hwf pop Hpop) as (Hperm & _).
  assert (Hall : forall it, In it (emitted (run pop (l_rs LL) (NextSpec.total (l_rs LL)) (start (l_rs LL)))) ->
            exists out, guesses_of RQ E LL it = Some (out, length out) /\
                        length out = count_pt_nat (sizes_of (l_grammar LL)) (ipt it)).
  { intros it Hit. apply (preterminal_count RQ E HE rs Hrs Hsecs o raw bl it HF).
    eapply Permutation_in; [exact Hperm|exact Hit]. }
  split.
  - intros it Hit. unfold session in Hit. rewrite <- in_rev in Hit. destruct (Hall it Hit) as (out & Hg & _). now exists out.
  - etransitivity; [|apply Hsum; exact Hpop]. apply Qsum_map_ext_in. intros it Hit.
    destruct (Hall it Hit) as (out & Hg & Hlen). unfold nguesses. rewrite Hg, Hlen. unfold count_it.
    rewrite count_pt_nat_Q. reflexivity.
Qed.

End CountQ.

Print Assumptions C03_sum_one_guesses_Q.
