(* Model of the weighted random walk used by honeyword / random_walk mode
     lib_guesser/pcfg_grammar.py  random_walk (989-1035), _honeyword_recursive_guess (314-420)
     lib_guesser/honeyword_session.py run (47-88)
   as a function of the uniform draws.  The selection function is generic in
   the number type: it is run on binary64 for the correspondence and reasoned
   about over Q for the probability statement. *)
From Coq Require Import List Arith Bool QArith Lia.
Import ListNotations.
Close Scope Q_scope.

Section Select.
Context {T : Type} (zero : T) (add : T -> T -> T) (leb : T -> T -> bool).

(* "cur_prob += w; if cur_prob >= target: select, break" *)
Fixpoint select_from (ws : list T) (u : T) (acc : T) (i : nat) : option nat :=
  match ws with
  | [] => None
  | w :: r => let acc' := add acc w in
              if leb u acc' then Some i else select_from r u acc' (S i)
  end.
Definition select (ws : list T) (u : T) : option nat := select_from ws u zero 0.

(* the running sums exactly as the loop computes them (left to right) *)
Fixpoint cums_from (ws : list T) (acc : T) : list T :=
  match ws with
  | [] => []
  | w :: r => let acc' := add acc w in acc' :: cums_from r acc'
  end.
Definition cums (ws : list T) : list T := cums_from ws zero.

(* for ANY number type: the selected index is the first whose running sum
   reaches the draw.  (This is the exact description of the float version.) *)
Lemma select_from_first ws u acc i k :
  select_from ws u acc i = Some k <->
  exists j, k = i + j /\ j < length ws /\
            leb u (nth j (cums_from ws acc) zero) = true /\
            forall j', j' < j -> leb u (nth j' (cums_from ws acc) zero) = false.
Proof.
  revert acc i k. induction ws as [|w r IH]; intros acc i k; simpl.
  - split; [discriminate|]. intros (j & _ & Hj & _). lia.
  - destruct (leb u (add acc w)) eqn:E.
    + split.
      * intros H. inversion H; subst. exists 0. repeat split; auto; try lia.
      * intros (j & -> & Hj & Hle & Hfirst). destruct j as [|j]; [f_equal; lia|].
        specialize (Hfirst 0 ltac:(lia)). simpl in Hfirst. congruence.
    + rewrite IH. split.
      * intros (j & -> & Hj & Hle & Hfirst). exists (S j).
        split; [lia|]. split; [lia|]. split; [simpl; exact Hle|].
        intros [|j'] Hj'; simpl; auto. apply Hfirst. lia.
      * intros (j & -> & Hj & Hle & Hfirst). destruct j as [|j]; [simpl in Hle; congruence|].
        exists j. split; [lia|]. split; [lia|]. split; [simpl in Hle; exact Hle|].
        intros j' Hj'. apply (Hfirst (S j')). lia.
Qed.

Theorem select_first ws u k :
  select ws u = Some k <->
  k < length ws /\ leb u (nth k (cums ws) zero) = true /\
  forall j, j < k -> leb u (nth j (cums ws) zero) = false.
Proof.
  unfold select, cums. rewrite select_from_first. split.
  - intros (j & -> & H1 & H2 & H3). simpl. auto.
  - intros (H1 & H2 & H3). exists k. auto.
Qed.

Lemma select_from_none ws u acc i :
  select_from ws u acc i = None <->
  forall j, j < length ws -> leb u (nth j (cums_from ws acc) zero) = false.
Proof.
  revert acc i. induction ws as [|w r IH]; intros acc i; simpl.
  - split; auto. intros _ j Hj. lia.
  - destruct (leb u (add acc w)) eqn:E.
    + split; [discriminate|]. intros H. specialize (H 0 ltac:(lia)). simpl in H. congruence.
    + rewrite IH. split.
      * intros H [|j] Hj; simpl; auto. apply H. lia.
      * intros H j Hj. apply (H (S j)). lia.
Qed.

Theorem select_none ws u :
  select ws u = None <-> forall j, j < length ws -> leb u (nth j (cums ws) zero) = false.
Proof. unfold select, cums. apply select_from_none. Qed.
End Select.

(* ---------- the walk: base structure, then one group per position ---------- *)
Section Walk.
Context {T : Type} (zero : T) (add mul : T -> T -> T) (leb : T -> T -> bool) (ofnat : nat -> T).

(* grammar as the sampler sees it: per variable the groups (probability, size) *)
Definition hgroup := (T * nat)%type.
Record hgrammar := { hbases : list (T * list nat); htable : list (list hgroup) }.

Definition weights (gs : list hgroup) : list T := map (fun g => mul (fst g) (ofnat (snd g))) gs.

(* draws: one for the base structure, one per position.  None = no structure
   selected (the code then has an empty parse tree and create_guesses raises).
   [fallback] = the index used for a position when no group is selected:
   Consts_gen.walk_fallback_last says whether the code falls back to the LAST
   group (repaired) or leaves the initial index 0 (as found). *)
Definition pick_group (fallback_last : bool) (gs : list hgroup) (u : T) : nat :=
  match select zero add leb (weights gs) u with
  | Some i => i
  | None => if fallback_last then length gs - 1 else 0
  end.

Fixpoint walk_positions (fallback_last : bool) (g : hgrammar) (vars : list nat) (us : list T) : list (nat * nat) :=
  match vars, us with
  | v :: vr, u :: ur => (v, pick_group fallback_last (nth v (htable g) []) u) :: walk_positions fallback_last g vr ur
  | _, _ => []
  end.

Definition random_walk (fallback_last : bool) (g : hgrammar) (u0 : T) (us : list T) : option (list (nat * nat)) :=
  match select zero add leb (map fst (hbases g)) u0 with
  | Some b => Some (walk_positions fallback_last g (snd (nth b (hbases g) (zero, []))) us)
  | None => if fallback_last
            then match hbases g with
                 | [] => None
                 | _ => Some (walk_positions fallback_last g (snd (last (hbases g) (zero, []))) us)
                 end
            else None
  end.
End Walk.

(* ---------- exact arithmetic: each index owns an interval of its weight ---------- *)
Definition Qsel := @select Q 0%Q Qplus Qle_bool.
Definition Qcums := @cums Q 0%Q Qplus.

Open Scope Q_scope.

Lemma Qcums_mono ws : Forall (fun w => 0 <= w) ws ->
  forall acc i j, (i <= j)%nat -> (j < length ws)%nat ->
  nth i (cums_from Qplus ws acc) 0 <= nth j (cums_from Qplus ws acc) 0.
Proof.
  induction 1 as [|w r Hw Hr IH]; intros acc i j Hij Hj; simpl in *; [lia|].
  destruct j as [|j]; [assert (i = 0)%nat by lia; subst; simpl; apply Qle_refl|].
  destruct i as [|i]; [|apply IH; lia].
  destruct r as [|w2 r2]; [simpl in Hj; lia|].
  apply Qle_trans with (nth 0 (cums_from Qplus (w2 :: r2) (acc + w)) 0).
  - simpl. inversion Hr; subst. rewrite <- (Qplus_0_r (acc + w)) at 1. apply Qplus_le_r. assumption.
  - apply IH; simpl in *; lia.
Qed.

(* the interval statement: with non-negative weights, index k is selected
   exactly for the draws in (cum_{k-1}, cum_k], whose length is the weight *)
Theorem select_interval_Q ws u k :
  (k < length ws)%nat -> Forall (fun w => 0 <= w) ws ->
  (Qsel ws u = Some k <->
   (u <= nth k (Qcums ws) 0) /\ (k = 0%nat \/ nth (k - 1) (Qcums ws) 0 < u)).
Proof.
  intros Hk Hpos. unfold Qsel, Qcums. rewrite select_first. unfold cums.
  pose proof (Qcums_mono ws Hpos 0) as Hmono.
  split.
  - intros (_ & H1 & H2). split; [apply Qle_bool_iff; exact H1|].
    destruct k as [|k]; [left; reflexivity|right].
    simpl. rewrite Nat.sub_0_r. specialize (H2 k ltac:(lia)).
    apply Qnot_le_lt. intros Hc. apply Qle_bool_iff in Hc. congruence.
  - intros (H1 & H2). split; [exact Hk|]. split; [apply Qle_bool_iff; exact H1|].
    intros j Hj. destruct H2 as [->|H2]; [lia|].
    destruct (Qle_bool u (nth j (cums_from Qplus ws 0) 0)) eqn:E; auto. exfalso.
    apply Qle_bool_iff in E.
    assert (nth j (cums_from Qplus ws 0) 0 <= nth (k - 1) (cums_from Qplus ws 0) 0) by (apply Hmono; lia).
    apply (Qlt_irrefl u). eapply Qle_lt_trans; [exact E|]. eapply Qle_lt_trans; [exact H|exact H2].
Qed.

(* the k-th running sum is the previous one plus the k-th weight: the interval
   of index k has exactly the length of its weight *)
Theorem interval_length_Q ws acc k : (S k < length ws)%nat ->
  nth (S k) (cums_from Qplus ws acc) 0 == nth k (cums_from Qplus ws acc) 0 + nth (S k) ws 0.
Proof.
  revert acc k. induction ws as [|w r IH]; intros acc k Hk; simpl in *; [lia|].
  destruct r as [|w2 r2]; [simpl in Hk; lia|].
  destruct k as [|k]; [simpl; reflexivity|].
  apply (IH (acc + w) k). simpl in *. lia.
Qed.

Close Scope Q_scope.

(* ---------- the honeyword loop: stops right after the N-th word ---------- *)
(* each iteration yields 0 or 1 word (Markov structures yield none); the loop
   subtracts and stops at <= 0 *)
Fixpoint honey_loop (iters : list (list nat)) (limit : nat) : list nat :=
  match limit with
  | O => concat iters            (* `if limit:` false: never stops by itself *)
  | S _ =>
    match iters with
    | [] => []
    | w :: r => w ++ (if Nat.leb limit (length w) then [] else honey_loop r (limit - length w))
    end
  end.

Theorem honey_exactly_N iters n :
  n >= 1 -> Forall (fun w => length w <= 1) iters -> length (concat iters) >= n ->
  honey_loop iters n = firstn n (concat iters) /\ length (honey_loop iters n) = n.
Proof.
  intros Hn Hall Hlen.
  assert (H : honey_loop iters n = firstn n (concat iters)).
  { revert n Hn Hlen. induction iters as [|w r IH]; intros n Hn Hlen; simpl in *; [lia|].
    destruct n as [|n]; [lia|]. inversion Hall as [|? ? Hw Hr]; subst.
    destruct w as [|x [|y w]]; simpl in *; try lia.
    - rewrite (IH Hr (S n)) by (simpl; lia). reflexivity.
    - destruct n as [|n]; simpl.
      + reflexivity.
      + rewrite (IH Hr (S n)) by (simpl in *; lia). reflexivity. }
  split; auto. rewrite H. rewrite firstn_length. lia.
Qed.
