(* Runtime of gen/Cli_gen.v, the translation of pcfg_guesser.py (parse_command_line, main,
   create_save_config, load_save) that harness/translate_cli.py writes on every run.
   Definitions only.

   A statement sequence is a value of [M R A]: a function of the world that falls through
   with the variables live afterwards ([Norm]), executes `return r` ([Retn]) or raises
   ([Exc]); `s1; s2` is [bind].  The world holds the one dict the program mutates in place
   (program_info; every function that receives it receives THE object) and the log of the
   calls that matter ([event]).  Writes to sys.stderr and print_banner() are no-ops ([print_err],
   [ext_banner]); a print without file=sys.stderr logs [EStdout].  The Python values, argparse
   and configparser are those of CliModel.v. *)
From Coq Require Import List NArith ZArith Bool String.
From Pcfg Require Import Str CliModel.
Import ListNotations.

Record world := { w_pi : dict; w_log : list event }.

Inductive ctl (R A : Type) : Type :=
| Norm (a : A)
| Retn (r : R)
| Exc (e : exn).
Arguments Norm {R A} a.
Arguments Retn {R A} r.
Arguments Exc {R A} e.

Definition M (R A : Type) : Type := world -> ctl R A * world.

Definition ret {R A : Type} (a : A) : M R A := fun w => (Norm a, w).
Definition return_ {R A : Type} (r : R) : M R A := fun w => (Retn r, w).
Definition raise {R A : Type} (e : exn) : M R A := fun w => (Exc e, w).
Definition bind {R A B : Type} (m : M R A) (k : A -> M R B) : M R B :=
  fun w => match m w with
           | (Norm a, w') => k a w'
           | (Retn r, w') => (Retn r, w')
           | (Exc e, w') => (Exc e, w')
           end.

(* the except clauses the source uses *)
Inductive exn_class :=
| CAll            (* except:  /  except BaseException *)
| CException      (* except Exception *)
| CIOError        (* except IOError / OSError *)
| CConfigError.   (* except configparser.Error *)

Definition exn_matches (c : exn_class) (e : exn) : bool :=
  match c, e with
  | CAll, _ => true
  | CException, SystemExit => false
  | CException, _ => true
  | CIOError, IOError => true
  | CConfigError, ConfigError => true
  | _, _ => false
  end.

Fixpoint find_handler {X : Type} (e : exn) (hs : list (exn_class * X)) : option X :=
  match hs with
  | [] => None
  | (c, h) :: r => if exn_matches c e then Some h else find_handler e r
  end.

(* try: body / except C1: h1 / except C2: h2 ...   What the body did to the world before it
   raised stays done; the handlers see the variables as they were before the try. *)
Definition try_catch {R A : Type} (body : M R A) (hs : list (exn_class * M R A)) : M R A :=
  fun w => match body w with
           | (Exc e, w') => match find_handler e hs with
                            | Some h => h w'
                            | None => (Exc e, w')
                            end
           | r => r
           end.

(* the call of a translated function: its `return v` is the value of the call; falling off
   the end is the [Norm] value the translator put there (None) *)
Definition call {R : Type} (f : M pyval pyval) : M R pyval :=
  fun w => match f w with
           | (Norm a, w') => (Norm a, w')
           | (Retn a, w') => (Norm a, w')
           | (Exc e, w') => (Exc e, w')
           end.

(* what the caller of main() sees *)
Definition run_main (f : M pyval pyval) (w : world) : main_end * list event :=
  match f w with
  | (Exc e, w') => (MRaise e, w_log w')
  | (_, w') => (MDone, w_log w')
  end.

Definition world0 : world := {| w_pi := []; w_log := [] |}.

(* ---------------------------------------------------------------- output, collaborators *)

Definition print_err {R : Type} : M R unit := ret tt.
Definition ext_banner {R : Type} : M R unit := ret tt.
Definition log_event {R : Type} (e : event) : M R unit :=
  fun w => (Norm tt, {| w_pi := w_pi w; w_log := w_log w ++ [e] |}).
Definition print_out {R : Type} : M R unit := log_event EStdout.

(* PcfgGrammar(...) *)
Definition new_grammar {R : Type} (E : env) (gc : gcall) : M R gobj :=
  bind (log_event (EGrammar gc))
       (fun _ => match e_grammar E gc with
                 | Some u => ret {| g_call := gc; g_uuid := u |}
                 | None => raise ExternalError    (* whatever PcfgGrammar raises *)
                 end).

Definition crack_run {R : Type} (s : crack_obj) (load_session limit : pyval) : M R pyval :=
  bind (log_event (ECrackRun s load_session limit)) (fun _ => ret VNone).
Definition honey_run {R : Type} (s : honey_obj) (limit : pyval) : M R pyval :=
  bind (log_event (EHoneyRun s limit)) (fun _ => ret VNone).

(* os.path.join(os.path.dirname(os.path.realpath(__file__)), a, b ...) *)
Fixpoint all_strs (l : list pyval) : option (list str) :=
  match l with
  | [] => Some []
  | VStr s :: r => option_map (cons s) (all_strs r)
  | _ :: _ => None
  end.
Definition script_path {R : Type} (E : env) (parts : list pyval) : M R pyval :=
  match all_strs parts with
  | Some l => ret (VStr (e_pjoin E (e_script_dir E :: l)))
  | None => raise TypeError
  end.

(* os.path.join(a, b, ...): the oracle on the component strings *)
Definition path_join {R : Type} (E : env) (parts : list pyval) : M R pyval :=
  match all_strs parts with
  | Some l => ret (VStr (e_pjoin E l))
  | None => raise TypeError
  end.

(* datetime.datetime.now().isoformat() *)
Definition now_iso {R : Type} (E : env) : M R pyval := ret (VStr (e_now E)).

(* ---------------------------------------------------------------- program_info *)

Definition pi_new {R : Type} (d : dict) : M R unit :=
  fun w => (Norm tt, {| w_pi := d; w_log := w_log w |}).
(* program_info[k] *)
Definition pi_get {R : Type} (k : str) : M R pyval :=
  fun w => match d_get k (w_pi w) with
           | Some v => (Norm v, w)
           | None => (Exc KeyError, w)
           end.
(* program_info[k] = v *)
Definition pi_set {R : Type} (k : str) (v : pyval) : M R unit :=
  fun w => (Norm tt, {| w_pi := d_set k v (w_pi w); w_log := w_log w |}).

(* the dict display {k1: v1, ...}: later keys overwrite earlier ones *)
Definition dict_of (l : list (str * pyval)) : dict := fold_left (fun d kv => d_set (fst kv) (snd kv) d) l [].

(* ---------------------------------------------------------------- operators *)

Definition py_not (v : pyval) : pyval := VBool (negb (py_truthy v)).
Definition py_eq (a b : pyval) : pyval := VBool (py_eqb a b).
Definition py_ne (a b : pyval) : pyval := VBool (negb (py_eqb a b)).
Definition py_is_none (v : pyval) : pyval := match v with VNone => VBool true | _ => VBool false end.
Definition py_is_not_none (v : pyval) : pyval := match v with VNone => VBool false | _ => VBool true end.
(* v in l: membership in a list, substring of a string (other right operands: not modelled, False) *)
Definition py_in (v : pyval) (l : pyval) : pyval :=
  match l, v with
  | VList l, _ => VBool (py_in_list v l)
  | VStr s, VStr x => VBool (contains s x)
  | _, _ => VBool false
  end.

Definition num_of (v : pyval) : option Z :=
  match v with
  | VInt z => Some z
  | VBool b => Some (z_of_bool b)
  | _ => None
  end.
Definition py_cmp {R : Type} (f : Z -> Z -> bool) (a b : pyval) : M R pyval :=
  match num_of a, num_of b with
  | Some x, Some y => ret (VBool (f x y))
  | _, _ => raise TypeError
  end.
Definition py_le {R : Type} := @py_cmp R Z.leb.
Definition py_lt {R : Type} := @py_cmp R Z.ltb.
Definition py_ge {R : Type} := @py_cmp R Z.geb.
Definition py_gt {R : Type} := @py_cmp R Z.gtb.

(* a + b on strings (the only use in the source) *)
Definition py_add {R : Type} (a b : pyval) : M R pyval :=
  match a, b with
  | VStr x, VStr y => ret (VStr (str_app x y))
  | VInt x, VInt y => ret (VInt (x + y))
  | _, _ => raise TypeError
  end.

(* str(v) *)
Definition py_str {R : Type} (v : pyval) : M R pyval :=
  match v with
  | VStr s => ret (VStr s)
  | VBool b => ret (VStr (str_of_bool b))
  | VNone => ret (VStr (lit "None"))
  | _ => raise NotModelled
  end.

(* ---------------------------------------------------------------- argparse *)

(* parser.add_argument(...) *)
Definition ap_add_argument {R : Type} (p : parser) (o : ap_opt) : M R parser :=
  match ap_add p o with
  | Some p' => ret p'
  | None => raise ArgumentError
  end.

Definition mk_opt (flags : list str) (dest : option str) (action : ap_action) (is_int : bool)
           (dflt const : pyval) (choices : option pyval) : ap_opt :=
  {| ao_flags := flags; ao_dest := match dest with Some d => d | None => ap_infer_dest flags end;
     ao_action := action; ao_int := is_int; ao_default := dflt; ao_const := const; ao_choices := choices |}.

(* parser.parse_args() *)
Definition ap_parse_args {R : Type} (E : env) (p : parser) : M R dict :=
  match ap_parse (e_int_of E) p (e_argv E) with
  | Some ns => ret ns
  | None => raise SystemExit
  end.

(* args.name *)
Definition ns_attr {R : Type} (ns : dict) (k : str) : M R pyval :=
  match d_get k ns with
  | Some v => ret v
  | None => raise AttributeError
  end.

(* ---------------------------------------------------------------- configparser *)

Definition cfg_new {R : Type} : M R pyval := ret (VCfg []).

Definition with_cfg {R A : Type} (v : pyval) (k : config -> M R A) : M R A :=
  match v with
  | VCfg c => k c
  | _ => raise AttributeError
  end.

(* cfg.read_file(open(name)) *)
Definition cfg_read_file {R : Type} (E : env) (v name : pyval) : M R pyval :=
  with_cfg v (fun c =>
    match name with
    | VStr n => match e_fs E n with
                | FMissing => raise IOError
                | FGarbage => raise ConfigError
                | FCfg c' => match c with
                             | [] => ret (VCfg c')
                             | _ :: _ => raise NotModelled      (* reading into a config that is not empty *)
                             end
                end
    | _ => raise TypeError
    end).

(* cfg.has_option(sec, key) *)
Definition cfg_has {R : Type} (v sec key : pyval) : M R pyval :=
  with_cfg v (fun c => match sec, key with
                       | VStr s, VStr k => ret (VBool (cfg_has_option s k c))
                       | _, _ => raise NotModelled
                       end).
(* cfg.get(sec, key): NoSectionError / NoOptionError are configparser.Error *)
Definition cfg_get {R : Type} (v sec key : pyval) : M R pyval :=
  with_cfg v (fun c => match sec, key with
                       | VStr s, VStr k => match cfg_lookup s k c with
                                           | Some x => ret (VStr x)
                                           | None => raise ConfigError
                                           end
                       | _, _ => raise NotModelled
                       end).
(* cfg.getboolean(sec, key) *)
Definition cfg_getboolean {R : Type} (v sec key : pyval) : M R pyval :=
  bind (cfg_get v sec key)
       (fun x => match x with
                 | VStr s => match boolean_of s with
                             | Some b => ret (VBool b)
                             | None => raise ValueError
                             end
                 | _ => raise NotModelled
                 end).
(* cfg[sec][key]: KeyError *)
Definition cfg_item2 {R : Type} (v sec key : pyval) : M R pyval :=
  with_cfg v (fun c => match sec, key with
                       | VStr s, VStr k => match cfg_lookup s k c with
                                           | Some x => ret (VStr x)
                                           | None => raise KeyError
                                           end
                       | _, _ => raise NotModelled
                       end).
(* cfg.add_section(sec): the new state of the object *)
Definition cfg_m_add_section {R : Type} (v sec : pyval) : M R pyval :=
  with_cfg v (fun c => match sec with
                       | VStr s => match cfg_add_section s c with
                                   | Some c' => ret (VCfg c')
                                   | None => raise ConfigError
                                   end
                       | _ => raise TypeError
                       end).
(* cfg.set(sec, key, value): option values must be strings *)
Definition cfg_m_set {R : Type} (v sec key x : pyval) : M R pyval :=
  with_cfg v (fun c => match sec, key with
                       | VStr s, VStr k =>
                         match x with
                         | VStr xs => match cfg_set s k xs c with
                                      | Some c' => ret (VCfg c')
                                      | None => raise ConfigError
                                      end
                         | _ => raise TypeError
                         end
                       | _, _ => raise NotModelled
                       end).
