(* The multi-word detector (Multiword.v): what parse returns, for every
   detector state, and that the recursion never runs out of fuel. *)
From Coq Require Import List ZArith NArith Bool Lia.
From Pcfg Require Import Str Multiword DetectProofsStr.
Import ListNotations.
Open Scope Z_scope.

Section Mw.
Variable lower_c : N -> str.
Variables threshold min_len max_len : Z.
Hypothesis min_len_pos : 1 <= min_len.

Notation count := (mw_count lower_c).
Notation identify := (mw_identify lower_c threshold min_len).
Notation loop := (mw_loop lower_c threshold).
Notation mparse := (mw_parse lower_c threshold min_len max_len).

(* a base word: seen at least threshold times, at least min_len letters *)
Definition base_word (m : mwmap) (w : str) : Prop := threshold <= count m w /\ min_len <= len w.

Definition multi_ok (m : mwmap) (s : str) (ws : list str) : Prop :=
  concat ws = s /\ Forall (base_word m) ws /\ (2 <= length ws)%nat.

Lemma loop_spec rec m s :
  (forall t ws, rec t = Some (Some ws) -> multi_ok m t ws) ->
  forall n index ws, Z.of_nat n = index - min_len + 1 -> index <= len s - min_len ->
  loop rec m s n index = Some (Some ws) -> multi_ok m s ws.
Proof.
  intros Hrec. induction n as [|n IH]; intros index ws Hn Hi H; simpl in H; [discriminate|].
  assert (Hidx : min_len <= index) by lia.
  assert (Hcut : slice s 0 index ++ sfrom s index = s) by (apply slice_cut2; lia).
  assert (Hl1 : len (slice s 0 index) = index) by (rewrite slice_len; lia).
  assert (Hl2 : len (sfrom s index) = len s - index) by (apply sfrom_len; lia).
  destruct (threshold <=? count m (slice s 0 index)) eqn:E1.
  - apply Z.leb_le in E1. destruct (threshold <=? count m (sfrom s index)) eqn:E2.
    + apply Z.leb_le in E2. injection H as <-. unfold multi_ok. simpl. rewrite app_nil_r.
      split; [assumption|]. split; [|lia].
      repeat constructor; unfold base_word; lia.
    + destruct (rec (sfrom s index)) as [[[|x res]|]|] eqn:Er; try discriminate.
      * apply (IH (index - 1)); [lia|lia|assumption].
      * injection H as <-. destruct (Hrec _ _ Er) as (Hc & Hf & Hlen).
        unfold multi_ok. simpl in *. rewrite Hc. split; [assumption|]. split; [|lia].
        constructor; [unfold base_word; lia|assumption].
      * apply (IH (index - 1)); [lia|lia|assumption].
  - apply (IH (index - 1)); [lia|lia|assumption].
Qed.

Lemma identify_spec : forall fuel m s ws, identify fuel m s = Some (Some ws) -> multi_ok m s ws.
Proof.
  induction fuel as [|f IH]; intros m s ws H; simpl in H; [discriminate|].
  destruct (Z_le_gt_dec (min_len - 1) (len s - min_len)).
  - eapply loop_spec; [intros t ws' Ht; eapply IH; eassumption| | |exact H]; lia.
  - replace (Z.to_nat (len s - min_len - (min_len - 1))) with O in H by lia. discriminate.
Qed.

Lemma loop_fuel rec m s :
  (forall t, len t < len s -> rec t <> None) ->
  forall n index, Z.of_nat n = index - min_len + 1 -> index <= len s - min_len ->
  loop rec m s n index <> None.
Proof.
  intros Hrec. induction n as [|n IH]; intros index Hn Hi; simpl; [discriminate|].
  assert (Hl2 : len (sfrom s index) = len s - index) by (apply sfrom_len; lia).
  destruct (threshold <=? count m (slice s 0 index)); [|apply IH; lia].
  destruct (threshold <=? count m (sfrom s index)); [discriminate|].
  destruct (rec (sfrom s index)) as [[[|x res]|]|] eqn:Er; try discriminate; try (apply IH; lia).
  exfalso. apply (Hrec (sfrom s index)); [lia|assumption].
Qed.

Lemma identify_fuel : forall fuel m s, (length s < fuel)%nat -> identify fuel m s <> None.
Proof.
  induction fuel as [|f IH]; intros m s Hf; [lia|]. simpl.
  destruct (Z_le_gt_dec (min_len - 1) (len s - min_len)).
  - apply loop_fuel; [|lia|lia]. intros t Ht. apply IH. unfold len in Ht. lia.
  - replace (Z.to_nat (len s - min_len - (min_len - 1))) with O by lia. discriminate.
Qed.

(* parse: either the word itself, or a split into base words of a word that
   is itself not frequent enough -- for EVERY detector state m *)
Theorem mw_parse_spec m s b ws : mparse m s = Some (b, ws) ->
  ws = [s] \/ (multi_ok m s ws /\ count m s < threshold).
Proof.
  unfold mw_parse. intros H.
  destruct (len s <? min_len); [injection H as <- <-; now left|].
  destruct (max_len <=? len s); [injection H as <- <-; now left|].
  destruct (threshold <=? count m s) eqn:Ec; [injection H as <- <-; now left|].
  apply Z.leb_gt in Ec.
  destruct (len s <? min_len * 2); [injection H as <- <-; now left|].
  destruct (identify (S (length s)) m s) as [[[|x res]|]|] eqn:Ei; try discriminate;
    try (injection H as <- <-; now left).
  injection H as <- <-. right. split; [|assumption]. eapply identify_spec; eassumption.
Qed.

Theorem mw_parse_total m s : mparse m s <> None.
Proof.
  unfold mw_parse.
  destruct (len s <? min_len); [discriminate|].
  destruct (max_len <=? len s); [discriminate|].
  destruct (threshold <=? count m s); [discriminate|].
  destruct (len s <? min_len * 2); [discriminate|].
  destruct (identify (S (length s)) m s) as [[[|x res]|]|] eqn:Ei; try discriminate.
  exfalso. revert Ei. apply identify_fuel. lia.
Qed.

Lemma multi_ok_nonempty m s ws : multi_ok m s ws -> Forall (fun w => w <> []) ws.
Proof.
  intros (_ & Hf & _). eapply Forall_impl; [|exact Hf]. intros w (_ & Hl) ->. rewrite len_nil in Hl. lia.
Qed.

Lemma mw_parse_concat m s b ws : mparse m s = Some (b, ws) -> concat ws = s.
Proof.
  intros H. apply mw_parse_spec in H. destruct H as [->|((Hc & _) & _)]; [simpl; apply app_nil_r|assumption].
Qed.

Lemma mw_parse_nonempty m s b ws : s <> [] -> mparse m s = Some (b, ws) -> ws <> [] /\ Forall (fun w => w <> []) ws.
Proof.
  intros Hs H. apply mw_parse_spec in H. destruct H as [->|(Hm & _)].
  - split; [discriminate|]. now constructor.
  - split; [|eapply multi_ok_nonempty; eassumption]. destruct Hm as (_ & _ & Hl). intros ->. simpl in Hl. lia.
Qed.

End Mw.
