(* MarkovSessionFacts.v -- concrete instances of the combined session model
   (binary64): the hypotheses of then_rest / tied_level_repeats are satisfiable
   both without and with a tie at the saved probability, and the tied corner is
   real (the level is printed once more in full).  Proofs by vm_compute. *)
From Coq Require Import List Arith Bool Floats NArith ZArith Lia.
From Pcfg Require Import ProbAlg F64 Next NextSpec NextProofs NextFacts Corr Expand ExpandCorr
                         OmenSpec Omen OmenCorr OmenProofs OmenProofs5 MarkovSession MarkovSessionCorr
                         MarkovSessionProofs.
Import ListNotations.

(* grammar: M -> level 2 (0.5) | level 1 (0.25);  D -> {1,2} (1.0) | {3} (0.375);  E -> {!} (pE)
   base structures: M 0.5, D 0.5, E 0.25;  OMEN model: OmenProofs5.Gex (level 2 has 5 strings).
   Pop order for pE = 0.5:  D0 (.5), M0 (.25), D1 (.1875), M1 (.125), E0 (.125)
             for pE = 1  :  D0 (.5), M0 (.25), E0 (.25),   D1 (.1875), M1 (.125)   <- E0 ties with the level *)
Definition ex_terms : term_table :=
  [[(0, [[50%N]]); (0, [[49%N]])]; [(2, [[49%N]; [50%N]]); (2, [[51%N]])]; [(2, [[33%N]])]].

Definition ex_g (pE : float) : sgram F64 :=
  mk_g (mk_rs [[0x1p-1; 0x1p-2]; [1; 0x1.8p-2]; [pE]]%float
              [(0x1p-1%float, [0]); (0x1p-1%float, [1]); (0x1p-2%float, [2])])
       ex_terms (Gex 10).

Definition ex_up (c : N) : str := [c].
Definition ex_dummy (pE : float) : item F64 := mk (sg_rs (ex_g pE)) 0 [] 0%float.
Definition ex_U (pE : float) : list (item F64) := pops pop_first_max (ex_g pE) 5.
Definition ex_U1 pE := firstn 1 (ex_U pE).
Definition ex_x pE := nth 1 (ex_U pE) (ex_dummy pE).
Definition ex_y pE := nth 2 (ex_U pE) (ex_dummy pE).
Definition ex_U2 pE := skipn 3 (ex_U pE).

(* (vm_compute is only ever applied to goals whose normal form contains no
   [item F64]: reading such a value back normalises the proof fields of F64) *)
Lemma split_at_1 {X} (l : list X) d : 3 <= length l ->
  l = firstn 1 l ++ nth 1 l d :: nth 2 l d :: skipn 3 l.
Proof. destruct l as [|a [|b [|c r]]]; simpl; intros H; try lia. reflexivity. Qed.

Lemma ex_starts e : e <= 1 ->
  mc_starts (ip_at (Gex 10)) (ln_at (Gex 10)) (og_max_level (Gex 10)) e = Some (0, 0).
Proof. intros H. destruct e as [|[|e]]; [reflexivity | reflexivity | lia]. Qed.

(* every hypothesis of then_rest / tied_level_repeats, for a cut after the 2nd
   of the 5 strings of level 2, with pre-terminals before and after the level *)
Definition ex_hypotheses (pE : float) (tied : bool) : Prop :=
  let g := ex_g pE in
  wf (sg_rs g) /\ pop_ok_okb (@pop_first_max F64) /\
  pops pop_first_max g (total (sg_rs g)) = ex_U1 pE ++ ex_x pE :: ex_y pE :: ex_U2 pE /\
  length (ex_U1 pE) = 1 /\ length (ex_U2 pE) = 2 /\
  markov_level g (ipt (ex_x pE)) = Some 2%Z /\
  1 < length (level_strings (sg_omen g) 2%Z) /\
  cache_ok (cp_fast (sg_omen g)) (og_max_level (sg_omen g)) cempty /\
  (forall e, e <= 1 -> mc_starts (ip_at (sg_omen g)) (ln_at (sg_omen g)) (og_max_level (sg_omen g)) e = Some (0, 0)) /\
  peq (iprob (ex_x pE)) (iprob (ex_y pE)) = tied.

Example ex_not_tied : ex_hypotheses 0x1p-1%float false.
Proof.
  unfold ex_hypotheses. cbv zeta.
  split; [apply wfb_wf; vm_compute; reflexivity|].
  split; [exact pop_first_max_ok_partial|].
  split.
  { assert (Ht : total (sg_rs (ex_g 0x1p-1%float)) = 5) by (vm_compute; reflexivity). rewrite Ht.
    apply split_at_1. change (3 <= length (ex_U 0x1p-1%float)).
    assert (Hl : length (ex_U 0x1p-1%float) = 5) by (vm_compute; reflexivity). rewrite Hl. lia. }
  split; [vm_compute; reflexivity|]. split; [vm_compute; reflexivity|].
  split; [vm_compute; reflexivity|].
  split; [vm_compute; repeat constructor|].
  split; [apply cache_ok_empty|].
  split; [exact ex_starts|].
  vm_compute; reflexivity.
Qed.

Example ex_tied : ex_hypotheses 1%float true.
Proof.
  unfold ex_hypotheses. cbv zeta.
  split; [apply wfb_wf; vm_compute; reflexivity|].
  split; [exact pop_first_max_ok_partial|].
  split.
  { assert (Ht : total (sg_rs (ex_g 1%float)) = 5) by (vm_compute; reflexivity). rewrite Ht.
    apply split_at_1. change (3 <= length (ex_U 1%float)).
    assert (Hl : length (ex_U 1%float) = 5) by (vm_compute; reflexivity). rewrite Hl. lia. }
  split; [vm_compute; reflexivity|]. split; [vm_compute; reflexivity|].
  split; [vm_compute; reflexivity|].
  split; [vm_compute; repeat constructor|].
  split; [apply cache_ok_empty|].
  split; [exact ex_starts|].
  vm_compute; reflexivity.
Qed.

(* the two sessions of the model on these instances, run by the kernel *)
Definition ex_sessions (chk : bool) (pE : float) (extra : nat) : option (list str * list str * list pt) :=
  match interrupted ex_up 4 extra chk pop_first_max (ex_g pE) 1 2 cempty with
  | Saved out f =>
      match resumed_session 4 extra false true pop_first_max (ex_g pE) f 10 cempty 10 with
      | Some r => Some (out, resumed_out ex_up true (ex_g pE) r, map (fun it => ipt it) (resumed_pops r))
      | None => None
      end
  | _ => None
  end.

Definition ex_L : list str := level_strings (Gex 10) 2%Z.

(* not tied: the remainder of the level, then exactly the rest of the run *)
Example ex_not_tied_sessions e : e <= 1 ->
  ex_sessions true 0x1p-1%float e =
  Some ([[49%N]; [50%N]] ++ firstn 2 ex_L,
        skipn 2 ex_L ++ skipn (2 + length ex_L) (session_out ex_up pop_first_max (ex_g 0x1p-1%float)),
        [[(1, 1)]; [(0, 1)]; [(2, 0)]]).
Proof. intros H. destruct e as [|[|e]]; [vm_compute; reflexivity | vm_compute; reflexivity | exfalso; clear -H; lia]. Qed.

(* tied: after the remainder the level's own pre-terminal (0,0) is popped again
   and all 5 strings of the level are printed once more *)
Example ex_tied_level_regenerated e : e <= 1 ->
  ex_sessions true 1%float e =
  Some ([[49%N]; [50%N]] ++ firstn 2 ex_L,
        skipn 2 ex_L ++ ex_L ++ skipn (2 + length ex_L) (session_out ex_up pop_first_max (ex_g 1%float)),
        [[(0, 0)]; [(2, 0)]; [(1, 1)]; [(0, 1)]]).
Proof. intros H. destruct e as [|[|e]]; [vm_compute; reflexivity | vm_compute; reflexivity | exfalso; clear -H; lia]. Qed.

(* the quit check in front of the pop, on the NOT tied instance: the saved
   probability is the level's own (0.25) and the level's pre-terminal (0,0) is
   popped again although nothing ties with it *)
Example ex_check_before_pop_regenerates e : e <= 1 ->
  ex_sessions false 0x1p-1%float e =
  Some ([[49%N]; [50%N]] ++ firstn 2 ex_L,
        skipn 2 ex_L ++ ex_L ++ skipn (2 + length ex_L) (session_out ex_up pop_first_max (ex_g 0x1p-1%float)),
        [[(0, 0)]; [(1, 1)]; [(0, 1)]; [(2, 0)]]).
Proof. intros H. destruct e as [|[|e]]; [vm_compute; reflexivity | vm_compute; reflexivity | exfalso; clear -H; lia]. Qed.
