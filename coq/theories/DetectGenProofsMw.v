(* The generated multi-word detector (gen/DetectMw_gen.v: the translation of the
   Python text of MultiWordDetector.train / _get_count / _identify_multi / parse,
   redone on every run) against the hand-written model of Multiword.v that
   C05_sound_multiword is about.

   The Python object keeps its words in a trie of nested dicts (DetectRt2.trie),
   the model in the finite map it represents (Multiword.mwmap: word |-> count).
   [mw_rep t m]: the trie t and the map m give every word the same "count"
   entry.  Then
     _get_count, _identify_multi (for every fuel) and parse on t return what the
       model returns on m, and
     train on t does not raise and leads to a trie that represents the model's
       map after the same call,
   for the per-character oracles isalpha and lower_c any functions.  The empty
   trie represents the empty map, so every state of the detector reachable by
   calls of train is covered. *)
From Coq Require Import List ZArith NArith Bool Lia.
From Pcfg Require Import Str Multiword Detect DetectRt DetectRt2 DetectProofsStr DetectProofsMw DetectGenProofs.
From PcfgGen Require Import DetectMw_gen.
Import ListNotations.
Open Scope Z_scope.

(* ------------------------------------------------------------------ *)
(* strings as keys                                                     *)
(* ------------------------------------------------------------------ *)
Lemma seqb_eq : forall a b : str, str_eqb a b = true <-> a = b.
Proof.
  induction a as [|x a IH]; destruct b as [|y b]; simpl; split; intros H; try reflexivity; try discriminate.
  - apply andb_true_iff in H. destruct H as [H1 H2]. apply N.eqb_eq in H1. apply IH in H2. congruence.
  - injection H as -> ->. rewrite N.eqb_refl. simpl. now apply IH.
Qed.
Lemma seqb_refl a : str_eqb a a = true.
Proof. now apply seqb_eq. Qed.
Lemma seqb_neq a b : str_eqb a b = false <-> a <> b.
Proof. rewrite <- seqb_eq. destruct (str_eqb a b); split; congruence. Qed.

Lemma seqb_sym a b : str_eqb a b = str_eqb b a.
Proof.
  destruct (str_eqb a b) eqn:E; symmetry; [apply seqb_eq in E; subst; apply seqb_refl|].
  apply seqb_neq. apply seqb_neq in E. congruence.
Qed.

Lemma mw_lookup_set m w v k : mw_lookup (mw_set m w v) k = if str_eqb w k then Some v else mw_lookup m k.
Proof.
  induction m as [|[k0 v0] m IH]; cbn [mw_set mw_lookup].
  - reflexivity.
  - destruct (str_eqb k0 w) eqn:E0; cbn [mw_lookup].
    + apply seqb_eq in E0. subst k0. destruct (str_eqb w k); reflexivity.
    + rewrite IH. destruct (str_eqb k0 k) eqn:E1; [|reflexivity].
      apply seqb_eq in E1. subst k0. now rewrite seqb_sym, E0.
Qed.

(* ------------------------------------------------------------------ *)
(* the trie                                                            *)
(* ------------------------------------------------------------------ *)
Lemma kid_get_set_same c v l : kid_get c (kid_set c v l) = Some v.
Proof.
  induction l as [|[k v0] l IH]; cbn [kid_set kid_get].
  - now rewrite N.eqb_refl.
  - destruct (N.eqb k c) eqn:E; cbn [kid_get]; rewrite E; [reflexivity|exact IH].
Qed.

Lemma kid_get_set_other c d v l : d <> c -> kid_get d (kid_set c v l) = kid_get d l.
Proof.
  intros Hd. induction l as [|[k v0] l IH]; cbn [kid_set kid_get].
  - destruct (N.eqb c d) eqn:E; [apply N.eqb_eq in E; congruence|reflexivity].
  - destruct (N.eqb k c) eqn:E; cbn [kid_get].
    + apply N.eqb_eq in E. subst k. destruct (N.eqb c d) eqn:E'; [apply N.eqb_eq in E'; congruence|reflexivity].
    + now rewrite IH.
Qed.

Lemma t_at_app : forall a t b, t_at t (a ++ b) = match t_at t a with Some n => t_at n b | None => None end.
Proof.
  induction a as [|c a IH]; intros t b; cbn [app t_at]; [reflexivity|].
  destruct (kid_get c (t_kids t)); [apply IH|reflexivity].
Qed.

(* q = p ++ r *)
Fixpoint strip (p q : str) : option str :=
  match p, q with
  | [], _ => Some q
  | c :: p', d :: q' => if N.eqb c d then strip p' q' else None
  | _ :: _, [] => None
  end.

Lemma strip_spec : forall p q r, strip p q = Some r <-> q = p ++ r.
Proof.
  induction p as [|c p IH]; intros q r; cbn [strip app].
  - split; congruence.
  - destruct q as [|d q]; [split; discriminate|].
    destruct (N.eqb c d) eqn:E.
    + apply N.eqb_eq in E. subst d. rewrite IH. split; congruence.
    + apply N.eqb_neq in E. split; [discriminate|]. intros H. injection H as H _. congruence.
Qed.

(* the "count" entries after an update of the node at p *)
Lemma t_count_upd f : forall p t q,
  t_count_at (t_upd p f t) q =
  match strip p q, t_at t p with
  | Some r, Some n => t_count_at (f n) r
  | _, _ => t_count_at t q
  end.
Proof.
  induction p as [|c p IH]; intros t q; cbn [t_upd strip t_at]; [reflexivity|].
  destruct (kid_get c (t_kids t)) as [n0|] eqn:Ek.
  - destruct q as [|d q]; [reflexivity|]. unfold t_count_at. cbn [t_at t_kids].
    destruct (N.eqb c d) eqn:E.
    + apply N.eqb_eq in E. subst d. rewrite kid_get_set_same, Ek. apply IH.
    + apply N.eqb_neq in E. rewrite kid_get_set_other by congruence. reflexivity.
  - destruct q as [|d q]; [reflexivity|]. destruct (N.eqb c d); [destruct (strip p q)|]; reflexivity.
Qed.

(* the node at the updated path *)
Lemma t_at_upd f : forall p t n, t_at t p = Some n -> t_at (t_upd p f t) p = Some (f n).
Proof.
  induction p as [|c p IH]; intros t n; cbn [t_upd t_at]; [congruence|].
  destruct (kid_get c (t_kids t)) as [n0|] eqn:Ek; [|discriminate].
  intros H. cbn [t_kids]. rewrite kid_get_set_same. now apply IH.
Qed.

Definition mw_rep (t : trie) (m : mwmap) : Prop := forall k, t_count_at t k = mw_lookup m k.

Lemma rep_empty : mw_rep t_empty [].
Proof. intros [|c k]; reflexivity. Qed.

Lemma count_at_app t p n r : t_at t p = Some n -> t_count_at t (p ++ r) = t_count_at n r.
Proof. intros H. unfold t_count_at. now rewrite t_at_app, H. Qed.

(* index["count"] = v at an existing node *)
Lemma rep_set_count t m p v : mw_rep t m -> t_at t p <> None -> mw_rep (t_set_count t p v) (mw_set m p v).
Proof.
  intros Hr Hp k. unfold t_set_count. rewrite t_count_upd, mw_lookup_set.
  destruct (t_at t p) as [n|] eqn:En; [|congruence].
  destruct (strip p k) as [r|] eqn:Es.
  - apply strip_spec in Es. subst k. destruct r as [|d r].
    + rewrite app_nil_r, seqb_refl. reflexivity.
    + replace (str_eqb p (p ++ d :: r)) with false.
      * rewrite <- Hr, (count_at_app _ _ _ _ En). reflexivity.
      * symmetry. apply seqb_neq. intros H. apply (f_equal (@length N)) in H. rewrite app_length in H. simpl in H. lia.
  - replace (str_eqb p k) with false; [apply Hr|].
    symmetry. apply seqb_neq. intros ->. assert (strip k k = Some []) by (apply strip_spec; now rewrite app_nil_r). congruence.
Qed.

(* index[c] = {} at an existing node that has no child c *)
Lemma rep_new t m p c : mw_rep t m -> t_has t p c = false -> mw_rep (t_new t p c) m.
Proof.
  intros Hr Hh k. rewrite <- Hr. unfold t_new. rewrite t_count_upd.
  destruct (strip p k) as [r|] eqn:Es; [|reflexivity].
  destruct (t_at t p) as [n|] eqn:En; [|reflexivity].
  apply strip_spec in Es. subst k. rewrite (count_at_app _ _ _ _ En).
  assert (Hc : kid_get c (t_kids n) = None).
  { unfold t_has in Hh. rewrite t_at_app, En in Hh. cbn [t_at] in Hh. now destruct (kid_get c (t_kids n)). }
  destruct r as [|d r]; [reflexivity|]. unfold t_count_at. cbn [t_at t_kids].
  destruct (N.eq_dec d c) as [->|Hd].
  - rewrite kid_get_set_same, Hc. now destruct r.
  - now rewrite kid_get_set_other.
Qed.

Lemma has_new t p c : t_at t p <> None -> t_has (t_new t p c) p c = true.
Proof.
  intros Hp. destruct (t_at t p) as [n|] eqn:En; [|congruence].
  unfold t_has, t_new. rewrite t_at_app, (t_at_upd _ _ _ _ En). cbn [t_at t_kids]. now rewrite kid_get_set_same.
Qed.

Lemma has_at t p c : t_has t p c = true -> t_at t (p ++ [c]) <> None.
Proof. unfold t_has. now destruct (t_at t (p ++ [c])). Qed.

(* ------------------------------------------------------------------ *)
(* _get_count                                                          *)
(* ------------------------------------------------------------------ *)
Section GetCount.
Variable lower_c : N -> str.

(* the walk `for value in alpha_string: value = value.lower(); index = index[value]`:
   the cursor it ends at, None = KeyError *)
Fixpoint walk (t : trie) (p : cursor) (w : str) : option cursor :=
  match w with
  | [] => Some p
  | c :: r => match t_step_s t p (lower_c c) with Some p' => walk t p' r | None => None end
  end.

Lemma walk_sim {R L' : Type} (t : trie) (body : Z -> N -> cursor -> ctl R cursor cursor) :
  (forall pos value index, body pos value index = call (t_step_s t index (lower_c value)) (fun index => Next index)) ->
  forall w pos p,
  for_from (L' := L') pos w p body = match walk t p w with Some p' => Next p' | None => Raise end.
Proof.
  intros Hb. induction w as [|c w IH]; intros pos p; cbn [for_from walk]; [reflexivity|].
  rewrite Hb. unfold call. destruct (t_step_s t p (lower_c c)); [apply IH|reflexivity].
Qed.

(* what the walk finds is the "count" entry of the word of the lower-cased characters *)
Lemma walk_count t : forall w p,
  match walk t p w with Some p' => t_count_at t p' | None => None end =
  match lower_keys lower_c w with Some k => t_count_at t (p ++ k) | None => None end.
Proof.
  induction w as [|c w IH]; intros p; cbn [walk lower_keys]; [now rewrite app_nil_r|].
  unfold t_step_s, t_step. destruct (lower_c c) as [|x [|y l]]; [reflexivity| |reflexivity].
  destruct (t_has t p x) eqn:Eh.
  - rewrite IH. destruct (lower_keys lower_c w) as [k|]; [|reflexivity]. now rewrite <- app_assoc.
  - destruct (lower_keys lower_c w) as [k|]; [|reflexivity].
    unfold t_has in Eh. unfold t_count_at. change (p ++ x :: k) with (p ++ [x] ++ k). rewrite app_assoc, t_at_app.
    now destruct (t_at t (p ++ [x])).
Qed.

Theorem py_mw_get_count_eq t m w : mw_rep t m -> py_mw_get_count lower_c t w = Some (mw_count lower_c m w).
Proof.
  intros Hr. unfold py_mw_get_count, mw_count, for_each. cbv zeta.
  erewrite walk_sim by (intros; reflexivity).
  pose proof (walk_count t w []) as Hw. cbn [app] in Hw. unfold c_root.
  destruct (walk t [] w) as [p'|]; cbn [bind try_keyerror call run].
  - unfold t_get_count, call. rewrite Hw.
    destruct (lower_keys lower_c w) as [k|]; [rewrite Hr; destruct (mw_lookup m k)|]; reflexivity.
  - destruct (lower_keys lower_c w) as [k|]; [|reflexivity]. rewrite <- Hr, <- Hw. reflexivity.
Qed.

End GetCount.

(* ------------------------------------------------------------------ *)
(* _identify_multi and parse                                           *)
(* ------------------------------------------------------------------ *)
Lemma linsert_0 {X : Type} (l : list X) x : linsert l 0 x = x :: l.
Proof.
  unfold linsert, lins. change (0 <? 0) with false. unfold clip. change (0 <? 0) with false. cbv iota.
  pose proof (llen_nonneg l). rewrite Z.min_l by lia. rewrite Z.max_id. reflexivity.
Qed.

Section Identify.
Variable lower_c : N -> str.
Variables threshold min_len max_len : Z.
Variable t : trie.
Variable m : mwmap.
Hypothesis Hrep : mw_rep t m.

Notation py_identify := (py_mw_identify_multi lower_c threshold min_len).
Notation identify := (mw_identify lower_c threshold min_len).

(* the loop `for index in range(max_index, self.min_len - 1, -1)` against Multiword.mw_loop *)
Definition loop_image {L' : Type} (r : option (option (list str))) : ctl (option (list str)) L' unit :=
  match r with
  | None => Raise
  | Some None => Next tt
  | Some (Some l) => Return (Some l)
  end.

(* one iteration, in terms of the model's counts and of the result of the recursive call:
   what any spelling of the loop body has to come to *)
Definition iter_image {L' : Type} (mrec : str -> option (option (list str))) (s : str) (index : Z)
  : ctl (option (list str)) L' unit :=
  if threshold <=? mw_count lower_c m (slice s 0 index) then
    if threshold <=? mw_count lower_c m (sfrom s index) then Return (Some [slice s 0 index; sfrom s index])
    else match mrec (sfrom s index) with
         | None => Raise
         | Some (Some (x :: res)) => Return (Some (slice s 0 index :: x :: res))
         | Some _ => Next tt
         end
  else Next tt.

Lemma loop_sim (mrec : str -> option (option (list str))) (s : str) (start : Z)
      (body : Z -> Z -> unit -> ctl (option (list str)) unit unit) :
  (forall pos index u, body pos index u = iter_image mrec s index) ->
  forall n k pos,
  for_from (L' := Empty_set) pos (map (fun i => start - Z.of_nat i) (seq k n)) tt body =
  loop_image (mw_loop lower_c threshold mrec m s n (start - Z.of_nat k)).
Proof.
  intros Hb. induction n as [|n IH]; intros k pos; cbn [seq map for_from mw_loop]; [reflexivity|].
  rewrite Hb. unfold iter_image.
  assert (Hnext : start - Z.of_nat k - 1 = start - Z.of_nat (S k)) by lia.
  destruct (threshold <=? mw_count lower_c m (slice s 0 (start - Z.of_nat k))); [|rewrite Hnext; apply IH].
  destruct (threshold <=? mw_count lower_c m (sfrom s (start - Z.of_nat k))); [reflexivity|].
  destruct (mrec (sfrom s (start - Z.of_nat k))) as [[[|x res]|]|]; cbn [loop_image];
    try reflexivity; rewrite Hnext; apply IH.
Qed.

Theorem py_mw_identify_multi_eq : forall fuel s, py_identify fuel t s = identify fuel m s.
Proof.
  induction fuel as [|f IH]; intros s; [reflexivity|].
  cbn [py_mw_identify_multi mw_identify]. cbv zeta. unfold for_each, range_down.
  erewrite loop_sim with (mrec := identify f m) (k := O) (s := s).
  - replace (len s - min_len - Z.of_nat 0) with (len s - min_len) by lia.
    destruct (mw_loop lower_c threshold (identify f m) m s (Z.to_nat (len s - min_len - (min_len - 1))) (len s - min_len))
      as [[l|]|]; reflexivity.
  - (* the body of the source, however it names its slices and builds the list it returns *)
    intros pos index u. cbv beta zeta. unfold iter_image.
    rewrite !(py_mw_get_count_eq lower_c t m) by assumption. cbn [call].
    destruct (threshold <=? mw_count lower_c m (slice s 0 index)); [|reflexivity].
    rewrite ?(py_mw_get_count_eq lower_c t m) by assumption. cbn [call].
    destruct (threshold <=? mw_count lower_c m (sfrom s index)); cbn [bind]; [reflexivity|].
    rewrite IH. destruct (identify f m (sfrom s index)) as [[[|x res]|]|]; cbn [call truthy app];
      rewrite ?linsert_0; reflexivity.
Qed.

Theorem py_mw_parse_eq s :
  py_mw_parse lower_c threshold min_len max_len t s = mw_parse lower_c threshold min_len max_len m s.
Proof.
  unfold py_mw_parse, mw_parse.
  (* the tests in the order of the source, however they are grouped into `if`s *)
  repeat (rewrite ?(py_mw_get_count_eq lower_c t m) by assumption;
          cbn [call bind run negb orb andb];
          match goal with
          | |- context [if ?c then _ else _] =>
              lazymatch c with context [truthy] => fail | _ => bool_atom c ltac:(fun a => destruct a eqn:?) end
          end;
          cbn [call bind run negb orb andb]; try reflexivity).
  rewrite ?py_mw_identify_multi_eq.
  destruct (identify (S (length s)) m s) as [[[|x res]|]|]; reflexivity.
Qed.

End Identify.

(* ------------------------------------------------------------------ *)
(* train                                                               *)
(* ------------------------------------------------------------------ *)
Section Train.
Variable isalpha : N -> bool.
Variable lower_c : N -> str.
Variables threshold min_len max_len : Z.

Notation bump := (mw_bump threshold min_len).

(* the state of the model's loop at the end of the string, before the last run is closed *)
Fixpoint mw_scan (m : mwmap) (st : bool) (pw rrun : str) : mwmap * str :=
  match pw with
  | [] => (m, rrun)
  | c :: r =>
      if isalpha c then mw_scan m st r (c :: rrun)
      else if nonempty rrun then mw_scan (bump m st rrun) st r [] else mw_scan m st r []
  end.

Lemma train_loop_scan : forall pw m st rrun,
  mw_train_loop isalpha threshold min_len m st pw rrun =
  let (m', rr) := mw_scan m st pw rrun in if nonempty rr then bump m' st rr else m'.
Proof.
  induction pw as [|c r IH]; intros m st rrun; cbn [mw_train_loop mw_scan]; [reflexivity|].
  destruct (isalpha c); [apply IH|]. destruct (nonempty rrun); apply IH.
Qed.

Lemma len_eq0 (r : str) : (len r =? 0) = negb (nonempty r).
Proof.
  destruct r as [|c r]; [reflexivity|]. cbn [nonempty negb]. apply Z.eqb_neq. rewrite len_cons.
  pose proof (len_nonneg r). lia.
Qed.

(* closing a run: the case analysis shared by the two places where the source does it.
   Goal: exists t', <block> = Next (idx, t') /\ mw_rep t' (bump m st rrun) *)
(* closing a run (`if run_len >= min_len: if "count" not in index: ... else: index["count"] += 1`,
   inlined or through a helper, with the tests in either polarity): case analysis on the tests of
   the whole goal, the "count" entries read through the representation [Hr]; [leaf] finishes *)
Ltac close_cases Hr leaf :=
  unfold mw_bump, t_has_count, t_get_count, c_root;
  rewrite ?Z.ltb_antisym;
  rewrite ?Hr;
  repeat (cbn [negb bind call run];
          match goal with
          | |- context [match mw_lookup ?m ?k with _ => _ end] => destruct (mw_lookup m k) eqn:?
          | |- context [if ?c then _ else _] =>
              bool_atom c ltac:(fun a => first [is_var a; destruct a | destruct a eqn:?])
          end);
  cbn [negb bind call run]; leaf.

Theorem py_mw_train_eq t m st pw : mw_rep t m ->
  exists t', py_mw_train isalpha lower_c threshold min_len max_len t pw st = Some t' /\
             mw_rep t' (mw_train isalpha lower_c threshold min_len max_len m st pw).
Proof.
  intros Hr. unfold py_mw_train, mw_train.
  (* the two bail-outs, as two ifs or one `or` *)
  destruct (len pw <? min_len) eqn:E1; destruct (max_len <? len pw) eqn:E2; cbn [orb bind run]; try solve [eauto].
  cbv zeta. unfold for_each, cursor, str. rewrite train_loop_scan.
  match goal with |- context [for_from 0 _ _ ?b] => set (body := b) end.
  assert (L : forall w pos rrun m t, mw_rep t m -> t_at t (rev rrun) <> None ->
    exists t', for_from (R := trie) (L' := Empty_set) pos w (len rrun, rev rrun, t) body =
                 Next (len (snd (mw_scan m st w rrun)), rev (snd (mw_scan m st w rrun)), t') /\
               mw_rep t' (fst (mw_scan m st w rrun)) /\ t_at t' (rev (snd (mw_scan m st w rrun))) <> None).
  { clear. induction w as [|c w IH]; intros pos rrun m t Hr Hat; cbn [for_from mw_scan].
    - exists t. auto.
    - assert (IH0 : forall pos m t, mw_rep t m ->
                exists t', for_from (R := trie) (L' := Empty_set) pos w (0, [], t) body =
                  Next (len (snd (mw_scan m st w [])), rev (snd (mw_scan m st w [])), t') /\
                  mw_rep t' (fst (mw_scan m st w [])) /\ t_at t' (rev (snd (mw_scan m st w []))) <> None)
        by (intros pos0 m0 t0 H0; apply (IH pos0 [] m0 t0 H0); discriminate).
      unfold body at 1. cbv beta zeta. destruct (isalpha c).
      + assert (Hgo : forall t1, mw_rep t1 m -> t_has t1 (rev rrun) c = true ->
                  exists t', for_from (R := trie) (L' := Empty_set) (pos + 1) w (len rrun + 1, rev rrun ++ [c], t1) body =
                    Next (len (snd (mw_scan m st w (c :: rrun))), rev (snd (mw_scan m st w (c :: rrun))), t') /\
                    mw_rep t' (fst (mw_scan m st w (c :: rrun))) /\
                    t_at t' (rev (snd (mw_scan m st w (c :: rrun)))) <> None).
        { intros t1 Hr1 Hh. replace (len rrun + 1) with (len (c :: rrun)) by (rewrite len_cons; lia).
          change (rev rrun ++ [c]) with (rev (c :: rrun)). apply IH; [assumption|]. cbn [rev]. now apply has_at. }
        destruct (t_has t (rev rrun) c) eqn:Eh; cbn [negb bind]; unfold t_step.
        * rewrite Eh. cbn [call]. now apply Hgo.
        * rewrite has_new by assumption. cbn [call]. apply Hgo; [now apply rep_new|now apply has_new].
      + rewrite len_eq0. destruct (nonempty rrun) eqn:En; cbn [negb].
        * clear IH. close_cases Hr ltac:(apply IH0; first [assumption | apply rep_set_count; assumption]).
        * apply nonempty_false in En. subst rrun. apply IH; assumption. }
  destruct (L (lower lower_c pw) 0 [] m t Hr ltac:(discriminate)) as (t1 & E1' & Hr1 & Hat1).
  change (len []) with 0 in E1'. cbn [rev] in E1'. unfold c_root. rewrite E1'. clear E1'. cbn [bind].
  destruct (mw_scan m st (lower lower_c pw) []) as [m1 rr]. cbn [fst snd] in *.
  rewrite len_eq0. destruct (nonempty rr) eqn:En; cbn [negb]; [|cbn [bind run]; eauto].
  clear L. close_cases Hr1 ltac:(eexists; split; [reflexivity|first [assumption | apply rep_set_count; assumption]]).
Qed.

End Train.
