From Coq Require Import List Arith ZArith NArith Bool Lia.
From Pcfg Require Import TextFile LoaderRt Loader2Rt Loader2RtProofs Loader2Model.
From PcfgGen Require Import Loader2_gen.
Import ListNotations.

Ltac name_keys :=
  change [97; 108; 112; 104; 97; 98; 101; 116; 95; 101; 110; 99; 111; 100; 105; 110; 103]%N with k_alphabet_encoding;
  change [110; 103; 114; 97; 109]%N with k_ngram;
  change [109; 97; 120; 95; 108; 101; 118; 101; 108]%N with k_max_level;
  change [97; 108; 112; 104; 97; 98; 101; 116]%N with k_alphabet;
  change [105; 112]%N with k_ip;
  change [101; 112]%N with k_ep;
  change [99; 112]%N with k_cp;
  change [108; 110]%N with k_ln;
  change [115; 116; 114; 105; 99; 116]%N with k_strict;
  change [116; 114; 97; 105; 110; 105; 110; 103; 95; 115; 101; 116; 116; 105; 110; 103; 115]%N with k_training_settings;
  change [101; 110; 99; 111; 100; 105; 110; 103]%N with k_encoding;
  change [99; 111; 110; 102; 105; 103; 46; 116; 120; 116]%N with n_config_txt;
  change [97; 108; 112; 104; 97; 98; 101; 116; 46; 116; 120; 116]%N with n_alphabet_txt;
  change [73; 80; 46; 108; 101; 118; 101; 108]%N with n_ip_level;
  change [69; 80; 46; 108; 101; 118; 101; 108]%N with n_ep_level;
  change [67; 80; 46; 108; 101; 118; 101; 108]%N with n_cp_level;
  change [76; 78; 46; 108; 101; 118; 101; 108]%N with n_ln_level;
  change [79; 109; 101; 110]%N with n_omen;
  change [109; 97; 120; 95; 111; 109; 101; 110; 95; 108; 101; 118; 101; 108]%N with k_max_omen_level;
  change [109; 97; 120; 95; 108; 101; 110]%N with k_max_len;
  change [49; 48]%N with k_ten.

(* the statements every reader of a level file starts with: line.rstrip('\n\r').split('\t'), the
   two-field test, int(line[0]), level < 0; leaves the case of a well-formed line *)
Ltac level_prefix ln f k lvl E1 :=
  cbn [dy_rstrip strip_pred xthen xbind dy_split dy_len]; rewrite rstrip_crlf;
  destruct (split_on 9 (rstrip is_crlf ln)) as [|f [|k [|? ?]]];
  [ cbn [map dy_eq rt_len length Z.of_nat Z.eqb xbind negb x_isa rt_isa]; reflexivity
  | cbn [map dy_eq rt_len length Z.of_nat Z.eqb Pos.of_succ_nat Pos.eqb xbind negb x_isa rt_isa]; reflexivity
  | | cbn [map]; cbn [dy_eq]; rewrite rt_len_3; cbn [xbind negb x_isa rt_isa]; reflexivity ];
  cbn [map dy_eq rt_len length Z.of_nat Pos.of_succ_nat Pos.succ Z.eqb Pos.eqb xbind negb];
  rewrite getitem_0; cbn [xbind dy_int x_opt xthen];
  match goal with H : forall s, w_pint _ s = parse_int _ _ s |- _ => rewrite H end;
  match goal with |- context [parse_int ?a ?b f] => destruct (parse_int a b f) as [lvl|] end;
  cbn [x_opt xthen xbind x_isa rt_isa]; [|reflexivity];
  (* `level < 0 or ...` / `not 0 <= level <= ...` (the n-gram may be read before the test) *)
  rewrite ?getitem_1; cbn [dy_lt dy_le xbind];
  try replace (0 <=? lvl)%Z with (negb (lvl <? 0)%Z) by (first [apply Z.leb_antisym | symmetry; apply Z.leb_antisym]);
  destruct (lvl <? 0)%Z eqn:E1; cbn [negb xbind xthen x_isa rt_isa]; [reflexivity|].

(* `or level > grammar['max_level']` *)
Ltac range_check Hmax lvl E2 :=
  try (unfold dy_getitem at 1; cbn [is_key]; rewrite dfind_dput_other by reflexivity; rewrite Hmax);
  cbn [x_opt xthen dy_gt dy_lt dy_le xbind];
  try replace (lvl <=? 10)%Z with (negb (10 <? lvl)%Z) by (first [apply Z.leb_antisym | symmetry; apply Z.leb_antisym]);
  destruct (10 <? lvl)%Z eqn:E2; cbn [negb xbind xthen x_isa rt_isa]; [reflexivity|].

Section OmenGuesser.
Context (fo : fops) {C SS : Type} (W : world fo C SS).
Notation val := (pyval (F fo) C SS).
Context (iws : N -> bool) (dz : list N).
Hypothesis Hpint : forall s, w_pint W s = parse_int iws dz s.

Lemma fold_snoc_map {A B : Type} (f : A -> B) (l : list A) (acc : list B) :
  fold_left (fun m x => m ++ [f x]) l acc = acc ++ map f l.
Proof.
  revert acc. induction l as [|x r IH]; intros acc; cbn; [now rewrite app_nil_r|].
  rewrite IH, <- app_assoc. reflexivity.
Qed.

Lemma omen_load_alphabet_eq dir file (g : list (val * val)) enc :
  dfind (VStr k_alphabet_encoding) g = Some (VStr enc) ->
  py_omen_load_alphabet fo W (VStr dir) (VStr file) (VDict g) =
  match w_codecs_open W (w_path_join W [dir; file]) (Some enc) (Some k_strict) with
  | XDone lines => XDone (VDict (dput (VStr k_alphabet) (enc_strs (map (rstrip is_crlf) lines)) g), VNone)
  | XFail e => XFail e
  end.
Proof.
  intros Henc. cbv beta zeta delta [py_omen_load_alphabet]. name_keys. unfold pstr in *.
  cbn [dy_path_join strs_of option_map xbind dy_setitem is_key].
  unfold dy_getitem at 1. cbn [is_key].
  rewrite dfind_dput_other by reflexivity. rewrite Henc. cbn [x_opt xbind dy_open].
  unfold pstr in *.
  match goal with |- _ = match ?o with _ => _ end => destruct o as [lines|e] end;
    cbn [xthen xbind]; [|now rewrite !if_same].
  unfold rt_for_file, rt_fopen. cbn [f_all f_rest].
  change (VList []) with (@enc_strs (F fo) C SS []).
  rewrite (for_lines_fold (fun m => VDict (dput (VStr k_alphabet) (enc_strs m) g))
             (fun ln m => inl (m ++ [rstrip is_crlf ln]))).
  - rewrite fold_stop_inl, fold_snoc_map. reflexivity.
  - intros ln m. rewrite upd_item_found with (old := enc_strs m) by (try reflexivity; now apply dfind_dput_same).
    cbn [dy_rstrip strip_pred xthen dy_append enc_strs xbind]. rewrite rstrip_crlf.
    rewrite dput_dput_same by reflexivity. unfold enc_strs. now rewrite map_app.
Qed.

(* ---- dicts over the levels 0..n-1 *)
Lemma dfind_level_dict (f : nat -> val) ks j :
  In j ks -> dfind (VInt (Z.of_nat j)) (level_dict f ks) = Some (f j).
Proof.
  induction ks as [|a r IH]; intros Hin; [contradiction|]. cbn [level_dict map dfind key_eqb].
  destruct (Z.eqb_spec (Z.of_nat j) (Z.of_nat a)) as [E|E].
  - apply Nat2Z.inj in E. now subst.
  - destruct Hin as [->|Hin]; [contradiction|]. now apply IH.
Qed.

Lemma dput_level_dict (f : nat -> val) ks j v :
  In j ks -> NoDup ks ->
  dput (VInt (Z.of_nat j)) v (level_dict f ks) = level_dict (fun l => if Nat.eqb l j then v else f l) ks.
Proof.
  induction ks as [|a r IH]; intros Hin Hnd; [contradiction|]. cbn [level_dict map dput key_eqb].
  inversion Hnd as [|? ? Hna Hnd']; subst.
  destruct (Z.eqb_spec (Z.of_nat j) (Z.of_nat a)) as [E|E].
  - apply Nat2Z.inj in E. subst a. rewrite Nat.eqb_refl. f_equal.
    apply map_ext_in. intros l Hl. destruct (Nat.eqb_spec l j); [subst; contradiction | reflexivity].
  - destruct Hin as [->|Hin]; [contradiction|].
    destruct (Nat.eqb_spec a j) as [->|_]; [contradiction|]. f_equal. now apply IH.
Qed.

Lemma level_dict_ext (f h : nat -> val) ks : (forall l, In l ks -> f l = h l) -> level_dict f ks = level_dict h ks.
Proof. intros H. apply map_ext_in. intros l Hl. now rewrite H. Qed.

Lemma combine_map_self {A B : Type} (f : A -> B) (l : list A) : combine l (map f l) = map (fun x => (x, f x)) l.
Proof. induction l as [|a r IH]; cbn; [reflexivity | now rewrite IH]. Qed.

Lemma enc_buckets_map {X : Type} (e : X -> val) (f : nat -> X) n :
  enc_buckets e (map f (seq 0 n)) = VDict (level_dict (fun l => e (f l)) (seq 0 n)).
Proof.
  unfold enc_buckets, level_dict. rewrite map_length, seq_length, combine_map_self, map_map. reflexivity.
Qed.

(* ---- the items of a level and what one more line adds *)
Definition bucket (its : list (Z * pstr)) (l : nat) : list pstr :=
  map snd (filter (fun it => Z.eqb (fst it) (Z.of_nat l)) its).

Lemma bucket_snoc its lvl k l :
  bucket (its ++ [(lvl, k)]) l = bucket its l ++ (if Z.eqb lvl (Z.of_nat l) then [k] else []).
Proof. unfold bucket. rewrite filter_app, map_app. cbn. now destruct (Z.eqb lvl (Z.of_nat l)). Qed.

Lemma ip_buckets_bucket its : ip_buckets its = map (bucket its) (seq 0 11).
Proof. reflexivity. Qed.

Lemma level_in_range lvl : (lvl <? 0)%Z = false -> (10 <? lvl)%Z = false ->
  exists j, lvl = Z.of_nat j /\ In j (seq 0 11).
Proof.
  intros H1 H2. apply Z.ltb_ge in H1, H2. exists (Z.to_nat lvl). split; [now rewrite Z2Nat.id|].
  apply in_seq. lia.
Qed.


(* the loop over the lines of a level file, as a fold over the model's reading of a line *)
Definition items_step {R : Type} (maxlvl : option Z) (ln : pstr) (its : list (Z * pstr))
  : list (Z * pstr) + xres R :=
  match level_line iws dz maxlvl ln with
  | inl it => inl (its ++ [it])
  | inr e => inr (XFail e)
  end.

Lemma items_fold {R : Type} maxlvl lines acc :
  fold_stop (@items_step R maxlvl) lines acc =
  match level_lines iws dz maxlvl lines with
  | inl its => inl (acc ++ its)
  | inr e => inr (XFail e)
  end.
Proof.
  revert acc. induction lines as [|ln r IH]; intros acc; cbn [fold_stop level_lines]; [now rewrite app_nil_r|].
  unfold items_step at 1. destruct (level_line iws dz maxlvl ln) as [it|e]; [|reflexivity].
  rewrite IH. destruct (level_lines iws dz maxlvl r); [|reflexivity]. now rewrite <- app_assoc.
Qed.



(* for level in range(0, max_level + 1): grammar[name][level] = [] *)
Lemma init_levels (name : val) (g : list (val * val)) (k : val -> xres (val * val)) :
  is_key name = true ->
  rt_for (map VInt (zrange 0 11))
    (fun v_level v_grammar : val =>
       xbind (dy_upd_item (w_cfg W) v_grammar name (fun u : val => dy_setitem u v_level (VList [])))
             (fun e : xexn => LRet (XFail e)) (fun v_grammar0 : val => LCont v_grammar0))
    (VDict (dput name (VDict []) g)) rt_no_else k =
  k (VDict (dput name (VDict (level_dict (fun _ => VList []) (seq 0 11))) g)).
Proof.
  intros Hk. change (zrange 0 11) with [0; 1; 2; 3; 4; 5; 6; 7; 8; 9; 10]%Z.
  do 11 (cbn [rt_for map]; erewrite upd_item_found by (try exact Hk; apply dfind_dput_same; exact Hk);
         cbn [dy_setitem is_key xthen xbind dput key_eqb Z.eqb Pos.eqb]; rewrite dput_dput_same by exact Hk).
  reflexivity.
Qed.

(* the statements before the file is opened: stores and lookups in the grammar dict (grammar['max_level'] read in
   place or into a local first), the loop that creates the level lists, the path *)
Ltac run_pre Hmax Henc :=
  repeat first
    [ progress cbn [xbind xthen dy_setitem is_key dy_eq str_eqb k_ip k_ep k_cp k_ln N.eqb Pos.eqb andb rt_join x_opt
                    dy_add dy_range dy_iter Z.add Pos.add Pos.succ dy_scalar dy_require_dict dy_path_join strs_of option_map]
    | erewrite getitem_dict_found by
        (try reflexivity; first [ exact Hmax | exact Henc
                                | rewrite dfind_dput_other by reflexivity; first [exact Hmax | exact Henc]
                                | apply dfind_dput_same; reflexivity ])
    | rewrite init_levels by reflexivity ].


Lemma omen_load_ngrams_ip dir file (g : list (val * val)) enc :
  dfind (VStr k_alphabet_encoding) g = Some (VStr enc) ->
  dfind (VStr k_max_level) g = Some (VInt 10) ->
  py_omen_load_ngrams fo W (VStr dir) (VStr file) (VDict g) (VStr k_ip) =
  match w_codecs_open W (w_path_join W [dir; file]) (Some enc) (Some k_strict) with
  | XDone lines => match level_lines iws dz (Some 10%Z) lines with
                   | inl its => XDone (VDict (dput (VStr k_ip) (enc_buckets enc_strs (ip_buckets its)) g), VNone)
                   | inr e => XFail e
                   end
  | XFail e => XFail e
  end.
Proof.
  intros Henc Hmax. cbv beta zeta delta [py_omen_load_ngrams]. name_keys.
  run_pre Hmax Henc.
  cbn [x_opt xbind dy_open]. unfold pstr in *.
  match goal with |- _ = match ?o with _ => _ end => destruct o as [lines|e] end;
    cbn [xthen xbind]; [|now rewrite !if_same].
  unfold rt_for_file, rt_fopen. cbn [f_all f_rest].
  change (VDict (level_dict (fun _ : nat => VList []) (seq 0 11)))
    with (VDict (level_dict (fun l => @enc_strs (F fo) C SS (bucket [] l)) (seq 0 11))).
  rewrite (for_lines_fold
             (fun its => VDict (dput (VStr k_ip) (VDict (level_dict (fun l => enc_strs (bucket its l)) (seq 0 11))) g))
             (items_step (Some 10%Z))).
  - rewrite items_fold. destruct (level_lines iws dz (Some 10%Z) lines) as [its|e]; [|reflexivity].
    cbn [app]. now rewrite ip_buckets_bucket, enc_buckets_map.
  - intros ln its. unfold items_step, level_line. level_prefix ln f k lvl E1. range_check Hmax lvl E2.
    cbn [dy_eq str_eqb k_ip N.eqb Pos.eqb andb xbind].
    destruct (level_in_range lvl E1 E2) as (j & -> & Hj).
    erewrite upd_item_found by (try reflexivity; apply dfind_dput_same; reflexivity).
    erewrite upd_item_found by (try reflexivity; apply dfind_level_dict; exact Hj).
    rewrite ?getitem_1. cbn [xthen dy_append enc_strs xbind].
    rewrite dput_level_dict by (try exact Hj; apply seq_NoDup).
    rewrite dput_dput_same by reflexivity. do 4 f_equal.
    apply level_dict_ext. intros l Hl. rewrite bucket_snoc. unfold enc_strs.
    destruct (Nat.eqb_spec l j) as [->|Hne].
    + rewrite Z.eqb_refl, map_app. reflexivity.
    + replace (Z.of_nat j =? Z.of_nat l)%Z with false by (symmetry; apply Z.eqb_neq; lia). now rewrite app_nil_r.
Qed.

(* ---- EP: grammar['ep'][ngram] = level *)
Lemma dput_enc_ep k v (d : list (pstr * Z)) :
  dput (VStr k) (VInt v) (map (fun kv => (@VStr (F fo) C SS (fst kv), VInt (snd kv))) d) =
  map (fun kv => (VStr (fst kv), VInt (snd kv))) (dict_set k v d).
Proof.
  induction d as [|[k' v'] r IH]; cbn [map dput dict_set key_eqb fst snd]; [reflexivity|].
  destruct (str_eqb k k') eqn:E; cbn [map fst snd]; [|now rewrite IH].
  apply str_eqb_eq in E. now subst.
Qed.

Lemma ep_dict_snoc its lvl k : ep_dict (its ++ [(lvl, k)]) = dict_set k lvl (ep_dict its).
Proof. unfold ep_dict. now rewrite fold_left_app. Qed.

Lemma omen_load_ngrams_ep dir file (g : list (val * val)) enc :
  dfind (VStr k_alphabet_encoding) g = Some (VStr enc) ->
  dfind (VStr k_max_level) g = Some (VInt 10) ->
  py_omen_load_ngrams fo W (VStr dir) (VStr file) (VDict g) (VStr k_ep) =
  match w_codecs_open W (w_path_join W [dir; file]) (Some enc) (Some k_strict) with
  | XDone lines => match level_lines iws dz (Some 10%Z) lines with
                   | inl its => XDone (VDict (dput (VStr k_ep) (enc_ep (ep_dict its)) g), VNone)
                   | inr e => XFail e
                   end
  | XFail e => XFail e
  end.
Proof.
  intros Henc Hmax. cbv beta zeta delta [py_omen_load_ngrams]. name_keys.
  run_pre Hmax Henc.
  cbn [x_opt xbind dy_open]. unfold pstr in *.
  match goal with |- _ = match ?o with _ => _ end => destruct o as [lines|e] end;
    cbn [xthen xbind]; [|now rewrite !if_same].
  unfold rt_for_file, rt_fopen. cbn [f_all f_rest].
  change (@VDict (F fo) C SS []) with (@enc_ep (F fo) C SS (ep_dict [])).
  rewrite (for_lines_fold (fun its => VDict (dput (VStr k_ep) (enc_ep (ep_dict its)) g)) (items_step (Some 10%Z))).
  - rewrite items_fold. now destruct (level_lines iws dz (Some 10%Z) lines) as [its|e].
  - intros ln its. unfold items_step, level_line. level_prefix ln f k lvl E1. range_check Hmax lvl E2.
    cbn [dy_eq str_eqb k_ip k_ep N.eqb Pos.eqb andb xbind].
    erewrite upd_item_found by (try reflexivity; apply dfind_dput_same; reflexivity).
    rewrite ?getitem_1. cbn [xthen enc_ep dy_setitem is_key xbind].
    rewrite dput_enc_ep, dput_dput_same by reflexivity. now rewrite ep_dict_snoc.
Qed.


(* ---- CP: grammar['cp'][prefix][level].append(last character) *)

(* get / set on the model's dicts, mirroring dfind / dput *)
Fixpoint zget (lvl : Z) (m : list (Z * pstr)) : option pstr :=
  match m with [] => None | (l, cs) :: r => if Z.eqb lvl l then Some cs else zget lvl r end.
Fixpoint zset (lvl : Z) (cs' : pstr) (m : list (Z * pstr)) : list (Z * pstr) :=
  match m with
  | [] => [(lvl, cs')]
  | (l, cs) :: r => if Z.eqb lvl l then (l, cs') :: r else (l, cs) :: zset lvl cs' r
  end.
Fixpoint cget (p : pstr) (d : list (pstr * list (Z * pstr))) : option (list (Z * pstr)) :=
  match d with [] => None | (q, m) :: r => if str_eqb p q then Some m else cget p r end.
Fixpoint cset (p : pstr) (m' : list (Z * pstr)) (d : list (pstr * list (Z * pstr))) :=
  match d with
  | [] => [(p, m')]
  | (q, m) :: r => if str_eqb p q then (q, m') :: r else (q, m) :: cset p m' r
  end.

Notation encz := (map (fun lc : Z * pstr => (@VInt (F fo) C SS (fst lc), @enc_chars (F fo) C SS (snd lc)))).
Notation encl := (map (fun pm : pstr * list (Z * pstr) => (@VStr (F fo) C SS (fst pm), @enc_zdict (F fo) C SS (snd pm)))).

Lemma dfind_encz l m : dfind (VInt l) (encz m) = option_map enc_chars (zget l m).
Proof. induction m as [|[l' cs] r IH]; cbn [map dfind zget key_eqb fst snd option_map]; [reflexivity|]. now destruct (Z.eqb l l'). Qed.
Lemma dput_encz l cs m : dput (VInt l) (enc_chars cs) (encz m) = encz (zset l cs m).
Proof. induction m as [|[l' cs'] r IH]; cbn [map dput zset key_eqb fst snd]; [reflexivity|].
  destruct (Z.eqb l l'); cbn [map fst snd]; [reflexivity | now rewrite IH]. Qed.
Lemma dfind_encl p d : dfind (VStr p) (encl d) = option_map enc_zdict (cget p d).
Proof. induction d as [|[q m] r IH]; cbn [map dfind cget key_eqb fst snd option_map]; [reflexivity|]. now destruct (str_eqb p q). Qed.
Lemma dput_encl p m d : dput (VStr p) (enc_zdict m) (encl d) = encl (cset p m d).
Proof. induction d as [|[q m'] r IH]; cbn [map dput cset key_eqb fst snd]; [reflexivity|].
  destruct (str_eqb p q); cbn [map fst snd]; [reflexivity | now rewrite IH]. Qed.

Lemma zget_zset l cs m : zget l (zset l cs m) = Some cs.
Proof. induction m as [|[l' cs'] r IH]; cbn [zset zget]; [now rewrite Z.eqb_refl|].
  destruct (Z.eqb l l') eqn:E; cbn [zget]; rewrite E; [reflexivity | exact IH]. Qed.
Lemma zset_zset l cs cs' m : zset l cs' (zset l cs m) = zset l cs' m.
Proof. induction m as [|[l' c0] r IH]; cbn [zset]; [now rewrite Z.eqb_refl|].
  destruct (Z.eqb l l') eqn:E; cbn [zset]; rewrite E; [reflexivity | now rewrite IH]. Qed.
Lemma cget_cset p m d : cget p (cset p m d) = Some m.
Proof. induction d as [|[q m'] r IH]; cbn [cset cget]; [now rewrite str_eqb_refl|].
  destruct (str_eqb p q) eqn:E; cbn [cget]; rewrite E; [reflexivity | exact IH]. Qed.
Lemma cset_cset p m m' d : cset p m' (cset p m d) = cset p m' d.
Proof. induction d as [|[q m0] r IH]; cbn [cset]; [now rewrite str_eqb_refl|].
  destruct (str_eqb p q) eqn:E; cbn [cset]; rewrite E; [reflexivity | now rewrite IH]. Qed.
Lemma cset_same p m d : cget p d = Some m -> cset p m d = d.
Proof. induction d as [|[q m0] r IH]; cbn [cset cget]; [discriminate|].
  destruct (str_eqb p q) eqn:E; [intros H; now inversion H | intros H; now rewrite IH]. Qed.
Lemma zset_same l cs m : zget l m = Some cs -> zset l cs m = m.
Proof. induction m as [|[l' c0] r IH]; cbn [zset zget]; [discriminate|].
  destruct (Z.eqb l l') eqn:E; [intros H; now inversion H | intros H; now rewrite IH]. Qed.

(* TextFile.zdict_add / cp_add through get and set *)
Lemma zdict_add_spec l c m :
  zdict_add l c m = zset l (match zget l m with Some cs => cs ++ [c] | None => [c] end) m.
Proof.
  induction m as [|[l' cs] r IH]; cbn [zdict_add zset zget]; [reflexivity|].
  rewrite (Z.eqb_sym l' l). destruct (Z.eqb l l') eqn:E; [reflexivity | now rewrite IH].
Qed.
Lemma cp_add_spec p l c d :
  cp_add p l c d = cset p (zdict_add l c (match cget p d with Some m => m | None => [] end)) d.
Proof.
  induction d as [|[q m] r IH]; cbn [cp_add cset cget]; [reflexivity|].
  rewrite (str_eqb_sym q p). destruct (str_eqb p q) eqn:E; [reflexivity | now rewrite IH].
Qed.

Lemma rt_slice_init {X : Type} (G : list X) x : rt_slice (G ++ [x]) (Some 0%Z) (Some (-1)%Z) = G.
Proof.
  unfold rt_slice, rt_bound, rt_len. rewrite app_length. cbn [length].
  replace (0 <? 0)%Z with false by reflexivity. replace (-1 <? 0)%Z with true by reflexivity.
  replace (Z.min 0 (Z.of_nat (length G + 1))) with 0%Z by lia.
  replace (Z.max 0 (-1 + Z.of_nat (length G + 1))) with (Z.of_nat (length G)) by lia.
  cbn [Z.to_nat skipn]. rewrite Z.sub_0_r, Nat2Z.id. rewrite firstn_app, firstn_all, Nat.sub_diag. cbn. apply app_nil_r.
Qed.
Lemma rt_slice_none_lo {X : Type} (l : list X) b : rt_slice l None b = rt_slice l (Some 0%Z) b.
Proof. unfold rt_slice, rt_bound, rt_len. replace (0 <? 0)%Z with false by reflexivity. now replace (Z.min 0 (Z.of_nat (length l))) with 0%Z by lia. Qed.
Lemma rt_slice_init_nil {X : Type} : rt_slice (@nil X) (Some 0%Z) (Some (-1)%Z) = [].
Proof. reflexivity. Qed.

Definition cp_items_step {R : Type} (ln : pstr) (d : list (pstr * list (Z * pstr)))
  : list (pstr * list (Z * pstr)) + xres R :=
  match level_line iws dz (Some 10%Z) ln with
  | inl it => match cp_step d it with inl d' => inl d' | inr e => inr (XFail e) end
  | inr e => inr (XFail e)
  end.

Lemma cp_items_fold {R : Type} lines d :
  fold_stop (@cp_items_step R) lines d =
  match cp_lines iws dz (Some 10%Z) lines d with inl d' => inl d' | inr e => inr (XFail e) end.
Proof.
  revert d. induction lines as [|ln r IH]; intros d; cbn [fold_stop cp_lines]; [reflexivity|].
  unfold cp_items_step at 1. destruct (level_line iws dz (Some 10%Z) ln) as [it|e]; [|reflexivity].
  destruct (cp_step d it) as [d'|e]; [apply IH | reflexivity].
Qed.

Lemma getitem_str_last (G : pstr) c : dy_getitem (w_cfg W) (VStr (G ++ [c])) (VInt (-1)) = XDone (VStr [c]).
Proof. unfold dy_getitem. now rewrite rt_index_last. Qed.

Lemma omen_load_ngrams_cp dir file (g : list (val * val)) enc :
  dfind (VStr k_alphabet_encoding) g = Some (VStr enc) ->
  dfind (VStr k_max_level) g = Some (VInt 10) ->
  py_omen_load_ngrams fo W (VStr dir) (VStr file) (VDict g) (VStr k_cp) =
  match w_codecs_open W (w_path_join W [dir; file]) (Some enc) (Some k_strict) with
  | XDone lines => match cp_lines iws dz (Some 10%Z) lines [] with
                   | inl d => XDone (VDict (dput (VStr k_cp) (enc_cp d) g), VNone)
                   | inr e => XFail e
                   end
  | XFail e => XFail e
  end.
Proof.
  intros Henc Hmax. cbv beta zeta delta [py_omen_load_ngrams]. name_keys.
  run_pre Hmax Henc.
  cbn [x_opt xbind dy_open]. unfold pstr in *.
  match goal with |- _ = match ?o with _ => _ end => destruct o as [lines|e] end;
    cbn [xthen xbind]; [|now rewrite !if_same].
  unfold rt_for_file, rt_fopen. cbn [f_all f_rest].
  change (@VDict (F fo) C SS []) with (@enc_cp (F fo) C SS []).
  rewrite (for_lines_fold (fun d => VDict (dput (VStr k_cp) (enc_cp d) g)) cp_items_step).
  - rewrite cp_items_fold. unfold pstr in *.
    match goal with |- _ = match ?o with _ => _ end => now destruct o end.
  - change (@enc_cp (F fo) C SS []) with (@VDict (F fo) C SS []).
    intros ln d. unfold cp_items_step, level_line. level_prefix ln f k lvl E1. range_check Hmax lvl E2.
    cbn [dy_eq str_eqb k_ip k_ep k_cp N.eqb Pos.eqb andb xbind].
    rewrite ?getitem_1. cbn [xbind dy_slice dy_bound xthen]. rewrite ?rt_slice_none_lo.
    unfold cp_step. cbn [fst snd].
    set (pre := rt_slice k (Some 0%Z) (Some (-1)%Z)).
    (* search_string not in grammar[name]  /  grammar[name].setdefault(search_string, {}) *)
    erewrite getitem_dict_found by (try reflexivity; apply dfind_dput_same; reflexivity). cbn [xbind].
    try (unfold enc_cp at 1; progress cbn [dy_require_dict xbind];
         try (erewrite getitem_dict_found by (try reflexivity; apply dfind_dput_same; reflexivity)); cbn [xbind]).
    unfold enc_cp at 1. cbn [dy_contains is_key xbind]. rewrite dfind_encl.
    match goal with |- context [@rt_join ?A ?B ?f ?K] =>
    assert (P1 : exists d1 m1, cget pre d1 = Some m1 /\
               m1 = match cget pre d with Some m => m | None => [] end /\
               d1 = cset pre m1 d /\
               @rt_join A B f =
               (fun K0 : val -> fctl (xres (val * val)) val => K0 (VDict (dput (VStr k_cp) (enc_cp d1) g)))) end.
    { destruct (cget pre d) as [m|] eqn:EC; cbn [option_map negb].
      - exists d, m. split; [exact EC|]. split; [reflexivity|]. split; [now rewrite cset_same | reflexivity].
      - exists (cset pre [] d), []. split; [apply cget_cset|]. split; [reflexivity|]. split; [reflexivity|].
        unfold rt_join. erewrite upd_item_found by (try reflexivity; apply dfind_dput_same; reflexivity).
        unfold enc_cp at 1. cbn [dy_setitem is_key xthen xbind].
        change (@VDict (F fo) C SS []) with (@enc_zdict (F fo) C SS []). rewrite dput_encl.
        rewrite dput_dput_same by reflexivity. reflexivity. }
    destruct P1 as (d1 & m1 & Hc1 & Hm1 & Hd1 & ->). cbv beta.
    (* level not in grammar[name][search_string] *)
    unfold dy_getitem at 1. cbn [is_key]. rewrite dfind_dput_same by reflexivity. cbn [x_opt xbind].
    unfold enc_cp at 1. unfold dy_getitem at 1. cbn [is_key]. rewrite dfind_encl, Hc1. cbn [option_map x_opt xbind].
    unfold enc_zdict at 1. cbn [dy_contains is_key xbind]. rewrite dfind_encz.
    match goal with |- context [@rt_join ?A ?B ?f ?K] =>
    assert (P2 : exists d2 m2 cs, cget pre d2 = Some m2 /\ zget lvl m2 = Some cs /\
               cs = match zget lvl m1 with Some c0 => c0 | None => [] end /\
               m2 = zset lvl cs m1 /\ d2 = cset pre m2 d1 /\
               @rt_join A B f =
               (fun K0 : val -> fctl (xres (val * val)) val => K0 (VDict (dput (VStr k_cp) (enc_cp d2) g)))) end.
    { destruct (zget lvl m1) as [c0|] eqn:EZ; cbn [option_map negb].
      - exists d1, m1, c0. split; [exact Hc1|]. split; [exact EZ|]. split; [reflexivity|]. split; [now rewrite zset_same|].
        split; [now rewrite cset_same | reflexivity].
      - exists (cset pre (zset lvl [] m1) d1), (zset lvl [] m1), []. split; [apply cget_cset|]. split; [apply zget_zset|].
        split; [reflexivity|]. split; [reflexivity|]. split; [reflexivity|].
        unfold rt_join. erewrite upd_item_found by (try reflexivity; apply dfind_dput_same; reflexivity).
        unfold enc_cp at 1. erewrite upd_item_found by (try reflexivity; rewrite dfind_encl, Hc1; reflexivity).
        unfold enc_zdict at 1. cbn [dy_setitem is_key xthen xbind].
        change (@VList (F fo) C SS []) with (@enc_chars (F fo) C SS []). rewrite dput_encz.
        change (VDict (encz (zset lvl [] m1))) with (@enc_zdict (F fo) C SS (zset lvl [] m1)). rewrite dput_encl.
        rewrite dput_dput_same by reflexivity. reflexivity. }
    destruct P2 as (d2 & m2 & cs & Hc2 & Hz2 & Hcs & Hm2 & Hd2 & ->). cbv beta.
    (* grammar[name][search_string][level].append(line[1][-1]) *)
    erewrite upd_item_found by (try reflexivity; apply dfind_dput_same; reflexivity).
    unfold enc_cp at 1. erewrite upd_item_found by (try reflexivity; rewrite dfind_encl, Hc2; reflexivity).
    unfold enc_zdict at 1. erewrite upd_item_found by (try reflexivity; rewrite dfind_encz, Hz2; reflexivity).
    rewrite ?getitem_1. cbn [xthen].
    destruct (list_last_cases k) as [->|(G & c & ->)].
    + cbn [rev]. unfold dy_getitem at 1. cbn [rt_index length rt_pos Z.ltb Z.compare Z.add Z.of_nat x_of_outcome xthen xbind x_isa rt_isa].
      reflexivity.
    + rewrite getitem_str_last. rewrite rev_app_distr. cbn [rev app]. rewrite rev_involutive.
      cbn [xthen dy_append enc_chars].
      replace (VList (map (fun c0 : N => @VStr (F fo) C SS [c0]) cs ++ [VStr [c]])) with (@enc_chars (F fo) C SS (cs ++ [c]))
        by (unfold enc_chars; now rewrite map_app).
      rewrite dput_encz. cbn [xthen].
      change (VDict (encz (zset lvl (cs ++ [c]) m2))) with (@enc_zdict (F fo) C SS (zset lvl (cs ++ [c]) m2)).
      rewrite dput_encl. cbn [xthen xbind]. rewrite dput_dput_same by reflexivity.
      do 4 f_equal. unfold enc_cp. do 2 f_equal.
      assert (Hpre : pre = G) by (unfold pre; apply rt_slice_init).
      rewrite cp_add_spec, zdict_add_spec. rewrite Hd2, Hm2, Hd1, Hcs, Hm1, Hpre. unfold pstr in *.
      rewrite !cset_cset, zset_zset.
      unfold pstr, str in *. match goal with |- context [zget lvl ?m] => destruct (zget lvl m) end; reflexivity.
Qed.


(* ---- LN: grammar['ln'][level].append(cur_length - (min_size - 1)) for cur_length >= min_size *)
Definition lidx (lv : list Z) : list (Z * Z) := combine (map Z.of_nat (seq 1 (length lv))) lv.
Definition lnb (n : Z) (lv : list Z) (l : nat) : list Z :=
  map (fun p => (fst p - (n - 1))%Z) (filter (fun p => Z.eqb (snd p) (Z.of_nat l) && (n <=? fst p)%Z) (lidx lv)).

Lemma ln_guesser_lnb n lv : ln_guesser n lv = map (lnb n lv) (seq 0 11).
Proof. reflexivity. Qed.

Lemma lidx_snoc lv x : lidx (lv ++ [x]) = lidx lv ++ [(Z.of_nat (S (length lv)), x)].
Proof.
  unfold lidx. rewrite app_length. cbn [length]. rewrite Nat.add_1_r, seq_S, map_app. cbn [map].
  rewrite combine_snoc by (now rewrite map_length, seq_length). reflexivity.
Qed.

Lemma lnb_snoc n lv x l :
  lnb n (lv ++ [x]) l =
  lnb n lv l ++ (if Z.eqb x (Z.of_nat l) && (n <=? Z.of_nat (S (length lv)))%Z then [(Z.of_nat (S (length lv)) - (n - 1))%Z] else []).
Proof.
  unfold lnb. rewrite lidx_snoc, filter_app, map_app. cbn [filter fst snd].
  now destruct (Z.eqb x (Z.of_nat l) && (n <=? Z.of_nat (S (length lv)))%Z).
Qed.

Definition ln_step {R : Type} (maxlvl : option Z) (ln : pstr) (lv : list Z) : list Z + xres R :=
  match ln_line iws dz maxlvl ln with
  | inl l => inl (lv ++ [l])
  | inr e => inr (XFail e)
  end.

Lemma ln_fold {R : Type} maxlvl lines acc :
  fold_stop (@ln_step R maxlvl) lines acc =
  match ln_lines iws dz maxlvl lines with
  | inl lv => inl (acc ++ lv)
  | inr e => inr (XFail e)
  end.
Proof.
  revert acc. induction lines as [|ln r IH]; intros acc; cbn [fold_stop ln_lines]; [now rewrite app_nil_r|].
  unfold ln_step at 1. destruct (ln_line iws dz maxlvl ln) as [l|e]; [|reflexivity].
  rewrite IH. destruct (ln_lines iws dz maxlvl r); [|reflexivity]. now rewrite <- app_assoc.
Qed.

Lemma omen_load_length_eq dir file (g : list (val * val)) n :
  dfind (VStr k_max_level) g = Some (VInt 10) ->
  py_omen_load_length fo W (VStr dir) (VStr file) (VDict g) (VStr k_ln) (VInt n) =
  match w_open W (w_path_join W [dir; file]) None None with
  | XDone lines => match ln_lines iws dz (Some 10%Z) lines with
                   | inl lv => XDone (VDict (dput (VStr k_ln) (enc_buckets enc_ints (ln_guesser n lv)) g), VNone)
                   | inr e => XFail e
                   end
  | XFail e => XFail e
  end.
Proof.
  intros Hmax. cbv beta zeta delta [py_omen_load_length]. name_keys.
  run_pre Hmax Hmax.
  cbn [x_opt xbind dy_open]. unfold pstr in *.
  match goal with |- _ = match ?o with _ => _ end => destruct o as [lines|e] end;
    cbn [xthen xbind]; [|now rewrite !if_same].
  unfold rt_for_file, rt_fopen. cbn [f_all f_rest].
  lines_loop (fun lv => (@VDict (F fo) C SS (dput (VStr k_ln) (VDict (level_dict (fun l => enc_ints (lnb n lv l)) (seq 0 11))) g),
                        @VInt (F fo) C SS (Z.of_nat (S (length lv)))))
             (@ln_step (val * val) (Some 10%Z)) (@nil Z).
  - intros ln lv. unfold ln_step, ln_line.
    cbn [dy_rstrip strip_pred xthen xbind dy_int x_opt]. rewrite rstrip_crlf, Hpint.
    destruct (parse_int iws dz (rstrip is_crlf ln)) as [lvl|]; cbn [x_opt xthen xbind x_isa rt_isa]; [|reflexivity].
    cbn [dy_lt dy_le xbind]. try replace (0 <=? lvl)%Z with (negb (lvl <? 0)%Z) by (first [apply Z.leb_antisym | symmetry; apply Z.leb_antisym]).
    destruct (lvl <? 0)%Z eqn:E1; cbn [negb xbind xthen x_isa rt_isa]; [reflexivity|].
    range_check Hmax lvl E2.
    cbn [dy_ge dy_le xbind rt_join].
    destruct (level_in_range lvl E1 E2) as (j & -> & Hj).
    destruct (n <=? Z.of_nat (S (length lv)))%Z eqn:E3; unfold rt_join.
    + erewrite upd_item_found by (try reflexivity; apply dfind_dput_same; reflexivity).
      erewrite upd_item_found by (try reflexivity; apply dfind_level_dict; exact Hj).
      cbn [dy_sub xthen dy_append enc_ints xbind dy_add].
      try replace (Z.of_nat (S (length lv)) - n + 1)%Z with (Z.of_nat (S (length lv)) - (n - 1))%Z by lia.
      rewrite dput_level_dict by (try exact Hj; apply seq_NoDup).
      rewrite dput_dput_same by reflexivity. f_equal. f_equal.
      * do 3 f_equal. apply level_dict_ext. intros l Hl. rewrite lnb_snoc, E3, andb_true_r. unfold enc_ints.
        destruct (Nat.eqb_spec l j) as [->|Hne].
        -- rewrite Z.eqb_refl, map_app. reflexivity.
        -- replace (Z.of_nat j =? Z.of_nat l)%Z with false by (symmetry; apply Z.eqb_neq; lia). now rewrite app_nil_r.
      * f_equal. rewrite app_length. cbn [length]. lia.
    + cbn [xbind dy_add]. f_equal. f_equal.
      * do 3 f_equal. apply level_dict_ext. intros l Hl. now rewrite lnb_snoc, E3, andb_false_r, app_nil_r.
      * f_equal. rewrite app_length. cbn [length]. lia.
  - rewrite ln_fold. destruct (ln_lines iws dz (Some 10%Z) lines) as [lv|e]; [|reflexivity].
    cbn [app]. now rewrite ln_guesser_lnb, enc_buckets_map.
Qed.


(* ---- config.txt *)
Lemma omen_load_config_eq dir file (g : list (val * val)) :
  py_omen_load_config fo W (VStr dir) (VStr file) (VDict g) =
  match cp_read (w_cfg W) (w_path_join W [dir; file]) with
  | XFail e => XFail e
  | XDone c =>
      match cp_get (w_cfg W) c k_training_settings k_encoding with
      | XFail e => XFail e
      | XDone enc =>
          match cp_get (w_cfg W) c k_training_settings k_ngram with
          | XFail e => XFail e
          | XDone ntext =>
              match parse_int iws dz ntext with
              | None => XFail (XBase EValue)
              | Some n => XDone (VDict (dput (VStr k_max_level) (VInt 10)
                                        (dput (VStr k_ngram) (VInt n) (dput (VStr k_alphabet_encoding) (VStr enc) g))), VNone)
              end
          end
      end
  end.
Proof.
  cbv beta zeta delta [py_omen_load_config]. name_keys.
  cbn [dy_path_join strs_of option_map xbind dy_cfg_read]. unfold pstr in *.
  match goal with |- _ = match ?o with _ => _ end => destruct o as [c|e] end; cbn [xthen xbind]; [|now rewrite !if_same].
  cbn [dy_cfg_get]. unfold pstr in *.
  match goal with |- _ = match ?o with _ => _ end => destruct o as [enc|e] end; cbn [xthen xbind]; [|now rewrite !if_same].
  cbn [dy_setitem is_key xbind]. unfold dy_cfg_getint. cbn [dy_cfg_get]. unfold pstr in *.
  match goal with |- _ = match ?o with _ => _ end => destruct o as [nt|e] end; cbn [xthen xbind]; [|now rewrite !if_same].
  cbn [dy_int x_opt xthen]. rewrite Hpint.
  destruct (parse_int iws dz nt) as [n|]; cbn [x_opt xthen xbind x_isa rt_isa]; reflexivity.
Qed.

(* ---- load_rules *)
Ltac fail_case :=
  cbn [of_xres sum_bind xbind xthen x_isa rt_isa]; eexists; reflexivity.

Theorem omen_load_rules_cases dir :
  match omen_guesser_load fo W iws dz dir with
  | inl t => py_omen_load_rules fo W (VStr dir) (VDict []) = XDone (enc_omen_tables t, VBool true)
  | inr e => exists g', py_omen_load_rules fo W (VStr dir) (VDict []) =
                        if x_isa (XC CException) e then XDone (g', VBool false) else XFail e
  end.
Proof.
  unfold omen_guesser_load. cbv beta zeta delta [py_omen_load_rules]. name_keys.
  rewrite omen_load_config_eq. unfold pstr, str in *.
  match goal with |- context [of_xres ?o] => destruct o as [c|e] end; cbn [of_xres sum_bind]; [|fail_case].
  match goal with |- context [of_xres ?o] => destruct o as [enc|e] end; cbn [of_xres sum_bind]; [|fail_case].
  match goal with |- context [of_xres ?o] => destruct o as [nt|e] end; cbn [of_xres sum_bind]; [|fail_case].
  destruct (parse_int iws dz nt) as [n|]; cbn [sum_bind]; [|fail_case].
  cbn [xbind dput key_eqb str_eqb N.eqb Pos.eqb andb k_max_level k_ngram k_alphabet_encoding].
  name_keys.
  (* alphabet.txt *)
  rewrite omen_load_alphabet_eq with (enc := enc) by reflexivity. unfold pstr, str in *.
  match goal with |- context [of_xres ?o] => destruct o as [al|e] end; cbn [of_xres sum_bind]; [|fail_case].
  cbn [xbind dput key_eqb str_eqb N.eqb Pos.eqb andb k_max_level k_ngram k_alphabet_encoding k_alphabet]. name_keys.
  (* IP.level *)
  rewrite omen_load_ngrams_ip with (enc := enc) by reflexivity. unfold pstr, str in *.
  match goal with |- context [of_xres ?o] => destruct o as [ipl|e] end; cbn [of_xres sum_bind]; [|fail_case].
  destruct (level_lines iws dz (Some 10%Z) ipl) as [ip|e]; cbn [sum_bind]; [|fail_case].
  cbn [xbind dput key_eqb str_eqb N.eqb Pos.eqb andb k_max_level k_ngram k_alphabet_encoding k_alphabet k_ip]. name_keys.
  (* EP.level *)
  rewrite omen_load_ngrams_ep with (enc := enc) by reflexivity. unfold pstr, str in *.
  match goal with |- context [of_xres ?o] => destruct o as [epl|e] end; cbn [of_xres sum_bind]; [|fail_case].
  destruct (level_lines iws dz (Some 10%Z) epl) as [ep|e]; cbn [sum_bind]; [|fail_case].
  cbn [xbind dput key_eqb str_eqb N.eqb Pos.eqb andb k_max_level k_ngram k_alphabet_encoding k_alphabet k_ip k_ep]. name_keys.
  (* CP.level *)
  rewrite omen_load_ngrams_cp with (enc := enc) by reflexivity. unfold pstr, str in *.
  match goal with |- context [of_xres ?o] => destruct o as [cpl|e] end; cbn [of_xres sum_bind]; [|fail_case].
  match goal with |- context [cp_lines ?a ?b ?c ?d ?e0] => destruct (cp_lines a b c d e0) as [cpd|e] end; cbn [sum_bind]; [|fail_case].
  cbn [xbind dput key_eqb str_eqb N.eqb Pos.eqb andb k_max_level k_ngram k_alphabet_encoding k_alphabet k_ip k_ep k_cp]. name_keys.
  (* LN.level *)
  erewrite getitem_dict_found by reflexivity. cbn [xbind].
  rewrite omen_load_length_eq by reflexivity. unfold pstr, str in *.
  match goal with |- context [of_xres ?o] => destruct o as [lnl|e] end; cbn [of_xres sum_bind]; [|fail_case].
  destruct (ln_lines iws dz (Some 10%Z) lnl) as [lv|e]; cbn [sum_bind]; [|fail_case].
  cbn [xbind dput key_eqb str_eqb N.eqb Pos.eqb andb k_max_level k_ngram k_alphabet_encoding k_alphabet k_ip k_ep k_cp k_ln].
  reflexivity.
Qed.


(* ================================================================ the scorer: OmenScorer.__init__ / _load_omen *)

Definition ngf (its : list (Z * pstr)) : Z :=
  match its with it :: _ => Z.of_nat (length (snd it)) | [] => (-1)%Z end.

Definition sobj (enc : pstr) (vmax : val) (dip dcp : list (pstr * Z)) (lv : list Z) (ng : Z) : val :=
  VObj [ (k_encoding, VStr enc); (k_max_omen_level, vmax); (k_ip, enc_ep dip); (k_cp, enc_ep dcp);
         (k_ln, VList (VStr k_ten :: map VInt lv)); (k_ngram, VInt ng) ].

Lemma ngf_snoc its it : ngf (its ++ [it]) = if (ngf its =? -1)%Z then Z.of_nat (length (snd it)) else ngf its.
Proof.
  destruct its as [|x r]; cbn [app ngf]; [reflexivity|].
  replace (Z.of_nat (length (snd x)) =? -1)%Z with false by (symmetry; apply Z.eqb_neq; lia). reflexivity.
Qed.

Theorem omen_scorer_init_eq base enc (vmax : val) :
  py_omen_scorer_init fo W (VObj []) (VStr base) (VStr enc) vmax =
  match omen_scorer_load fo W iws dz base enc with
  | inl t => XDone (enc_scorer (VStr enc) vmax t, VNone)
  | inr e => XFail e
  end.
Proof.
  unfold omen_scorer_load. cbv beta zeta delta [py_omen_scorer_init py_omen_scorer_load_omen]. name_keys.
  cbn [dy_setattr aput str_eqb N.eqb Pos.eqb andb xbind k_encoding k_max_omen_level k_ip k_cp k_ln k_ngram]. name_keys.
  change (@VDict (F fo) C SS []) with (@enc_ep (F fo) C SS []).
  change (VList [VStr k_ten]) with (@VList (F fo) C SS (VStr k_ten :: map VInt [])).
  fold (sobj enc vmax [] [] [] (-1)).
  (* IP.level *)
  cbn [dy_path_join strs_of option_map xbind]. unfold sobj at 1.
  erewrite getattr_found by reflexivity. cbn [xbind dy_open]. unfold pstr, str in *.
  match goal with |- context [of_xres ?o] => destruct o as [ipl|e] end; cbn [of_xres sum_bind xthen xbind];
    [|now rewrite !if_same].
  unfold rt_for_file, rt_fopen. cbn [f_all f_rest].
  lines_loop (fun its => sobj enc vmax (ep_dict its) [] [] (-1)) (@items_step (val * val) None) (@nil (Z * pstr)).
  { intros ln its. unfold items_step, level_line. level_prefix ln f k lvl E1.
    unfold sobj at 1. erewrite upd_attr_found by reflexivity.
    rewrite ?getitem_1. cbn [xthen enc_ep dy_setitem is_key xbind]. rewrite dput_enc_ep.
    cbn [aput str_eqb N.eqb Pos.eqb andb k_encoding k_max_omen_level k_ip k_cp k_ln k_ngram].
    now rewrite ep_dict_snoc. }
  rewrite items_fold. destruct (level_lines iws dz None ipl) as [ip|e]; cbn [sum_bind app]; [|reflexivity].
  (* CP.level *)
  cbn [dy_path_join strs_of option_map xbind].
  unfold sobj at 1. erewrite getattr_found by reflexivity. cbn [xbind dy_open]. unfold pstr, str in *.
  match goal with |- context [of_xres ?o] => destruct o as [cpl|e] end; cbn [of_xres sum_bind xthen xbind];
    [|now rewrite !if_same].
  unfold rt_for_file, rt_fopen. cbn [f_all f_rest].
  lines_loop (fun its => sobj enc vmax (ep_dict ip) (ep_dict its) [] (ngf its)) (@items_step (val * val) None) (@nil (Z * pstr)).
  { intros ln its. unfold items_step, level_line. level_prefix ln f k lvl E1.
    unfold sobj at 1. erewrite upd_attr_found by reflexivity.
    rewrite ?getitem_1. cbn [xthen enc_ep dy_setitem is_key xbind]. rewrite dput_enc_ep.
    cbn [aput str_eqb N.eqb Pos.eqb andb k_encoding k_max_omen_level k_ip k_cp k_ln k_ngram].
    erewrite getattr_found by reflexivity. cbn [xbind dy_eq]. rewrite ngf_snoc. cbn [snd].
    destruct (ngf its =? -1)%Z.
    - cbn [dy_len xbind dy_setattr aput str_eqb N.eqb Pos.eqb andb k_encoding k_max_omen_level k_ip k_cp k_ln k_ngram].
      unfold sobj, rt_len. now rewrite ep_dict_snoc.
    - unfold sobj. now rewrite ep_dict_snoc. }
  rewrite items_fold. destruct (level_lines iws dz None cpl) as [cp|e]; cbn [sum_bind app]; [|reflexivity].
  (* LN.level *)
  cbn [dy_path_join strs_of option_map xbind dy_open]. unfold pstr, str in *.
  match goal with |- context [of_xres ?o] => destruct o as [lnl|e] end; cbn [of_xres sum_bind xthen xbind];
    [|now rewrite !if_same].
  unfold rt_for_file, rt_fopen. cbn [f_all f_rest].
  lines_loop (fun lv => sobj enc vmax (ep_dict ip) (ep_dict cp) lv (ngf cp)) (@ln_step (val * val) None) (@nil Z).
  { intros ln lv. unfold ln_step, ln_line.
    cbn [dy_rstrip strip_pred xthen xbind dy_int x_opt]. rewrite rstrip_crlf, Hpint.
    destruct (parse_int iws dz (rstrip is_crlf ln)) as [lvl|]; cbn [x_opt xthen xbind x_isa rt_isa]; [|reflexivity].
    cbn [dy_lt xbind]. destruct (lvl <? 0)%Z eqn:E1; cbn [xbind x_isa rt_isa]; [reflexivity|].
    unfold sobj at 1. erewrite upd_attr_found by reflexivity.
    cbn [dy_append xthen xbind aput str_eqb N.eqb Pos.eqb andb k_encoding k_max_omen_level k_ip k_cp k_ln k_ngram].
    unfold sobj. rewrite map_app. reflexivity. }
  rewrite ln_fold. destruct (ln_lines iws dz None lnl) as [lv|e]; cbn [sum_bind app]; [|reflexivity].
  (* self.max_len = len(self.ln) - 1 *)
  cbn [xbind]. unfold sobj at 1. erewrite getattr_found by reflexivity.
  cbn [xbind dy_len dy_sub dy_setattr aput str_eqb N.eqb Pos.eqb andb k_encoding k_max_omen_level k_ip k_cp k_ln k_ngram k_max_len].
  unfold enc_scorer. cbn [st_ip st_cp st_ln st_ngram]. unfold sobj.
  cbn [xbind dy_setattr aput str_eqb N.eqb Pos.eqb andb k_encoding k_max_omen_level k_ip k_cp k_ln k_ngram k_max_len].
  replace (rt_len (@VStr (F fo) C SS k_ten :: map VInt lv) - 1)%Z with (Z.of_nat (length lv))
    by (unfold rt_len; cbn [length]; rewrite map_length; lia).
  reflexivity.
Qed.

End OmenGuesser.
