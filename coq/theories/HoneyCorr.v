(* Correspondence helpers for C16 (binary64 instance of the sampler model). *)
From Coq Require Import List Arith Bool Floats ZArith Uint63.
From Pcfg Require Import Honey.
Import ListNotations.

Definition fofnat (n : nat) : float := PrimFloat.of_uint63 (Uint63.of_Z (Z.of_nat n)).

Definition walk_F (fallback_last : bool) (g : @hgrammar float) (u0 : float) (us : list float) : option (list (nat * nat)) :=
  random_walk 0%float PrimFloat.add PrimFloat.mul PrimFloat.leb fofnat fallback_last g u0 us.

Definition mk_hg (bases : list (float * list nat)) (tbl : list (list (float * nat))) : @hgrammar float :=
  {| hbases := bases; htable := tbl |}.

Definition pt_eqb (a b : list (nat * nat)) : bool :=
  Nat.eqb (length a) (length b) &&
  forallb (fun p => Nat.eqb (fst (fst p)) (fst (snd p)) && Nat.eqb (snd (fst p)) (snd (snd p))) (combine a b).

Definition check_walk (fallback_last : bool) (g : @hgrammar float)
           (x : float * list float * option (list (nat * nat))) : bool :=
  match x with (u0, us, impl) =>
    match walk_F fallback_last g u0 us, impl with
    | None, None => true
    | Some a, Some b => pt_eqb a b
    | _, _ => false
    end
  end.

Definition failing {X} (f : X -> bool) (l : list X) : list nat :=
  map fst (filter (fun kx => negb (f (snd kx))) (combine (seq 0 (length l)) l)).
