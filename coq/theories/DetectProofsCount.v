(* C05_counters: what one call of parse() adds to each counter is exactly
   the tally of the sections of the corresponding label class (as multisets:
   a Counter does not remember order). *)
From Coq Require Import List ZArith NArith Bool Lia Sorting.Permutation.
From Pcfg Require Import Str Multiword Detect Segment DetectProofsStr DetectProofsDrive DetectProofsSimple DetectProofsMw
     DetectProofsSeg DetectProofsWeb DetectProofsKbd.
Import ListNotations.
Open Scope Z_scope.

Definition only_class (c : nat) (p : list section) : Prop :=
  Forall (fun x => snd x = None \/ isC c x = true) p.

Lemma only_class_filter c k p : only_class c p -> k <> c -> filter (isC k) p = [].
Proof.
  intros H Hk. induction H as [|x p Hx _ IH]; [reflexivity|]. simpl. rewrite IH.
  destruct Hx as [Hx|Hx]; unfold isC in *; destruct (snd x) as [l|]; try discriminate; try reflexivity.
  apply Nat.eqb_eq in Hx. rewrite Hx. destruct (Nat.eqb c k) eqn:E; [apply Nat.eqb_eq in E; congruence|reflexivity].
Qed.

Lemma only_class_shape c l1 mids l3 : Forall (fun x => isC c x = true) mids -> only_class c (osec l1 ++ mids ++ osec l3).
Proof.
  intros H. unfold only_class. rewrite !Forall_app. repeat split.
  - destruct l1; [constructor|rewrite osec_cons; constructor; [now left|constructor]].
  - eapply Forall_impl; [|exact H]. intros x Hx. now right.
  - destruct l3; [constructor|rewrite osec_cons; constructor; [now left|constructor]].
Qed.

Lemma filter_shape c l1 mids l3 : Forall (fun x => isC c x = true) mids ->
  filter (isC c) (osec l1 ++ mids ++ osec l3) = mids.
Proof.
  intros H. rewrite !filter_app, !filter_isC_osec, app_nil_r. simpl.
  induction H as [|x m Hx _ IH]; [reflexivity|]. simpl. now rewrite Hx, IH.
Qed.

(* one driver stage whose detector produces sections of class c only *)
Section Stage.
Variable F : Type.
Variable detect : str -> dres F.
Variable reex : bool.
Variable Inv : str -> Prop.
Variable c : nat.
Variables (T : Type) (G : F -> list T) (g : section -> T).
Hypothesis det_class : forall s p f, Inv s -> detect s = DYes p f ->
  unlab_all Inv p /\ only_class c p /\ Permutation (G f) (map g (filter (isC c) p)).

Lemma isC_unlab k s : isC k (s, None) = false.
Proof. reflexivity. Qed.

Lemma stage_class todo out fs : drive_all detect reex todo = Some (out, fs) -> unlab_all Inv todo ->
  Permutation (flat_map G fs ++ map g (filter (isC c) todo)) (map g (filter (isC c) out)) /\
  (forall k, k <> c -> Permutation (filter (isC k) todo) (filter (isC k) out)) /\
  unlab_all Inv out.
Proof.
  intros E Hi. unfold drive_all in E.
  destruct (drive_found F detect reex T G g (isC c) (isC_unlab c) Inv) with (fuel := drive_fuel todo) (todo := todo) (out := out) (fs := fs)
    as (Hp & Hio); try assumption.
  { intros s p f Hs D. destruct (det_class s p f Hs D) as (H1 & _ & H3). split; assumption. }
  split; [assumption|]. split; [|assumption].
  intros k Hk.
  destruct (drive_found F detect reex section (fun _ => []) (fun x => x) (isC k) (isC_unlab k) Inv)
    with (fuel := drive_fuel todo) (todo := todo) (out := out) (fs := fs) as (Hp' & _); try assumption.
  { intros s p f Hs D. destruct (det_class s p f Hs D) as (H1 & H2 & _). split; [|assumption].
    rewrite (only_class_filter c k p H2 Hk). constructor. }
  rewrite !map_id in Hp'. replace (flat_map (fun _ : F => []) fs) with (@nil section) in Hp'; [exact Hp'|].
  clear. induction fs; [reflexivity|assumption].
Qed.

End Stage.

(* ---- order: sections of the other classes keep their order, and for an
   advancing driver the found list is in section order *)

Section StageOrdered.
Variable F : Type.
Variable detect : str -> dres F.
Variable Inv : str -> Prop.
Variable c : nat.
Hypothesis det_class : forall s p f, Inv s -> detect s = DYes p f -> unlab_all Inv p /\ only_class c p.

Lemma stage_other_eq reex k : k <> c -> forall todo out fs, drive_all detect reex todo = Some (out, fs) ->
  unlab_all Inv todo -> filter (isC k) out = filter (isC k) todo.
Proof.
  intros Hk todo out fs E. unfold drive_all in E. revert E.
  apply (drive_rel_simple F detect reex
           (fun a b fs => unlab_all Inv a -> filter (isC k) b = filter (isC k) a /\ unlab_all Inv b)).
  - intros _. split; [reflexivity|constructor].
  - intros x a b fs0 IH Hi. inversion Hi; subst. destruct (IH ltac:(assumption)) as (E & Hb).
    split; [simpl; now rewrite E|now constructor].
  - intros s p f rest out0 fs0 D IH Hi. inversion Hi as [|? ? Hs Hr]; subst.
    destruct (det_class s p f (Hs eq_refl) D) as (Hip & Hcl).
    destruct (IH ltac:(apply Forall_app; now split)) as (E & Hb). split; [|assumption].
    rewrite E, filter_app, (only_class_filter c k p Hcl Hk). reflexivity.
Qed.

Variables (T : Type) (G : F -> list T) (g : section -> T).
Hypothesis det_shape : forall s p f, Inv s -> detect s = DYes p f ->
  exists l1 mids l3, p = osec l1 ++ mids ++ osec l3 /\ mids <> [] /\
    Forall (fun x => isC c x = true) mids /\ G f = map g mids.

Notation vals l := (map g (filter (isC c) l)).

Lemma vals_mids mids : Forall (fun x => isC c x = true) mids -> vals mids = map g mids.
Proof. induction 1 as [|x m Hx _ IH]; [reflexivity|]. simpl. rewrite Hx. simpl. now rewrite IH. Qed.

Lemma isC_labelled x : isC c x = true -> snd x <> None.
Proof. unfold isC. destruct (snd x); [discriminate|discriminate]. Qed.

Lemma stage_found_ordered : forall todo out fs, drive_all detect false todo = Some (out, fs) ->
  unlab_all Inv todo -> filter (isC c) todo = [] -> vals out = flat_map G fs.
Proof.
  intros todo out fs E Hi Hno. unfold drive_all in E.
  assert (H : forall a1 a2, todo = a1 ++ a2 -> Forall (fun x => snd x <> None) a1 -> filter (isC c) a2 = [] ->
              unlab_all Inv todo -> vals out = vals a1 ++ flat_map G fs).
  { revert E.
    apply (drive_rel F detect false
             (fun a b fs => forall a1 a2, a = a1 ++ a2 -> Forall (fun x => snd x <> None) a1 -> filter (isC c) a2 = [] ->
                            unlab_all Inv a -> vals b = vals a1 ++ flat_map G fs)).
    - intros a1 a2 E _ _ _. symmetry in E. apply app_eq_nil in E. destruct E as (-> & ->). reflexivity.
    - intros s l a b fs0 IH a1 a2 E Hl Hn Hia. inversion Hia; subst.
      destruct a1 as [|y a1].
      + simpl in E. subst a2. simpl in Hn. destruct (isC c (s, Some l)) eqn:Ec; [discriminate|].
        simpl. rewrite Ec. apply (IH [] a eq_refl); [constructor|assumption|assumption].
      + simpl in E. injection E as <- ->. inversion Hl; subst.
        simpl. destruct (isC c (s, Some l)); simpl; rewrite (IH a1 a2 eq_refl) by assumption; reflexivity.
    - intros s a b fs0 D IH a1 a2 E Hl Hn Hia. inversion Hia; subst.
      destruct a1 as [|y a1].
      + simpl in E. subst a2. simpl in Hn. simpl. apply (IH [] a eq_refl); [constructor|assumption|assumption].
      + simpl in E. injection E as <- ->. inversion Hl as [|? ? Hy _]; subst. simpl in Hy. congruence.
    - discriminate.
    - intros _ s p f rest x rest' out0 fs0 D E IH a1 a2 Ea Hl Hn Hia. inversion Hia as [|? ? Hs Hr]; subst.
      destruct a1 as [|y a1]; [|simpl in Ea; injection Ea as <- _; inversion Hl as [|? ? Hy _]; subst; simpl in Hy; congruence].
      simpl in Ea. subst a2. simpl in Hn.
      destruct (det_class s p f (Hs eq_refl) D) as (Hip & _).
      destruct (det_shape s p f (Hs eq_refl) D) as (l1 & mids & l3 & -> & Hne & Hm & HG).
      assert (Hall : unlab_all Inv rest').
      { assert (Hpr : unlab_all Inv ((osec l1 ++ mids ++ osec l3) ++ rest)) by (apply Forall_app; now split).
        rewrite E in Hpr. now inversion Hpr. }
      assert (Hn2 : filter (isC c) (osec l3 ++ rest) = []) by (rewrite filter_app, filter_isC_osec; exact Hn).
      assert (Hlab : forall m, Forall (fun x => isC c x = true) m -> Forall (fun x => snd x <> None) m)
        by (intros m Hm'; eapply Forall_impl; [|exact Hm']; intros z; apply isC_labelled).
      simpl. rewrite HG. destruct l1 as [|c0 l1].
      + (* the first mid is passed over *)
        destruct mids as [|m1 mids']; [congruence|]. simpl in E. injection E as <- <-.
        inversion Hm as [|? ? Hm1 Hm']; subst.
        simpl. rewrite Hm1. simpl. rewrite <- app_assoc in Hall.
        rewrite (IH mids' (osec l3 ++ rest)); [|now rewrite <- app_assoc|now apply Hlab|assumption|now rewrite <- app_assoc].
        rewrite (vals_mids mids' Hm'). reflexivity.
      + rewrite osec_cons in E. simpl in E. injection E as <- <-.
        simpl. rewrite <- app_assoc in Hall.
        rewrite (IH mids (osec l3 ++ rest)); [|now rewrite <- app_assoc|now apply Hlab|assumption|now rewrite <- app_assoc].
        rewrite (vals_mids mids Hm). reflexivity.
    - intros _ s f D a1 a2 Ea Hl Hn Hia. inversion Hia as [|? ? Hs Hr]; subst.
      destruct (det_shape s [] f (Hs eq_refl) D) as (l1 & mids & l3 & E & Hne & _).
      destruct l1; destruct mids; simpl in E; try discriminate; congruence. }
  rewrite (H [] todo eq_refl); [reflexivity|constructor|assumption|assumption].
Qed.

End StageOrdered.

(* ---- the detectors, stage by stage *)

Section Stages.
Variables isalpha isdigit isupper : N -> bool.
Variable lower_c : N -> str.
Variable kbs : list board.
Variable min_run : Z.
Variable tlds : list str.
Variable year_prefixes : list str.
Variable context_strings : list str.
Variables mw_threshold mw_min_len mw_max_len : Z.
Hypothesis min_len_pos : 1 <= mw_min_len.
Hypothesis year_prefix_len : Forall (fun q => len q = 2) year_prefixes.
Hypothesis tlds_nonempty : Forall (fun t => 1 <= len t) tlds.

Notation L := (map (lower1 lower_c)).
Notation good := (good isalpha isdigit lower_c).
Notation sound := (sound isalpha isdigit kbs min_run year_prefixes context_strings).
Notation pm := (pm lower_c).
Notation mwp := (mw_parse lower_c mw_threshold mw_min_len mw_max_len).

Lemma single_class c (t : str) (l : label) : cls l = c -> Forall (fun x => isC c x = true) [(t, Some l)].
Proof. intros H. constructor; [|constructor]. unfold isC. simpl. now apply Nat.eqb_eq. Qed.

Lemma email_class s p f : good s -> detect_email lower_c true tlds s = DYes p f ->
  unlab_all good p /\ only_class 1 p /\ Permutation [fst f] (map (fun x => L (fst x)) (filter (isC 1) p)).
Proof.
  intros Hg D.
  destruct (detect_email_split_ok isalpha isdigit lower_c kbs min_run tlds year_prefixes context_strings s p f Hg D) as (_ & _ & Hi & _).
  split; [assumption|]. unfold detect_email in D.
  rewrite (working_aligned lower_c s (good_lowne isalpha isdigit lower_c s Hg)) in D.
  destruct (negb _); [discriminate|]. destruct (negb _); [discriminate|].
  apply email_go_spec in D; [|apply L_len]. destruct D as (l2 & l3 & _ & _ & -> & ->).
  change ((l2, Some LE) :: osec l3) with (osec [] ++ [(l2, Some LE)] ++ osec l3).
  split; [apply only_class_shape; now apply single_class|].
  rewrite filter_shape by (now apply single_class). apply Permutation_refl.
Qed.

Lemma website_class s p f : good s -> detect_website isalpha lower_c true tlds s = DYes p f ->
  unlab_all good p /\ only_class 2 p /\ Permutation [fst (fst f)] (map fst (filter (isC 2) p)).
Proof.
  intros Hg D.
  destruct (detect_website_split_ok isalpha isdigit lower_c kbs min_run tlds year_prefixes context_strings tlds_nonempty s p f Hg D)
    as (_ & _ & Hi & _).
  split; [assumption|]. unfold detect_website in D.
  rewrite (working_aligned lower_c s (good_lowne isalpha isdigit lower_c s Hg)) in D.
  destruct (negb _); [discriminate|].
  apply web_go_spec in D; [|assumption]. destruct D as (l1 & l2 & l3 & _ & _ & -> & ->).
  split; [apply only_class_shape; now apply single_class|].
  rewrite filter_shape by (now apply single_class). apply Permutation_refl.
Qed.

Lemma year_class s p f : good s -> detect_year isdigit year_prefixes s = DYes p f ->
  unlab_all good p /\ only_class 3 p /\ Permutation [f] (map fst (filter (isC 3) p)).
Proof.
  intros Hg D.
  destruct (year_split_ok isalpha isdigit lower_c kbs min_run year_prefixes context_strings year_prefix_len s p f Hg D) as (_ & _ & Hi & _).
  split; [assumption|]. apply detect_year_spec in D; [|assumption].
  destruct D as (prefix & l1 & c2 & c3 & l3 & _ & _ & _ & _ & _ & ->).
  split; [apply only_class_shape; now apply single_class|].
  rewrite filter_shape by (now apply single_class). apply Permutation_refl.
Qed.

Lemma context_class s p f : good s -> detect_context isdigit context_strings s = DYes p f ->
  unlab_all good p /\ only_class 4 p /\ Permutation [f] (map fst (filter (isC 4) p)).
Proof.
  intros Hg D.
  destruct (context_split_ok isalpha isdigit lower_c kbs min_run year_prefixes context_strings s p f Hg D) as (_ & _ & Hi & _).
  split; [assumption|]. apply detect_context_spec in D. destruct D as (l1 & l3 & _ & _ & _ & ->).
  split; [apply only_class_shape; now apply single_class|].
  rewrite filter_shape by (now apply single_class). apply Permutation_refl.
Qed.

Lemma alpha_mids_class pieces : Forall (fun x => isC 5 x = true) (map (fun pc : str => (pc, Some (LA (len pc)))) pieces).
Proof. rewrite Forall_map. apply Forall_forall. reflexivity. Qed.

Lemma alpha_class m s p f : good s -> detect_alpha isalpha isupper lower_c true (mwp m) s = DYes p f ->
  unlab_all good p /\ only_class 5 p /\
  Permutation (fst f) (map (fun x => L (fst x)) (filter (isC 5) p)) /\
  Permutation (snd f) (map (fun x => case_mask isupper (fst x)) (filter (isC 5) p)).
Proof.
  intros Hg D.
  destruct (alpha_split_ok isalpha isdigit isupper lower_c kbs min_run year_prefixes context_strings
              mw_threshold mw_min_len mw_max_len min_len_pos m s p f Hg D) as (_ & _ & Hi & _).
  split; [assumption|].
  apply detect_alpha_spec in D; [|intros x b ws; now apply mw_parse_concat|now apply (good_lowne isalpha isdigit)].
  destruct D as (l1 & l2 & l3 & pieces & b & _ & _ & _ & _ & _ & _ & _ & _ & -> & ->).
  split; [apply only_class_shape; apply alpha_mids_class|].
  rewrite filter_shape by apply alpha_mids_class. rewrite !map_map. simpl. split; apply Permutation_refl.
Qed.

Lemma alpha_shape m s p f : good s -> detect_alpha isalpha isupper lower_c true (mwp m) s = DYes p f ->
  exists l1 mids l3, p = osec l1 ++ mids ++ osec l3 /\ mids <> [] /\ Forall (fun x => isC 5 x = true) mids /\
    fst f = map (fun x => L (fst x)) mids /\ snd f = map (fun x => case_mask isupper (fst x)) mids.
Proof.
  intros Hg D.
  apply detect_alpha_spec in D; [|intros x b ws; now apply mw_parse_concat|now apply (good_lowne isalpha isdigit)].
  destruct D as (l1 & l2 & l3 & pieces & b & _ & _ & _ & _ & _ & _ & _ & Hpne & -> & ->).
  exists l1, (map (fun pc : str => (pc, Some (LA (len pc)))) pieces), l3.
  split; [reflexivity|]. split; [destruct pieces; [congruence|discriminate]|]. split; [apply alpha_mids_class|].
  rewrite !map_map. split; reflexivity.
Qed.

Lemma digit_class s p f : True -> detect_digits isdigit s = DYes p f ->
  unlab_all (fun _ => True) p /\ only_class 6 p /\ Permutation [f] (map fst (filter (isC 6) p)).
Proof.
  intros _ D. split; [apply Forall_forall; intros; exact I|].
  apply detect_digits_spec in D. destruct D as (l1 & l2 & l3 & _ & _ & _ & _ & _ & -> & ->).
  split; [apply only_class_shape; now apply single_class|].
  rewrite filter_shape by (now apply single_class). apply Permutation_refl.
Qed.

(* other_detection, base_structure *)
Lemma other_class sl : filter (isC 7) sl = [] ->
  let (sl', others) := other_detection sl in
  (forall k, k <> 7%nat -> filter (isC k) sl' = filter (isC k) sl) /\ texts 7 sl' = others.
Proof.
  intros H. unfold other_detection. split.
  - intros k Hk. induction sl as [|[t [l|]] r IH]; [reflexivity| |].
    + simpl in *. unfold isC in *. simpl in *. destruct (Nat.eqb (cls l) 7); [discriminate|].
      destruct (Nat.eqb (cls l) k); [f_equal|]; now apply IH.
    + simpl in *. unfold isC at 1. simpl. destruct k as [|[|[|[|[|[|[|[|k]]]]]]]]; try congruence; simpl; now apply IH.
  - unfold texts. induction sl as [|[t [l|]] r IH]; [reflexivity| |].
    + simpl in *. unfold isC in *. simpl in *. destruct (Nat.eqb (cls l) 7); [discriminate|]. now apply IH.
    + simpl in *. f_equal. now apply IH.
Qed.

Lemma base_structure_spec : forall sl sup ls, base_structure sl = Some (sup, ls) ->
  map snd sl = map Some ls /\ sup = forallb (fun l => match l with LW | LE => false | _ => true end) ls.
Proof.
  induction sl as [|[t [l|]] r IH]; intros sup ls H; simpl in H.
  - injection H as <- <-. split; reflexivity.
  - destruct (base_structure r) as [[sup' ls']|]; [|discriminate]. injection H as <- <-.
    destruct (IH _ _ eq_refl) as (E1 & E2). split; [simpl; now rewrite E1|]. simpl. rewrite <- E2. now destruct l.
  - discriminate.
Qed.

End Stages.
