(* Code-point strings with the Python operations the trainer's detectors use.
   A string is a [list N] of code points; an index is a [Z] exactly as in the
   Python source (so that `-1` results of find, `+ 1` corrections and negative
   subscripts are transcribed literally).  Definitions only.

   Everything the Python *runtime* decides about a character (isalpha,
   isdigit, isupper, lower, upper) is a parameter of the models that use this
   file; [uni_*] below turn a concrete table (regenerated from the running
   interpreter into gen/Unicode_gen.v) into such functions. *)
From Coq Require Import List ZArith NArith Bool PArith FMapPositive.
Import ListNotations.
Open Scope Z_scope.

Definition str := list N.

Definition len (s : str) : Z := Z.of_nat (length s).

(* Python slice bound normalisation for a sequence of length l *)
Definition clip (l i : Z) : Z := if i <? 0 then Z.max 0 (l + i) else Z.min i l.

(* s[a:b] *)
Definition slice (s : str) (a b : Z) : str :=
  let l := len s in
  let a' := clip l a in
  let b' := clip l b in
  firstn (Z.to_nat (b' - a')) (skipn (Z.to_nat a') s).

(* s[a:]  and  s[:b] *)
Definition sfrom (s : str) (a : Z) : str := slice s a (len s).
Definition sto (s : str) (b : Z) : str := slice s 0 b.

(* s[i]; None = IndexError *)
Definition getc (s : str) (i : Z) : option N :=
  let l := len s in
  let j := if i <? 0 then l + i else i in
  if (j <? 0) || (l <=? j) then None else nth_error s (Z.to_nat j).

Fixpoint str_eqb (a b : str) : bool :=
  match a, b with
  | [], [] => true
  | x :: a', y :: b' => N.eqb x y && str_eqb a' b'
  | _, _ => false
  end.

Fixpoint prefixb (p s : str) : bool :=
  match p, s with
  | [], _ => true
  | a :: p', b :: s' => N.eqb a b && prefixb p' s'
  | _ :: _, [] => false
  end.

(* s.find(p): lowest index of an occurrence, -1 if none *)
Fixpoint find_at (p s : str) (k : Z) : Z :=
  if prefixb p s then k
  else match s with [] => -1 | _ :: s' => find_at p s' (k + 1) end.
Definition find (s p : str) : Z := find_at p s 0.

(* s.rfind(p): highest index of an occurrence, -1 if none *)
Fixpoint rfind_at (p s : str) (k : Z) : Z :=
  match s with
  | [] => if prefixb p [] then k else -1
  | _ :: s' =>
      let r := rfind_at p s' (k + 1) in
      if 0 <=? r then r else if prefixb p s then k else -1
  end.
Definition rfind (s p : str) : Z := rfind_at p s 0.

(* `p in s` for strings, `c in s` for one character *)
Definition contains (s p : str) : bool := 0 <=? find s p.
Definition mem_c (c : N) (s : str) : bool := existsb (N.eqb c) s.
Fixpoint mem_str (x : str) (l : list str) : bool :=
  match l with [] => false | y :: r => str_eqb x y || mem_str x r end.

(* list.index(c) *)
Fixpoint index_of (c : N) (r : str) (k : Z) : option Z :=
  match r with
  | [] => None
  | x :: r' => if N.eqb x c then Some k else index_of c r' (k + 1)
  end.

Definition nonempty {X} (l : list X) : bool := match l with [] => false | _ => true end.

(* lexicographic order by code point (Python's str comparison) *)
Fixpoint str_ltb (a b : str) : bool :=
  match a, b with
  | [], [] => false
  | [], _ => true
  | _, [] => false
  | x :: a', y :: b' => if N.ltb x y then true else if N.ltb y x then false else str_ltb a' b'
  end.

(* ---------------------------------------------------------------- Unicode *)

(* one character's facts: isalpha, isdigit, isupper, lower(), upper() *)
Record cinfo := { ci_alpha : bool; ci_digit : bool; ci_upper : bool; ci_lower : str; ci_upperc : str }.

Definition utable := PositiveMap.t cinfo.

Definition ukey (c : N) : positive := N.succ_pos c.

Definition utable_of (l : list (N * cinfo)) : utable :=
  fold_left (fun m e => PositiveMap.add (ukey (fst e)) (snd e) m) l (PositiveMap.empty cinfo).

(* default class of a character outside the table: caseless, neither letter
   nor digit *)
Definition uni_alpha (t : utable) (c : N) : bool :=
  match PositiveMap.find (ukey c) t with Some i => ci_alpha i | None => false end.
Definition uni_digit (t : utable) (c : N) : bool :=
  match PositiveMap.find (ukey c) t with Some i => ci_digit i | None => false end.
Definition uni_upper (t : utable) (c : N) : bool :=
  match PositiveMap.find (ukey c) t with Some i => ci_upper i | None => false end.
Definition uni_lower (t : utable) (c : N) : str :=
  match PositiveMap.find (ukey c) t with Some i => ci_lower i | None => [c] end.
Definition uni_upperc (t : utable) (c : N) : str :=
  match PositiveMap.find (ukey c) t with Some i => ci_upperc i | None => [c] end.
