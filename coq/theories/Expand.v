(* Executable model of PcfgGrammar._recursive_guesses / omen_generate_guesses
   (lib_guesser/pcfg_grammar.py:200-311, 423-471) and the specification a
   pre-terminal's expansion has to meet.  Definitions only. *)
From Coq Require Import List Arith Bool NArith.
Import ListNotations.

Definition str := list N.

(* categories of a variable: first letter M / C / anything else *)
Inductive cat := CatM | CatC | CatPlain.

(* one position of a parse tree, resolved against the loaded grammar: the
   category and the values of the chosen probability group *)
Record slot := { scat : cat; svals : list str }.

Definition chU : N := 85%N.   (* 'U' *)
Definition chL : N := 76%N.   (* 'L' *)

Section Expand.
(* str.upper() of one character, decided by the Python runtime (may expand:
   'ß' -> "SS"); the correspondence supplies the table for the characters used *)
Context (upper_c : N -> str).
(* the OMEN generator for a level: the strings of that level in order (C10) *)
Context (omen : str -> list str).

(* the limit: None, or an int; Python's `if limit:` treats 0 like None *)
Definition lim := option nat.
Definition active (l : lim) : bool := match l with Some (S _) => true | _ => false end.
Definition lim_sub (l : lim) (n : nat) : lim := if active l then option_map (fun k => k - n) l else l.
(* after `limit = limit - n`: stop when it was active and is now <= 0 *)
Definition exhausted (l : lim) (n : nat) : bool :=
  match l with Some (S k) => Nat.leb (S k) n | _ => false end.

(* cur[:-n] and cur[-n:] of Python (n = 0 gives "" and the whole string) *)
Definition py_drop_tail (cur : str) (n : nat) : str :=
  if Nat.eqb n 0 then [] else firstn (length cur - n) cur.
Definition py_tail (cur : str) (n : nat) : str :=
  if Nat.eqb n 0 then cur else skipn (length cur - n) cur.

(* applying one mask to the tail; None = IndexError (tail shorter than mask) *)
Fixpoint mask_apply (mask : str) (tail : str) : option str :=
  match mask with
  | [] => Some []
  | m :: mr =>
      match tail with
      | [] => None
      | c :: tr =>
          match mask_apply mr tr with
          | None => None
          | Some r => Some ((if N.eqb m chL then [c] else upper_c c) ++ r)
          end
      end
  end.

(* omen_generate_guesses: emits the level's strings until the limit *)
Definition omen_emit (level : str) (l : lim) : list str :=
  let all := omen level in
  match l with Some (S k) => firstn (S k) all | _ => all end.

(* result: the lines printed (in order) and the returned count; None = the
   Python code would raise (IndexError on a malformed parse tree) *)
Fixpoint expand (pt : list slot) (cur : str) (l : lim) : option (list str * nat) :=
  match pt with
  | [] => None                                   (* pt[0] raises IndexError *)
  | s :: rest =>
    match scat s with
    | CatM =>
        match svals s with
        | [] => None
        | lv :: _ => let out := omen_emit lv l in Some (out, length out)
        end
    | CatC =>
        match svals s with
        | [] => None
        | m0 :: _ =>
          let n := length m0 in
          let start := py_drop_tail cur n in
          let tail := py_tail cur n in
          (fix loop (masks : list str) (l : lim) (acc : list str) (num : nat) : option (list str * nat) :=
             match masks with
             | [] => Some (acc, num)
             | m :: ms =>
               match mask_apply m tail with
               | None => None
               | Some new_end =>
                 let g := start ++ new_end in
                 match rest with
                 | [] =>
                     if exhausted l 1 then Some (acc ++ [g], S num)
                     else loop ms (lim_sub l 1) (acc ++ [g]) (S num)
                 | _ :: _ =>
                     match expand rest g l with
                     | None => None
                     | Some (out, k) =>
                         if exhausted l k then Some (acc ++ out, num + k)
                         else loop ms (lim_sub l k) (acc ++ out) (num + k)
                     end
                 end
               end
             end) (svals s) l [] 0
        end
    | CatPlain =>
        (fix loop (items : list str) (l : lim) (acc : list str) (num : nat) : option (list str * nat) :=
           match items with
           | [] => Some (acc, num)
           | it :: its =>
             let g := cur ++ it in
             match rest with
             | [] =>
                 if exhausted l 1 then Some (acc ++ [g], S num)
                 else loop its (lim_sub l 1) (acc ++ [g]) (S num)
             | _ :: _ =>
                 match expand rest g l with
                 | None => None
                 | Some (out, k) =>
                     if exhausted l k then Some (acc ++ out, num + k)
                     else loop its (lim_sub l k) (acc ++ out) (num + k)
                 end
             end
           end) (svals s) l [] 0
    end
  end.

(* ---------------- specification ---------------- *)

(* a pre-terminal seen as segments: a plain group, or an alpha group followed
   by its capitalisation group *)
Inductive seg := SegPlain (vals : list str) | SegAlpha (words masks : list str).

Definition mask_total (mask w : str) : str :=
  flat_map (fun mc => if N.eqb (fst mc) chL then [snd mc] else upper_c (snd mc)) (combine mask w).

Definition seg_choices (s : seg) : list str :=
  match s with
  | SegPlain vs => vs
  | SegAlpha ws ms => flat_map (fun w => map (fun m => mask_total m w) ms) ws
  end.

Fixpoint product (cs : list (list str)) : list str :=
  match cs with
  | [] => [[]]
  | c :: r => flat_map (fun x => map (app x) (product r)) c
  end.

Definition denote (segs : list seg) : list str := product (map seg_choices segs).

Definition slots_of (s : seg) : list slot :=
  match s with
  | SegPlain vs => [{| scat := CatPlain; svals := vs |}]
  | SegAlpha ws ms => [{| scat := CatPlain; svals := ws |}; {| scat := CatC; svals := ms |}]
  end.

(* what the loader builds: words of A_n have n characters, masks of C_n have
   n characters, no empty group *)
Definition seg_ok (s : seg) : Prop :=
  match s with
  | SegPlain vs => vs <> []
  | SegAlpha ws ms => ws <> [] /\ ms <> [] /\
      exists n, Forall (fun w => length w = n) ws /\ Forall (fun m => length m = n) ms
  end.

End Expand.
