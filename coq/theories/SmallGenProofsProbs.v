(* The generated calculate_probabilities (gen/Small_probs_gen.v: the translation
   of the Python text of lib_trainer/calculate_probabilities.py, redone on every
   run) equals the hand-written model Counters.calc_probs that the theorems of
   C06 are about - for every number structure (the exact one over Q and the
   binary64 one the correspondence runs), every counter and every choice of the
   "undefined" value of a subscript that raises in Python.

   Counter.most_common (Python's stable descending sort) and the arithmetic
   (sum from 0 left to right, true division) are the operations the model names;
   what is compared here is the control flow: the total is taken over the
   counter as given, the list is most_common of it, every entry is replaced, in
   place, by (value, count / total). *)
From Coq Require Import List Arith Bool Lia.
From Pcfg Require Import KernelRt SmallRt SmallGenProofs Counters.
From PcfgGen Require Import Small_probs_gen.
Import ListNotations.

Section ProbsEq.
Context {O : numops} (nm : num O -> num O -> num O) (ud : TextFile.str * num O).

Lemma py_sum_values_total (c : counter O) : py_sum (py_values c) = total c.
Proof. reflexivity. Qed.

(* two spellings are recognised: the in-place loop `for i, v in enumerate(l): l[i] = (v[0], v[1]/t)` and the
   comprehension `[(k, n/t) for k, n in c.most_common()]`; anything else has to be proved equal here first *)
Theorem small_calc_probs_eq (c : counter O) : py_calculate_probabilities nm ud c = calc_probs c.
Proof.
  unfold py_calculate_probabilities, calc_probs. cbv zeta.
  rewrite ?py_sum_values_total.
  first
    [ unfold for_enum_cur, for_each;
      exact (for_enum_cur_map ud (fun kv => (fst kv, ndiv O (snd kv) (total c))) (most_common c) [] 0 _ _ _
               (fun i l => eq_refl))
    | apply map_ext; intros [k n]; reflexivity ].
Qed.

End ProbsEq.

(* ---- C06's theorems about the list the source computes ---- *)
From Coq Require Import NArith ZArith QArith Floats Permutation Sorted.
From Pcfg Require Import ProbAlg F64 TextFile CountersProofs CountersF64 IoFacts.

Theorem small_each_once_sorted (nm : Q -> Q -> Q) (ud : str * Q) (items : list str) : items <> [] ->
  let c := @of_counts QNum (tally items) in
  let file := @py_calculate_probabilities QNum nm ud c in
  file = map (fun kv => (fst kv, (snd kv / total c)%Q)) (most_common c) /\
  Permutation (most_common c) c /\
  NoDup (map fst file) /\
  (forall v, In v (map fst file) <-> In v items) /\
  (forall v p, In (v, p) file ->
     (p == inject_Z (Z.of_nat (count_str v items)) / inject_Z (Z.of_nat (length items)))%Q) /\
  StronglySorted (fun a b => (snd b <= snd a)%Q) file /\
  (forall q : Q, filter (fun kv => Qeq_bool (snd kv) q) (most_common c) = filter (fun kv => Qeq_bool (snd kv) q) c) /\
  map fst c = nodup_first items.
Proof.
  intros H. cbv zeta. rewrite (@small_calc_probs_eq QNum nm ud). exact (each_once_sorted items H).
Qed.

Theorem small_sum_one_Q (nm : Q -> Q -> Q) (ud : str * Q) (c : counter QNum) :
  ~ (total c == 0)%Q -> (qsum (map snd (@py_calculate_probabilities QNum nm ud c)) == 1)%Q.
Proof. rewrite (@small_calc_probs_eq QNum nm ud). apply (proj1 sum_one_Q). Qed.

Theorem small_F64_sorted_unit (nm : float -> float -> float) (ud : str * float) (c : counter FNum) :
  Forall (fun kv => okbF (snd kv) = true /\ (snd kv <=? total c)%float = true) c ->
  okbF (total c) = true -> (0 <? total c)%float = true ->
  Sorted prob_desc (@py_calculate_probabilities FNum nm ud c) /\
  Forall (fun kv => unitbF (snd kv) = true) (@py_calculate_probabilities FNum nm ud c).
Proof. rewrite (@small_calc_probs_eq FNum nm ud). apply calc_probs_F64_wf. Qed.

(* the generated function runs: counts 2 2 1 in binary64 *)
Lemma small_F64_example :
  let c : counter FNum := [([97], 2%float); ([98], 2%float); ([99], 1%float)]%N in
  @py_calculate_probabilities FNum PrimFloat.mul ([], 0%float) c =
  [([97], 0x1.999999999999ap-2%float); ([98], 0x1.999999999999ap-2%float); ([99], 0x1.999999999999ap-3%float)]%N.
Proof. vm_compute. reflexivity. Qed.
